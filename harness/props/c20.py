"""C20 — generated type stubs are valid Python naming exactly the loaded definitions.

Seeded random *sets* of definitions (constants of every literal kind, named and anonymous enums/flags, typedef
aliases of built-in and user types, pointer and array typedefs, structures and unions with nested named /
anonymous / array-of members, bit-fields, multi-dimensional arrays, pointers, self references, `typedef struct
_S {...} S`).  For every set:

* oracle on the real stub text (independent of the model): `ast.parse` succeeds; the names declared in the
  class body are exactly the user constants and typedef keys, each provided by the cstruct object; every
  structure class lists its fields in order with a hint that *resolves* to the field's actual type (a small
  resolver walks the hint's AST against the live type objects); the `__init__` overload repeats them; every
  enum class lists its members;
* correspondence: the Lean model of stubgen.py (`Stubgen.generate`, fed with a snapshot of what the generator
  reads from the cstruct object) renders exactly the same text.

Second family (harness/v8_c20.py): MULTI-NAME TYPEDEFS OF ANONYMOUS AGGREGATES - `typedef struct {...} A, B;`,
`typedef union {...} U1, U2, U3;` with 2-5 names in every layout of the name list, bodies from the field generator above
that may use earlier multi-name types by any of their names (nested), follower typedefs hanging pointer / array / plain
declarators on the first, a middle or the last name, a structure using several of the names as field types, the sibling
forms (`typedef struct _T {...} A, B;`, top-level `struct {...} c, d;`, single name), declarators inside the name list (the
unmodified lexer rejects those), a repeated name, aliases added BY OBJECT through the API; each set under a random
endianness, pointer width, compiled / interpreted, aligned / packed.  Oracle: the one above (every name the cstruct object
provides is declared exactly once - class or alias - and what it is declared as resolves to the type the object provides
under that name; nothing else is declared), an explicit exactly-once count for the names of each multi-name group, and an
independent route that EXECUTES the stub and compares the bindings of the resulting class with the object's types (same
stub object <=> same type).  The same cases go to the Lean model.

Third and fourth family (harness/v9_c20.py; one generator of ABSTRACT definition sets whose names and data attributes the harness
knows without asking the library):
DEEP ANONYMOUS NESTING - structures / unions with a chain of 2-3 anonymous members directly inside one another (struct in union in
struct, union in struct in union), mixed with named nested members (tagged, untagged, arrays of), arrays, pointers, bit-fields,
user types; loaded through a random route under random endianness / pointer width / compiled / aligned.  Oracle: the stub class
(and every inline class, and the text of generate_structure_stub called directly) declares exactly the data attribute names of
the definition, in order - the fields of anonymous members folded in at any depth, never a generated __anonymous_N__ name - as
annotations and as __init__ keywords, each with the hint the declaration prescribes; a value parsed from bytes (random calling
convention: class call / read / reads / cs.read, bytes / bytearray / memoryview / BytesIO / real file) provides every declared
name, holds instances of what the hints name, and its repr / bool / == / hash keep working.
DEFINITIONS LOADED THROUGH EVERY LOADING ROUTE - the same set through load(), loadfile() (real file), several load() calls, the
legacy parser (deftype=DEF_LEGACY, text and file; only the syntax it registers faithfully), the construction API (_make_struct /
_make_union / _make_enum / _make_flag / _make_array / _make_pointer / Field / add_type by object and by name; also empty structure +
add_field with and without start_update), load() + API mixed, and a real module through generate_file_stub; sets centre on
structures with BOTH a tag and typedef names (`typedef struct _Foo {...} Foo, FooAlias;`).  Oracle: the above plus NAMES: the stub
declares every name the harness defined (constant, enum, alias, tag, every typedef name) exactly once and nothing else.
The cases of both go to the Lean model as well (of the routes family: the load, legacy and api route of every set).

Fifth family (harness/v10_c20.py): STUBS REGENERATED AFTER THE DEFINITIONS CHANGED - scripts over the abstract definition sets above, run
in ONE process on one cstruct object or on two objects holding same-named but different structures (each through a random loading
route and options): every object is rendered, then 2-8 steps change the definitions through the public API - S.add_field (one commit
per field / inside start_update()) on top-level structures and unions and on the type of a named nested member (the inline class),
further definitions through load / loadfile / legacy parser / construction API, cs.add_type(name, <structure of the same name with
other fields | alias | enum>, replace=True), cs.add_type(tag, <type of a tagged nested member>) (inline becomes global), or nothing -
and after every step the objects are rendered again through generate_cstruct_stub (default and other cls_name / module_prefix),
generate_structure_stub under four spellings of its prefixes, and generate_file_stub on a real module exposing the live objects.
Oracle after every rendering: the property for the CURRENT definitions as the harness maintains them abstractly (names declared exactly
once, every class and inline class annotating exactly the current data attributes with the prescribed hints and repeating them as
__init__ keywords, parsed instances providing them; each of two objects its own stub) - never a comparison with an earlier text.  The
final state of every object goes to the Lean model.
"""
from __future__ import annotations

import ast
import keyword

from .. import common, impl, v8_c20, v9_c20, v10_c20
from ..common import A, Case, Result, mkrng, parse_sexp, run_driver, sx

KEYWORDS = set(keyword.kwlist)
SCALARS = ["uint8", "int8", "uint16", "int16", "uint32", "int32", "uint64", "int64", "uint24", "int48", "uint128", "float", "double", "char",
           "wchar", "uleb128", "ileb128", "BYTE", "WORD", "DWORD", "QWORD", "unsigned int", "long long", "UCHAR", "ULONG", "void"]
NAME_POOL = ["a", "b", "c", "x", "y", "z", "len", "data", "next", "prev", "flags", "type", "size", "hdr", "_pad", "__x", "v1", "v2", "Name", "ID", "kind",
             "value", "count", "list", "str", "int", "id", "self_", "obj", "match", "case", "print", "cstruct", "Array", "Pointer", "Literal", "fh", "overload"]
KW_POOL = ["in", "is", "from", "class", "def", "None", "not", "pass", "lambda", "import", "global", "del", "as", "or"]


# --------------------------------------------------------------------------------------------- generator

class Gen:
    def __init__(self, rnd, allow_kw: bool):
        self.r = rnd
        self.allow_kw = allow_kw
        self.types: list[str] = []  # user type names usable as field types
        self.structs: list[str] = []
        self.used: set[str] = set()
        self.consts: list[str] = []
        self.n = 0

    def fresh(self, prefix):
        self.n += 1
        pool = [prefix + str(self.n), f"{prefix}_{self.n}", f"_{prefix}{self.n}", f"{prefix.upper()}{self.n}"]
        nm = self.r.choice(pool)
        self.used.add(nm)
        return nm

    def fname(self, taken):
        for _ in range(50):
            nm = self.r.choice(KW_POOL) if (self.allow_kw and self.r.random() < 0.08) else self.r.choice(NAME_POOL)
            if nm not in taken:
                taken.add(nm)
                return nm
        nm = f"f{len(taken)}"
        taken.add(nm)
        return nm

    def field_type(self):
        r = self.r.random()
        if r < 0.55 or not self.types:
            return self.r.choice(SCALARS)
        return self.r.choice(self.types)

    def fields(self, depth, taken=None):
        taken = set() if taken is None else taken
        out = []
        for _ in range(self.r.randint(0 if self.r.random() < 0.06 else 1, 5)):
            r = self.r.random()
            if r < 0.12 and depth < 2:
                kw = self.r.choice(["struct", "union"])
                inner = self.fields(depth + 1, taken if r < 0.05 else None)
                if r < 0.05:
                    if inner.strip():
                        out.append(f"{kw} {{ {inner} }};")  # anonymous member: fields are flattened
                else:
                    suffix = self.r.choice(["", "", "[2]", "[2][3]", "[0]"])
                    tag = self.fresh("In") + " " if self.r.random() < 0.3 else ""
                    out.append(f"{kw} {tag}{{ {inner} }} {self.fname(taken)}{suffix};")
                continue
            t = self.field_type()
            nm = self.fname(taken)
            if t == "void":
                out.append(f"void {nm};")
                continue
            r = self.r.random()
            if r < 0.45:
                out.append(f"{t} {nm};")
            elif r < 0.60:
                dims = "".join(f"[{self.r.choice([0, 1, 2, 3])}]" for _ in range(self.r.randint(1, 3)))
                out.append(f"{t} {nm}{dims};")
            elif r < 0.68:
                out.append(f"{t} {nm}[];" if t not in ("uleb128", "ileb128") else f"{t} {nm};")
            elif r < 0.80:
                stars = "*" * self.r.randint(1, 2)
                out.append(f"{t} {stars}{nm}{self.r.choice(['', '', '[2]'])};")
            elif r < 0.88 and t in ("uint8", "int8", "uint16", "uint32", "int32", "uint64", "BYTE", "WORD", "DWORD"):
                out.append(f"{t} {nm} : {self.r.randint(1, 8)};")
            elif r < 0.94 and self.consts:
                out.append(f"{t} {nm}[{self.r.choice(self.consts)}];" if t not in ("uleb128", "ileb128") else f"{t} {nm};")
            else:
                out.append(f"{t} {nm};")
        # bit-fields of different types must not share names; a trailing EOF array now and then
        if self.r.random() < 0.05:
            out.append(f"uint8 {self.fname(taken)}[EOF];")
        return " ".join(out)

    def definition_set(self):
        parts = []
        for _ in range(self.r.randint(1, 9)):
            r = self.r.random()
            if r < 0.14:
                nm = self.fresh("K")
                val = self.r.choice(["1", "0x10", "-5", "(1 << 4) | 3", '"text"', '"it\'s"', 'b"raw"', "1.5", "07", "0b11", "2 * 3 + 1", '"a\\"q"', '"x\\ny"'])
                parts.append(f"#define {nm} {val}\n")
                if val[0] not in "\"b" and "." not in val and not val.startswith("-"):
                    self.consts.append(nm)
            elif r < 0.30:
                kw = self.r.choice(["enum", "flag"])
                anon = self.r.random() < 0.25
                nm = "" if anon else self.fresh("E")
                base = self.r.choice(["", "", " : uint8", " : uint16", " : int32"])
                taken: set[str] = set()
                ms = []
                for i in range(self.r.randint(1, 5)):
                    m = (self.r.choice(KW_POOL) if (self.allow_kw and self.r.random() < 0.06) else f"{self.r.choice(['A', 'B', 'RED', 'm', 'X_', 'opt'])}{self.n}_{i}")
                    if m in taken or m in self.used:
                        continue
                    taken.add(m)
                    ms.append(m if self.r.random() < 0.6 else f"{m} = {self.r.choice([0, 1, 2, 4, 8, 0x10, 100])}")
                if not ms:
                    continue
                self.used |= taken
                parts.append(f"{kw} {nm}{base} {{ {', '.join(ms)} }};\n")
                if not anon:
                    self.types.append(nm)
            elif r < 0.42 and (self.types or True):
                nm = self.fresh("T")
                tgt = self.field_type()
                if tgt == "void":
                    tgt = "uint8"
                form = self.r.random()
                if form < 0.45:
                    parts.append(f"typedef {tgt} {nm};\n")
                elif form < 0.65:
                    parts.append(f"typedef {tgt} *{nm};\n")
                elif form < 0.85:
                    parts.append(f"typedef {tgt} {nm}[{self.r.choice([0, 1, 2, 4])}];\n")
                else:
                    parts.append(f"typedef {tgt} {nm}[2][3];\n")
                self.types.append(nm)
            elif r < 0.50:
                # typedef struct _S {...} S;   /  typedef struct {...} S;
                nm = self.fresh("S")
                tag = self.r.choice(["", "_" + nm + " ", "tag" + nm + " "])
                kw = self.r.choice(["struct", "union"])
                parts.append(f"typedef {kw} {tag}{{ {self.fields(0)} }} {nm};\n")
                self.types.append(nm)
                if tag:
                    self.types.append(tag.strip())
            elif r < 0.53 and self.allow_kw:
                # F39: typedef of an anonymous struct through a pointer declarator
                nm = self.fresh("P")
                parts.append(f"typedef struct {{ uint8 a; }} *{nm};\n")
            else:
                kw = self.r.choice(["struct", "struct", "struct", "union"])
                nm = self.r.choice(KW_POOL) if (self.allow_kw and self.r.random() < 0.04 and "kwtype" not in self.used) else self.fresh("S")
                body = self.fields(0)
                if self.r.random() < 0.15:
                    body += f" {kw} {nm} *{self.r.choice(['link', 'up', 'nxt'])};"
                parts.append(f"{kw} {nm} {{ {body} }};\n")
                self.types.append(nm)
        return "".join(parts)


class Gen8(v8_c20.MultiNameMixin, Gen):
    """definition sets around multi-name typedefs of anonymous aggregates (harness/v8_c20.py)"""

    KW = KW_POOL


# --------------------------------------------------------------------------------------------- snapshot of what stubgen reads

def snapshot(m, cs):
    """the generator's input as the model's S-expression (consts with value reprs, typedef table with type trees)"""
    T = m.types

    def sty(t, under_ptr=False):
        if issubclass(t, T.CharArray):
            return [A("chararr"), t.__name__]
        if issubclass(t, T.WcharArray):
            return [A("wchararr"), t.__name__]
        if issubclass(t, T.Pointer):
            return [A("ptr"), t.__name__, sty(t.type, True)]
        if issubclass(t, T.BaseArray):
            return [A("arr"), t.__name__, sty(t.type, under_ptr)]
        if issubclass(t, T.Structure) and not under_ptr:
            return [A("struct"), t.__name__, t.__base__.__name__, [[n, sty(f.type)] for n, f in t.fields.items()]]
        return [A("leaf"), t.__name__]

    def tdef(v):
        if isinstance(v, str):
            # an alias added by name (add_type("alias", "uint32")) stands for the type it resolves to (the generator resolves it: fixed F60)
            v = cs.resolve(v)
        if issubclass(v, (T.Enum, T.Flag)):
            return [A("enum"), v.__name__, v.__base__.__name__, list(v.__members__)]
        if issubclass(v, (T.Pointer, T.BaseArray, T.Structure)):
            return [A("ty"), sty(v)]
        return [A("generic"), v.__name__, v.__base__.__name__]

    consts = []
    for k, v in cs.consts.items():
        if isinstance(v, (T.Enum, T.Flag)):
            v = v.value
        consts.append([k, repr(v)])
    return ["", "cstruct", consts, [[k, tdef(v)] for k, v in cs.typedefs.items()]]


# --------------------------------------------------------------------------------------------- oracle on the real stub text

class Bad(Exception):
    pass


def check_hint(m, cs, node, ftype, inline: dict):
    """does the hint expression name `ftype`?  inline: name -> (ClassDef, type) for inline classes declared before the field"""
    T = m.types
    if isinstance(node, ast.Name):
        if node.id == "CharArray":
            if not issubclass(ftype, T.CharArray):
                raise Bad(f"hint CharArray for {ftype.__name__}")
            return
        if node.id == "WcharArray":
            if not issubclass(ftype, T.WcharArray):
                raise Bad(f"hint WcharArray for {ftype.__name__}")
            return
        # an unprefixed name must be an inline class of this body that describes the field's type
        if node.id not in inline:
            raise Bad(f"hint names {node.id}, which neither the stub class nor the enclosing class body declares")
        cdef = inline[node.id]
        if ftype.__name__ != node.id or not issubclass(ftype, T.Structure):
            raise Bad(f"hint names inline class {node.id} but the field's type is {ftype.__name__}")
        check_struct_class(m, cs, cdef, ftype)
        return
    if isinstance(node, ast.Attribute) and isinstance(node.value, ast.Name) and node.value.id == "cstruct":
        if issubclass(ftype, (T.BaseArray, T.Pointer)):
            raise Bad(f"hint cstruct.{node.attr} for the array/pointer type {ftype.__name__}")
        try:
            got = cs.resolve(node.attr)
        except Exception:  # noqa: BLE001
            raise Bad(f"hint cstruct.{node.attr} does not resolve on the cstruct object") from None
        if got is not ftype:
            raise Bad(f"hint cstruct.{node.attr} resolves to {got.__name__}, the field's type is {ftype.__name__}")
        return
    if isinstance(node, ast.Subscript) and isinstance(node.value, ast.Name) and node.value.id in ("Array", "Pointer"):
        if node.value.id == "Array":
            if not issubclass(ftype, T.Array):
                raise Bad(f"hint Array[...] for {ftype.__name__}")
        elif not issubclass(ftype, T.Pointer):
            raise Bad(f"hint Pointer[...] for {ftype.__name__}")
        check_hint(m, cs, node.slice, ftype.type, inline)
        return
    raise Bad(f"unexpected hint expression {ast.dump(node)}")


def check_struct_class(m, cs, cdef: ast.ClassDef, stype):
    base = cdef.bases[0].id if (len(cdef.bases) == 1 and isinstance(cdef.bases[0], ast.Name)) else None
    if base != stype.__base__.__name__:
        raise Bad(f"class {cdef.name} derives from {base}, the type from {stype.__base__.__name__}")
    inline: dict[str, ast.ClassDef] = {}
    ann = []
    inits = []
    for st in cdef.body:
        if isinstance(st, ast.ClassDef):
            inline[st.name] = st
        elif isinstance(st, ast.AnnAssign) and isinstance(st.target, ast.Name) and st.value is None:
            ann.append((st.target.id, st.annotation, dict(inline)))
        elif isinstance(st, ast.FunctionDef) and st.name == "__init__":
            inits.append(st)
        else:
            raise Bad(f"unexpected statement in class {cdef.name}: {ast.dump(st)[:80]}")
    want = list(stype.fields.items())
    if [a[0] for a in ann] != [n for n, _ in want]:
        raise Bad(f"class {cdef.name} annotates fields {[a[0] for a in ann]}, the structure has {[n for n, _ in want]}")
    for (n, hint, inl), (_, f) in zip(ann, want):
        try:
            check_hint(m, cs, hint, f.type, inl)
        except Bad as e:
            raise Bad(f"field {cdef.name}.{n}: {e}") from None
    if len(inits) != 2:
        raise Bad(f"class {cdef.name} has {len(inits)} __init__ overloads")
    kwinit = inits[0]
    names = [a.arg for a in kwinit.args.args]
    if names != ["self"] + [n for n, _ in want]:
        raise Bad(f"__init__ of {cdef.name} takes {names}")
    for a, (n, hint, inl), (_, f) in zip(kwinit.args.args[1:], ann, want):
        an = a.annotation
        if not (isinstance(an, ast.BinOp) and isinstance(an.op, ast.BitOr) and isinstance(an.right, ast.Constant) and an.right.value is None):
            raise Bad(f"__init__ argument {n} of {cdef.name} is not `<hint> | None`")
        try:
            check_hint(m, cs, an.left, f.type, inline)
        except Bad as e:
            raise Bad(f"__init__ argument {cdef.name}.{n}: {e}") from None


def oracle(m, cs, stub: str):
    """raise Bad(reason) if the stub violates the property for this cstruct object"""
    T = m.types
    try:
        tree = ast.parse(stub)
    except SyntaxError as e:
        raise Bad(f"stub is not valid Python: {e.msg} (line {e.lineno}: {stub.splitlines()[e.lineno - 1].strip()[:60] if e.lineno else ''})") from None
    if len(tree.body) != 1 or not isinstance(tree.body[0], ast.ClassDef):
        raise Bad("stub is not a single class")
    empty = m.cstruct()
    uconsts = [k for k in cs.consts if k not in empty.consts]
    utypes = [k for k in cs.typedefs if k not in empty.typedefs]
    declared = []
    classes = {}
    aliases = {}
    for st in tree.body[0].body:
        if isinstance(st, ast.ClassDef):
            declared.append(st.name)
            classes[st.name] = st
        elif isinstance(st, ast.AnnAssign) and isinstance(st.target, ast.Name):
            declared.append(st.target.id)
            aliases[st.target.id] = st
        elif isinstance(st, ast.Expr) and isinstance(st.value, ast.Constant) and st.value.value is Ellipsis:
            pass
        else:
            raise Bad(f"unexpected statement in the stub class: {ast.dump(st)[:80]}")
    if sorted(declared) != sorted(uconsts + utypes):
        missing = sorted(set(uconsts + utypes) - set(declared))
        extra = sorted(set(declared) - set(uconsts + utypes))
        dup = sorted({d for d in declared if declared.count(d) > 1})
        raise Bad(f"declared names differ from the loaded definitions: missing {missing}, extra {extra}, duplicated {dup}")
    for d in declared:
        if d not in cs.consts and d not in cs.typedefs:
            raise Bad(f"{d} is declared but the cstruct object does not provide it")
    for k in uconsts:
        st = aliases.get(k)
        v = cs.consts[k]
        if isinstance(v, (T.Enum, T.Flag)):
            v = v.value
        ok = (st is not None and isinstance(st.annotation, ast.Subscript) and isinstance(st.annotation.value, ast.Name) and st.annotation.value.id == "Literal")
        if not ok:
            raise Bad(f"constant {k} is not declared as a Literal")
        try:
            lit = ast.literal_eval(st.annotation.slice)
        except Exception:  # noqa: BLE001
            raise Bad(f"constant {k}: Literal argument is not a literal") from None
        if lit != v or type(lit) is not type(v):
            raise Bad(f"constant {k} is declared as {lit!r}, the cstruct object holds {v!r}")
    for k in utypes:
        t = cs.typedefs[k]
        if isinstance(t, str):
            t = cs.resolve(t)
        if k in classes:
            c = classes[k]
            if t.__name__ != k:
                raise Bad(f"class {k} declared for a typedef whose type is called {t.__name__}")
            if issubclass(t, T.Structure):
                check_struct_class(m, cs, c, t)
            elif issubclass(t, (T.Enum, T.Flag)):
                mem = []
                for st in c.body:
                    if isinstance(st, ast.Assign) and len(st.targets) == 1 and isinstance(st.targets[0], ast.Name):
                        mem.append(st.targets[0].id)
                    else:
                        raise Bad(f"unexpected statement in enum class {k}")
                if mem != list(t.__members__):
                    raise Bad(f"enum class {k} lists members {mem}, the type has {list(t.__members__)}")
                base = c.bases[0].id if (len(c.bases) == 1 and isinstance(c.bases[0], ast.Name)) else None
                if base != t.__base__.__name__:
                    raise Bad(f"enum class {k} derives from {base}")
        else:
            st = aliases[k]
            if not (isinstance(st.annotation, ast.Name) and st.annotation.id == "TypeAlias" and st.value is not None):
                raise Bad(f"{k} is neither a class nor a TypeAlias")
            v = st.value
            # the alias target must name the typedef's type
            if isinstance(v, ast.Name) and v.id in classes:
                if cs.typedefs.get(v.id) is not t:
                    raise Bad(f"alias {k} = {v.id}, but {v.id} is a different type than {k}")
            elif isinstance(v, ast.Name) and v.id in ("CharArray", "WcharArray"):
                check_hint(m, cs, v, t, {})
            else:
                try:
                    check_hint(m, cs, v, t, {})
                except Bad as e:
                    raise Bad(f"alias {k}: {e}") from None


def has_keyword_name(m, cs):
    T = m.types
    empty = m.cstruct()
    seen = set()

    def walk(t):
        if id(t) in seen or isinstance(t, str):
            return False
        seen.add(id(t))
        if t.__name__ in KEYWORDS:
            return True
        if issubclass(t, (T.Enum, T.Flag)):
            return any(k in KEYWORDS for k in t.__members__)
        if issubclass(t, T.Structure):
            return any(n in KEYWORDS or walk(f.type) for n, f in t.fields.items())
        if issubclass(t, (T.BaseArray, T.Pointer)):
            return walk(t.type)
        return False

    if any(k in KEYWORDS for k in cs.consts):
        return True
    return any(k in KEYWORDS or walk(v) for k, v in cs.typedefs.items() if k not in empty.typedefs)


def has_ptr_named_struct(cs):
    return any((not isinstance(v, str)) and any(ch in v.__name__.rstrip("*").split("[")[0] for ch in "*") or
               ((not isinstance(v, str)) and v.__name__.startswith("*")) for v in cs.typedefs.values())


def run(env) -> Result:
    res = Result()
    res.rule = ("seeded random sets of 1-9 definitions (constants of all literal kinds, named/anonymous enums and flags, typedef aliases of built-in and "
                "user types, pointer/array typedefs, typedef struct tag {...} name, structures/unions with nested named, anonymous and array-of "
                "members, bit-fields, multi-dimensional arrays, pointers, self references, zero-field structures) loaded into a fresh cstruct; per "
                "set: ast.parse + declared-name + field-hint-resolution oracle on the real stub, and exact text equality with the Lean model. "
                "distinct = definition text; non-trivial = >= 2 user typedefs or constants. "
                "Second family: sets of 1-4 multi-name typedefs of anonymous structs/unions (2-5 names, all name-list layouts, nested use of "
                "earlier multi-name types, pointer/array/plain follower typedefs on any of the names, a structure using the names, tagged / "
                "top-level-variable / single-name sibling forms, declarators inside the name list, repeated names, aliases added by object) "
                "optionally between ordinary definition sets, under random endianness / pointer width / compiled / aligned; same oracle plus "
                "an exactly-once count per name group and an execution of the stub whose bindings are compared with the object's types; "
                "distinct = (definitions, options); non-trivial = some type is registered under >= 2 names. "
                "Third family (v9-deep): abstract definition sets ending in a struct/union with a chain of 2-3 directly nested anonymous members "
                "(plus named nested members, arrays, pointers, bit-fields, user types), one random loading route, random options; oracle: the "
                "stub class / inline classes / generate_structure_stub declare exactly the definition's data attribute names in order "
                "(anonymous members folded) as annotations and __init__ keywords with the prescribed hints; parsed instances (random calling "
                "convention) provide every declared name, hold instances of the hinted types, repr/bool/==/hash work. "
                "Fourth family (v9-routes): every set through load, loadfile, split load calls, legacy parser (text and file; legacy-compatible "
                "sets), construction API (fields at creation / add_field), load+API mixed, generate_file_stub of a real module; same oracle "
                "plus: the stub declares every name the harness defined exactly once and nothing else (tag and every typedef name of "
                "`typedef struct _Foo {...} Foo, FooAlias;`). distinct = (definitions, route). "
                "Fifth family (v10-regen): scripts in one process on 1-2 cstruct objects (the second a same-named variant of the first; random "
                "route and options each): initial rendering, then 2-5 (thorough 2-8) steps of add_field (commit / start_update) on a top-level "
                "structure or on the type of a named nested member, further load / loadfile / legacy / API definitions, add_type(replace=True) "
                "with a same-named other structure / alias / enum, add_type of a tagged nested type, or nothing; after every step every entry "
                "point (generate_cstruct_stub with default and other prefixes, generate_structure_stub under four prefix spellings, now and then "
                "generate_file_stub on a module exposing the live objects) is evaluated with the v9 oracle against the CURRENT abstract "
                "definitions. distinct = script")
    m = impl.dc()
    from dissect.cstruct.tools import stubgen as sg  # imported from /repo by impl.dc()

    tier = env["tier"]
    findings = {f["id"] for f in env["findings"]}
    rnd = mkrng(env["seed"], "c20")
    lines, metas = [], []

    def viol(what, data, sig=None):
        if sig and sig in findings:
            res.known_seen[sig] = res.known_seen.get(sig, 0) + 1
        elif len(res.violations) < 50:
            res.violations.append(Case("property", what, data))

    n = 700 if tier == "quick" else 12000
    corpus = [
        "enum { A, B };", "enum : uint8 { A = 1 };", "typedef uint8 *PU8; typedef uint8 ARR[4]; typedef char STR[8]; typedef wchar W[2];",
        "typedef struct _S { uint8 a; } S;", "struct T { struct { uint8 x; } in1; struct { uint8 y; } arr[2]; union { uint8 z; uint16 w; }; };",
        "struct G { uint8 g; }; struct H { G one; G two[2]; G *p; G **pp; G m[2][2]; };", "#define X 1\n#define Y \"abc\"\n#define Z (X+1)\n#define W 1.5\n",
        "struct E {};", "typedef uint32 MYINT; typedef MYINT MY2; struct Q { MYINT a; MY2 b; MY2 *c; MYINT d[2]; };",
        "flag F : uint8 { a, b }; struct R { F f; F g[2]; char s[]; wchar w[4]; uint8 d[a]; F *pf; };", "struct L { uint8 a; struct L *next; };",
        "struct M { struct { uint8 p; uint8 q; }; uint8 r; };", "typedef struct N1 { uint8 a; } N2; typedef N2 N3[2]; struct O { N3 x; N2 *y; };",
        "struct B { uint8 a:4; uint8 b:4; int24 c; uleb128 l; void v; };", "", "struct A { uint8 a; }; typedef A B; typedef B C; typedef A *PA; typedef A AA[2];",
        "struct K { uint8 in; };", "typedef struct { uint8 a; } *P3;", "enum E9 { from, B9 };", "struct class { uint8 a; };",
    ]
    for i in range(n + len(corpus)):
        if i < len(corpus):
            text = corpus[i]
        else:
            text = Gen(rnd, allow_kw=(rnd.random() < 0.12)).definition_set()
        cs = m.cstruct()
        try:
            cs.load(text)
        except Exception as e:  # noqa: BLE001
            res.feat("rejected:" + type(e).__name__)
            continue
        data = {"definitions": text}
        empty = m.cstruct()
        # aliases added by NAME through the API (the built-in table uses the same form): cs.add_type("alias", "target")
        if rnd.random() < 0.25:
            targets = [k for k in cs.typedefs if k not in empty.typedefs and k.isidentifier()] + ["uint32", "int8", "char", "DWORD", "wchar", "float"]
            try:
                for j in range(rnd.randint(1, 2)):
                    tgt = rnd.choice(targets)
                    cs.add_type(f"al{j}_{i}", tgt)
                    data.setdefault("aliases_by_name", []).append([f"al{j}_{i}", tgt])
                res.feat("alias-by-name")
            except Exception as e:  # noqa: BLE001
                res.feat("alias-by-name:rejected:" + type(e).__name__)
        nuser = len([k for k in cs.typedefs if k not in empty.typedefs]) + len(cs.consts)
        res.count(text, nuser >= 2)
        sig = None
        if has_keyword_name(m, cs):
            sig = "F38"
            res.feat("keyword-name")
        elif any((not isinstance(v, str)) and "*" in v.__name__.split("[")[0].rstrip("*") for v in cs.typedefs.values()):
            sig = "F39"
            res.feat("anonymous-struct-through-pointer-typedef")
        try:
            stub = sg.generate_cstruct_stub(cs)
        except Exception as e:  # noqa: BLE001
            viol(f"generate_cstruct_stub raises {type(e).__name__}: {e}", data, sig)
            continue
        for k, v in cs.typedefs.items():
            if k in empty.typedefs or isinstance(v, str):
                continue
            res.feat("typedef:" + ("enum" if issubclass(v, (m.types.Enum, m.types.Flag)) else "struct" if issubclass(v, m.types.Structure) else
                                   "pointer" if issubclass(v, m.types.Pointer) else "array" if issubclass(v, m.types.BaseArray) else "scalar-alias") +
                     ("" if v.__name__ == k or issubclass(v, (m.types.Pointer, m.types.BaseArray)) else ":other-name"))
        if cs.consts:
            res.feat("constants")
        if "class __anonymous" in stub or "\n        class " in stub:
            res.feat("inline-class")
        try:
            oracle(m, cs, stub)
        except Bad as e:
            viol(str(e), dict(data, stub=stub), sig)
        lines.append(sx([A("stubgen")] + snapshot(m, cs)))
        metas.append((data, stub, sig))
    res.sample({"definitions": metas[25][0]["definitions"], "stub": metas[25][1]}) if len(metas) > 25 else None
    multiname_family(env, res, m, sg, viol, lines, metas)
    v9_c20.run_families(env, res, m, sg, _hooks(viol), lines, metas, mkrng)
    v10_c20.run_families(env, res, m, sg, _hooks(viol), lines, metas, mkrng)
    answers = run_driver(lines) if env["driver_ok"] else [None] * len(lines)
    for (data, stub, sig), ans in zip(metas, answers):
        if ans is None:
            continue
        s = parse_sexp(ans)
        got = "\n".join(str(x) for x in s[1:]) if s[0] == "ok" else f"<{ans}>"
        if got != stub:
            gl, sl = got.split("\n"), stub.split("\n")
            k = next((j for j in range(min(len(gl), len(sl))) if gl[j] != sl[j]), min(len(gl), len(sl)))
            res.disagreements.append(Case("corr", f"stub text differs at line {k + 1}: model {gl[k] if k < len(gl) else '<end>'!r}, implementation "
                                          f"{sl[k] if k < len(sl) else '<end>'!r}", dict(data, stub=stub)))
    # a model/code difference is searched for a failing input by the oracle above (it ran on every case); nothing else to do here
    return res


def multiname_family(env, res, m, sg, viol, lines, metas):
    """multi-name typedefs of anonymous aggregates (generator and the execution oracle: harness/v8_c20.py)"""
    T = m.types
    rnd = mkrng(env["seed"], "c20-multiname")
    n = 260 if env["tier"] == "quick" else 5000
    corpus = [
        "typedef struct { uint8 a; } A, B;", "typedef union { uint8 a; uint16 b; } U1, U2, U3;", "typedef struct {} E1, E2;",
        "typedef struct { uint8 a; } A, B; typedef struct { A x; B y[2]; B *p; } C, D; typedef D *PD; typedef C CC[2]; typedef B B2;",
        "typedef struct { struct { uint8 x; } i; union { uint8 p; uint16 q; }; struct { uint8 y; } arr[2]; } A,\n B ,C;",
        "typedef struct _T { uint8 a; } A, B;", "struct { uint8 a; } c, d;", "typedef struct { uint8 a; } A, A;",
        "typedef struct { uint8 a; } A, B; struct S { A a; B b; B *pb; A arr[2]; };",
    ]
    sampled = False
    for i in range(n + len(corpus)):
        g = Gen8(rnd, allow_kw=(rnd.random() < 0.06))
        g.mn_init()
        text = corpus[i] if i < len(corpus) else g.mn_definition_set()
        data = {"definitions": text, "options": v8_c20.pick_options(rnd) if i >= len(corpus) else {}}
        try:
            cs = v8_c20.build(m, data)
        except Exception as e:  # noqa: BLE001 - what the parser takes is not this property's business
            forms = {x["form"] for x in g.groups}
            res.feat(("multi:declarator-in-list:rejected:" if "declarator-in-list" in forms else "multi:rejected:") + type(e).__name__)
            continue
        empty = m.cstruct()
        user = [k for k in cs.typedefs if k not in empty.typedefs]
        if user and rnd.random() < 0.25:
            for j in range(rnd.randint(1, 2)):
                tgt = rnd.choice(user)
                try:
                    cs.add_type(f"ob{j}_{i}", cs.typedefs[tgt])
                    data.setdefault("aliases_by_object", []).append([f"ob{j}_{i}", tgt])
                    res.feat("multi:alias-by-object")
                except Exception as e:  # noqa: BLE001
                    res.feat("multi:alias-by-object:rejected:" + type(e).__name__)
        by_type: dict[int, list[str]] = {}
        for k, v in cs.typedefs.items():
            if k not in empty.typedefs and not isinstance(v, str):
                by_type.setdefault(id(v), []).append(k)
        res.count((text, sorted(data["options"].items(), key=str)), any(len(v) >= 2 for v in by_type.values()))
        for x in g.groups:
            res.feat(f"multi:{x['form']}:{x['kind']}")
            res.feat(f"multi:names={len(x['names'])}")
            for f in x.get("followers", []):
                res.feat("multi:follower:" + f)
            if x.get("user"):
                res.feat("multi:used-as-field-types")
        for k, v in data["options"].items():
            res.feat(f"multi:opt:{k}={v}")
        sig = None
        if has_keyword_name(m, cs):
            sig = "F38"
            res.feat("keyword-name")
        elif any((not isinstance(v, str)) and "*" in v.__name__.split("[")[0].rstrip("*") for v in cs.typedefs.values()):
            sig = "F39"
            res.feat("anonymous-struct-through-pointer-typedef")
        try:
            stub = sg.generate_cstruct_stub(cs)
        except Exception as e:  # noqa: BLE001
            viol(f"generate_cstruct_stub raises {type(e).__name__}: {e}", data, sig)
            continue
        try:
            oracle(m, cs, stub)
            # every name of a group that the object provides: declared exactly once (the oracle above already compares the multisets;
            # this names the group)
            tree = ast.parse(stub)
            for x in g.groups:
                have = [nm for nm in dict.fromkeys(x["names"]) if nm in cs.typedefs]
                off = v8_c20.declared_once(tree, have)
                if off:
                    raise Bad(f"the names {off} of `typedef {x['kind']} {{...}} {', '.join(x['names'])}` are provided by the cstruct object "
                              "but not declared exactly once in the stub")
            v8_c20.exec_oracle(m, cs, stub, Bad, res.feat, empty)
        except Bad as e:
            viol(str(e), dict(data, stub=stub), sig)
        except Exception as e:  # noqa: BLE001 - the oracle met an object of a shape it cannot read: the library changed under it
            viol(f"the stub / the cstruct object cannot be read by the oracle ({type(e).__name__}: {e})", dict(data, stub=stub), sig)
        if not sampled and i >= len(corpus) and sig is None:
            sampled = True
            res.sample({"definitions": text, "options": data["options"], "stub": stub})
        try:
            lines.append(sx([A("stubgen")] + snapshot(m, cs)))
            metas.append((data, stub, sig))
        except Exception as e:  # noqa: BLE001
            viol(f"the cstruct object cannot be snapshotted for the model ({type(e).__name__}: {e})", dict(data, stub=stub), sig)


class _hooks:
    """what harness/v9_c20.py needs from this module"""

    Bad = Bad
    oracle = staticmethod(oracle)

    def __init__(self, viol=None):
        self.viol = viol

    @staticmethod
    def line(m, cs):
        return sx([A("stubgen")] + snapshot(m, cs))


REPLAY_EXACT = True  # the recorded definition set is re-evaluated directly


def replay(body) -> int:
    m = impl.dc()
    from dissect.cstruct.tools import stubgen as sg

    data = body["case"]
    if str(data.get("family", "")).startswith("v10-"):
        return v10_c20.replay(m, sg, data, _hooks())
    if str(data.get("family", "")).startswith("v9-"):
        return v9_c20.replay(m, sg, data, _hooks())
    print(data["definitions"])
    for k in ("options", "aliases_by_name", "aliases_by_object"):
        if data.get(k):
            print(f"{k}: {data[k]}")
    try:
        cs = v8_c20.build(m, data)  # options, definitions, aliases added through the API
    except Exception as e:  # noqa: BLE001
        print(f"the recorded definitions no longer load ({type(e).__name__}: {e})")
        return 0
    try:
        stub = sg.generate_cstruct_stub(cs)
    except Exception as e:  # noqa: BLE001
        print(f"property fails: generate_cstruct_stub raises {type(e).__name__}: {e}")
        return 1
    print(stub)
    try:
        oracle(m, cs, stub)
        v8_c20.exec_oracle(m, cs, stub, Bad)
    except Bad as e:
        print("property fails:", e)
        return 1
    print("property holds on this case")
    return 0
