"""C16 — pointers: width from configuration, dereference reads the target in place.

Pointer widths 8/16/24/32/48/64 x endianness x targets (scalars, char strings, structs, pointers to pointers) x addresses
(null, in range, beyond the stream) x compiled/interpreted.  The oracle for a dereference is parsing the target type at
that absolute offset with a separately loaded copy of the type; the Lean model (`deref`) is compared as well.
"""
from __future__ import annotations

import io
import itertools

from .. import common, defs, impl, refimpl
from ..common import A, Case, Result, mkrng, parse_sexp, run_driver, sx

PTRS = {"uint8": 1, "uint16": 2, "uint24": 3, "uint32": 4, "uint48": 6, "uint64": 8}
S = lambda n: ("sc", n)  # noqa: E731
TARGETS = {
    "uint8": S("uint8"), "int16": S("int16"), "uint32": S("uint32"), "uint24": S("uint24"), "double": S("double"), "E8": ("enum", "E8"),
    "char": S("char"), "wchar": S("wchar"), "void": S("void"),
    "struct": ("struct", [{"name": "x", "ty": S("uint8"), "bits": None}, {"name": "y", "ty": S("uint16"), "bits": None},
                          {"name": "s", "ty": ("arr", S("char"), ("fixed", 3)), "bits": None}]),
    "dyn": ("struct", [{"name": "n", "ty": S("uint8"), "bits": None}, {"name": "d", "ty": ("arr", S("uint8"), ("expr", "n & 3")), "bits": None}]),
}


def sig_F11(case):
    return case.get("in_union", False)


def run(env) -> Result:
    res = Result()
    res.rule = ("pointer widths {8,16,24,32,48,64} x {<,>} x {interpreted, compiled} x 11 target types (scalars, enum, char string, wchar, void, "
                "fixed struct, dynamic struct) plus pointer-to-pointer, pointer arrays and pointers inside unions; addresses: null, random in "
                "range, last byte, beyond the stream; checks: field width, unsigned value, dereference == parse of the target at that offset, "
                "stream position untouched, stability, null/streamless errors, arithmetic, dump. distinct = (config, target, address, data); "
                "non-trivial = non-null address")
    dc = impl.dc()
    rnd = mkrng(env["seed"], "c16")
    tier = env["tier"]
    findings = {f["id"] for f in env["findings"]}
    lines, metas = [], []

    def viol(what, data, sig=None):
        if sig and sig in findings:
            res.known_seen[sig] = res.known_seen.get(sig, 0) + 1
        elif len(res.violations) < 50:
            res.violations.append(Case("property", what, data))

    from dissect.cstruct.exceptions import NullPointerDereference

    for (pname, psz), endian, compiled in itertools.product(PTRS.items(), "<>", (False, True)):
        order = "little" if endian == "<" else "big"
        for tname, tgt in TARGETS.items():
            tree = ("struct", [{"name": "a", "ty": S("uint8"), "bits": None}, {"name": "p", "ty": ("ptr", tgt), "bits": None},
                               {"name": "pp", "ty": ("ptr", ("ptr", tgt)), "bits": None}, {"name": "arr", "ty": ("arr", ("ptr", tgt), ("fixed", 2)), "bits": None},
                               {"name": "z", "ty": S("uint8"), "bits": None}])
            try:
                L = impl.Loaded(tree, endian=endian, align=False, compiled=compiled, pointer=pname)
                Lt = impl.Loaded(("struct", [{"name": "v", "ty": tgt, "bits": None}]), endian=endian, align=False, compiled=False, pointer=pname)
            except Exception as e:  # noqa: BLE001
                viol(f"definition with {pname} pointers rejected: {type(e).__name__}: {e}", {"pointer": pname, "target": tname})
                continue
            T = L.T
            hdr = 1 + 4 * psz + 1
            cd0 = {"definition": L.text, "endian": endian, "compiled": compiled, "pointer": pname, "target": tname}
            if T.size != hdr or T.fields["p"].type.size != psz:
                viol(f"a {pname} pointer field does not occupy {psz} bytes (structure size {T.size}, expected {hdr})", cd0)
            total = 96 if psz > 1 else 200
            for _ in range(3 if tier == "quick" else 12):
                payload = bytes(rnd.choice([0, 1, 2, 0x41, 0x42, 0x7F, 0x80, 0xFF, rnd.randrange(256)]) for _ in range(total - hdr))
                maxaddr = min(total + 3, (1 << (8 * psz)) - 1)
                addrs = [0, rnd.randint(hdr, min(total - 1, maxaddr)), min(total - 1, maxaddr), rnd.randint(1, maxaddr)]
                a_p = rnd.choice(addrs)
                a_pp_slot = rnd.randint(hdr, min(total - 2 * psz - 1, maxaddr))  # where the inner pointer lives
                a_arr = [rnd.choice(addrs), rnd.choice(addrs)]
                head = bytes([7]) + a_p.to_bytes(psz, order) + a_pp_slot.to_bytes(psz, order) + b"".join(x.to_bytes(psz, order) for x in a_arr) + bytes([9])
                data = bytearray(head + payload)
                inner = rnd.choice(addrs)
                data[a_pp_slot:a_pp_slot + psz] = inner.to_bytes(psz, order)
                data = bytes(data)
                stream = io.BytesIO(data)
                try:
                    o = T(stream)
                except Exception as e:  # noqa: BLE001
                    viol(f"parsing a structure with {pname} pointers raises {type(e).__name__}: {e}", dict(cd0, data=data.hex()))
                    continue
                endpos = stream.tell()
                res.feat(f"ptr:{pname}")
                res.feat(f"target:{tname}")
                cd = dict(cd0, data=data.hex(), addr=a_p)
                if (int(o.p), int(o.pp), [int(x) for x in o.arr]) != (a_p, a_pp_slot, a_arr) or endpos != hdr:
                    viol(f"pointer values {(int(o.p), int(o.pp), [int(x) for x in o.arr])} are not the unsigned integers stored {(a_p, a_pp_slot, a_arr)}", cd)
                if o.dumps() != head:
                    viol("dumping does not write the addresses back unchanged", cd)
                if not (type(o.p + 4) is type(o.p) and int(o.p + 4) == a_p + 4 and (o.p + 4)._stream is o.p._stream and int(o.p - 1) == a_p - 1 and type(o.p - 1) is type(o.p)):
                    viol("pointer arithmetic does not yield a pointer of the same type on the same stream", cd)

                def expect(addr, ty=tgt, Tt=Lt.T):
                    """what dereferencing at addr must give: ('null',) | ('ok', canon) | ('err', cls)"""
                    if addr == 0:
                        return ("null",)
                    if ty == S("void"):
                        return ("ok", [A("void")])
                    if ty == S("char"):
                        end = data.find(b"\x00", addr)
                        return ("ok", [A("bytes"), data[addr:end]]) if end >= 0 and addr <= len(data) else ("err", "EOFError")
                    r = impl.parse(Tt, data, addr) if addr <= len(data) + 8 else ("err", "EOFError")
                    return ("ok", impl.canon(r[1].v)) if r[0] == "ok" else r

                def check(ptrobj, addr, what):
                    want = expect(addr)
                    res.count((pname, endian, compiled, tname, addr, data), addr != 0)
                    pos0 = stream.tell()
                    try:
                        v = ptrobj.dereference()
                        got = ("ok", [A("void")] if v is None else impl.canon(v))   # a void target is never read: None
                        v2 = ptrobj.dereference()
                        if v2 is not v and (v is None or impl.canon(v2) != impl.canon(v)):
                            viol(f"{what}: repeated dereference gives a different value", dict(cd, addr=addr))
                    except NullPointerDereference:
                        got = ("null",)
                    except Exception as e:  # noqa: BLE001
                        got = ("err", impl.err_class(e))
                    if stream.tell() != pos0:
                        viol(f"{what}: dereferencing moved the stream from {pos0} to {stream.tell()}", dict(cd, addr=addr))
                    ok = got == want or (got[0] == want[0] == "ok" and impl.same_val(want[1], got[1])) or (got[0] == want[0] == "err")
                    if not ok:
                        viol(f"{what} at {addr}: dereference gives {str(got)[:200]}, parsing the target there gives {str(want)[:200]}", dict(cd, addr=addr))
                    # model
                    if tname not in ("wchar",) or got[0] != "err":
                        lines.append(sx([A("deref"), L.cfg_sexp(), impl.real_ty_sexp(tgt, Lt.T.fields["v"].type, False), data, addr, 1]))
                        metas.append((dict(cd, addr=addr), got))

                check(o.p, a_p, "p")
                check(o.arr[0], a_arr[0], "arr[0]")
                # pointer to pointer: first level is a pointer stored at a_pp_slot
                try:
                    innerp = o.pp.dereference()
                    if int(innerp) != inner:
                        viol(f"pp dereferences to address {int(innerp)}, the pointer stored at {a_pp_slot} is {inner}", cd)
                    else:
                        check(innerp, inner, "*pp")
                        res.feat("pointer-to-pointer")
                except NullPointerDereference:
                    viol("pp is not null but raised NullPointerDereference", cd)
                except Exception as e:  # noqa: BLE001
                    if a_pp_slot + psz <= len(data):
                        viol(f"dereferencing pp raises {type(e).__name__}", cd)
            # a default-constructed pointer has no stream
            try:
                T().p.dereference()
                viol("a pointer without a stream could be dereferenced", cd0)
            except NullPointerDereference:
                res.feat("streamless-null")
            except Exception as e:  # noqa: BLE001
                viol(f"a pointer without a stream raises {type(e).__name__}, not NullPointerDereference", cd0)
            lines.append(sx([A("deref"), L.cfg_sexp(), impl.real_ty_sexp(tgt, Lt.T.fields["v"].type, False), b"\x01\x02\x03\x04", 2, 0]))
            metas.append((dict(cd0, addr=2, streamless=True), ("null",)))
    # pointer inside a fixed-size union (finding F11): the dereference must read the outer stream
    for pname, endian in itertools.product(("uint16", "uint32"), "<>"):
        cs = dc.cstruct(endian=endian, pointer=pname)
        cs.load("struct T { uint8 a; union { uint8 *p; uint32 raw; } u; uint8 pad[11]; };", compiled=False)
        order = "little" if endian == "<" else "big"
        data = bytes([1]) + (9).to_bytes(4, order)[: 4] if False else None
        psz = PTRS[pname]
        raw = (9).to_bytes(psz, order).ljust(4, b"\x00") if order == "little" else (9).to_bytes(psz, order) + bytes(4 - psz)
        data = bytes([1]) + raw + bytes(range(100, 111))
        st = io.BytesIO(data)
        o = cs.T(st)
        res.count(("union-ptr", pname, endian))
        try:
            v = int(o.u.p.dereference())
            if v != data[9]:
                viol(f"pointer inside a union dereferences to {v}, the byte at offset 9 of the stream is {data[9]}", {"definition": "struct T { uint8 a; union { uint8 *p; uint32 raw; } u; ... }", "in_union": True}, "F11")
        except Exception as e:  # noqa: BLE001
            viol(f"pointer inside a union: dereference raises {type(e).__name__}", {"in_union": True}, "F11")
    answers = run_driver(lines) if env["driver_ok"] else [None] * len(lines)
    for (cd, got), ans in zip(metas, answers):
        if ans is None:
            continue
        s = parse_sexp(ans)
        if got[0] == "ok":
            ok = s[0] == "ok" and impl.same_val(got[1], s[1]) and impl.same_val(got[1], s[2]) and int(s[3]) == 7
        elif got[0] == "null":
            ok = s[0] == "err" and str(s[1]) == "NullPointerDereference"
        else:
            ok = s[0] == "err" and str(s[1]) != "NullPointerDereference"
        if not ok:
            res.disagreements.append(Case("corr", f"deref: model gives {ans[:200]}, implementation gives {str(got)[:200]}", cd))
    res.sample({"pointer": "uint24", "endian": ">", "target": "struct", "note": "addresses 0 / in range / beyond the stream"})
    return res


def replay(body) -> int:
    print("replay:", body.get("what"), body.get("case"))
    return 0
