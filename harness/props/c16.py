"""C16 — pointers: width from configuration, dereference reads the target in place.

Pointer widths 8/16/24/32/48/64/128 x endianness x targets (scalars, char strings, structs, pointers to pointers) x addresses
(null, in range, beyond the stream) x compiled/interpreted.  The oracle for a dereference is parsing the target type at
that absolute offset with a separately loaded copy of the type; the Lean model (`deref`) is compared as well.

Pointer-array probe: structures whose only pointers sit in fixed-size arrays (`T *arr[3]` between scalars, `T *arr[2]`
alone, `T *arr[2][2]`, a pointer array next to an array of pointers to pointers), every width including the not struct-packable ones (uint24/uint48/uint128), both readers; every
element is dereferenced and compared with the parse of the target at its address.  Boundary-address probe: scalar
pointers, pointer-to-pointer members and pointer arrays holding the addresses at the edges of the n-bit address space
(0, 1, 2**n-1, 2**n-2, 2**(n-1) and neighbours, byte patterns; each at every position) must read as those unsigned integers and dump back
unchanged through every writing path (structure dumps()/write(), pointer.dumps(), PointerType.dumps(int), array dumps(),
a structure constructed from plain integers), for every width and endianness.

Reconfiguration histories (helpers in harness/t5_c16.py): on ONE instance the pointer type is reassigned (`cs.pointer = cs.uintN`,
all seven widths, every ordered pair of widths in the thorough tier) between declarations; before and after each switch pointers
are made (`T *x`, `T *x[2]`, `T **x` members, pointer typedefs, `cs._make_pointer`) to targets that already had a pointer made
under an earlier width and to targets that never had one.  Every structure is checked, while the width it was declared under is
in effect, with the C16 predicates: slots of exactly the configured width (offsets, size, len(struct) == consumed == dumped,
packed and aligned), values are the unsigned integers stored, the fields behind the pointers read what was stored, dereference ==
parse of the target at that offset (target type from an instance configured with that width from the start), stream untouched,
stable, null error, arithmetic, dumps of the parsed and of a constructed object give the bytes back; both readers.

Same-name targets (harness/u4_c16.py, same_name_histories): on ONE instance pointers to DISTINCT target types that carry the same
type name -- inline `struct TAG {...} *p` / `union TAG {...} *p` members reusing a tag with another layout, a top-level `struct TAG`, a
type re-registered under TAG with `add_type(replace=True)`, pointer typedefs before / after the re-registration, `*p`, `*p[2]`, `**p` --
every pointer of every parent structure is dereferenced after the history and compared (values and member names) with parsing the
DECLARED target layout (loaded under a unique name on a reference instance) at that offset; stream, stability, arithmetic, dumps.

Multi-hop chains (harness/u4_c16.py, chain_walks): a generated graph of structures holding pointers (to scalars, `char *`, `void *`,
themselves, earlier structures, pointer arrays, pointers to pointers, inline nested structures and arrays of structures with pointers,
an optional dynamic tail) and a linked memory image (shared targets, cycles, null / wild addresses); from the parsed head structure
every pointer reached is dereferenced breadth first up to 8 hops (`head.list->next->next`, `rec->name`), each hop compared with
parsing the target type at that absolute offset of the original bytes on a fresh stream, with the stream parked at random positions,
repeated dereference, arithmetic on inner pointers (`(p + k).dereference()` == parse at addr + k), attribute access through the
pointer and dumps() of the dereferenced structure; all seven widths, both byte orders, both readers, packed and aligned.

Failed dereferences other than the end of the stream (harness/v4_c16.py, failed_derefs): generated records holding pointers (`X *p`, `X *a[2]`,
`X **pp`, inside a nested structure; packed / aligned, optional dynamic tail) to targets whose read FAILS with something that is not an
EOFError - invalid UTF-16 behind `wchar *` / `wchar s[k]` / `wchar s[]` / `wchar s[n]` members (UnicodeDecodeError), array-size expressions that
divide by zero on the pointed-to bytes (`d[C / n]`, `C % n`, `C / (n - K)`, `C / (n & M)`, nested, in the 2nd element of an array of structures:
ZeroDivisionError), an undefined name in the expression (ExpressionParserError), or a user stream (BytesIO subclass / plain read-seek-tell object)
whose read() raises OSError / TimeoutError / RuntimeError / ValueError / its own exception class (or delivers nothing) once the target region is
touched.  From one stream [REC 1][REC 2][targets]: REC 1 is parsed, every pointer followed (dereference(), attribute access, str()), stream
sometimes parked elsewhere; each access must raise / return what parsing the target type (separately loaded copy) at that offset of a fresh
stream of the same kind gives, leave the stream position EXACTLY where it was whatever the outcome, and give the fault-free parse on a repeated
access; then REC 2 is parsed from the stream and must be (value, end position, what its pointers dereference to) what a fresh parse at that
offset gives.  All seven widths, both byte orders, both readers.

Pointer-arithmetic chains (harness/v6_c16.py, arith_chains): generated records `{ T *p; T *q; T *arr[2]; T **pp; }` (scalars, enum, `char`
strings, `wchar`, `void`, fixed / dynamic / NUL-terminated-member structures, a self-referential node; packed / aligned) parsed from a
BytesIO, a BytesIO subclass, a plain read/seek/tell object or directly from bytes, holding null, small, in-range, last-byte, beyond-the-data
and top-of-address-space addresses.  From every pointer of the record (null ones included), the pointer `pp` dereferences to, a pointer type
read on its own and the stream-less pointer of a default-constructed record, sequences of the operators the Pointer class defines
(+ - * // % ** << >> & ^ |, also in place; integer operands, the running pointer itself or another pointer of the record) are applied whose
intermediate results pass through 0 (`p - p`, `(p - k) + m`, `p & 0 | m`, `p * 0 + m`, `p % 1`, `p >> bits` ...), beyond the data, beyond the
address space, below zero - and back.  After every chain (and some prefixes): the result is an instance of the start pointer's class, its
address is what the operators give on plain integers, dereferencing it gives what parsing the target type (separately loaded copy) at that
absolute offset of a fresh stream of the same kind gives (value or exception class; `T **` followed one more hop), the parked stream stays
where it was, a repeated dereference agrees, dumps() writes the address, the start pointer is unchanged; a null RESULT raises
NullPointerDereference, a non-null result reached THROUGH null dereferences normally, anything computed from a stream-less pointer raises
NullPointerDereference.  All seven widths, both byte orders, both readers.

Input kinds of pointer holders (harness/v8_c16.py, buffer_inputs): generated holders of pointers - records (flat, with nested structures, with a
dynamically sized tail; packed / aligned), pointer typedefs `T *` / `T **` and arrays of pointers read on their own - to 11 target kinds
(integers of every width, floats, enum, `char` strings, `wchar`, `void`, fixed / dynamic / NUL-terminated-member structures, a structure holding
a pointer itself), parsed at offset 0 of an image LONGER than the holder (targets behind the holder's own bytes; now and then exactly as long)
that is handed in as bytes, bytearray, memoryview of bytes, memoryview of a bytearray, a memoryview slice starting inside a larger buffer, and a
BytesIO as the control, through T(x), T.read(x), T.reads(x) and cs.read(name or type, x).  Every pointer of every holder from every input kind:
its value is the unsigned integer stored, dereference == parse of the target type (separately loaded copy) at that absolute offset of a fresh
BytesIO over the bytes of the SAME buffer (value or exception class; null: NullPointerDereference), stable, `T **` and pointer members of a
dereferenced structure followed one more hop, `(p +- k)` is of p's class and dereferences to the parse at addr +- k, attribute access through
the pointer, pointer.dumps() and holder.dumps() write the addresses back, a BytesIO stays where the parse left it, the caller's buffer is not
modified; the first-hop dereferences also go to the Lean model.  All seven widths, both byte orders, both readers.

Pointer declarator spellings (harness/v9_c16.py, declarator_spellings / legacy_spellings): generated definitions whose pointer declarators - 1..3
stars, also on top of a pointer typedef, in members, arrays of pointers (`T * *p[2][K2]`), typedefs and typedef'd arrays; targets: integers, multi-word
integer names, floats, enum, `char`, `wchar`, `void`, a structure by name / `struct X` / inline - carry nothing, blanks, tabs, LF / CRLF line breaks or
comments (`/* * */`, `// ...`) in every gap: between the type and the first star, BETWEEN the stars (`char * *p`, `char*\n*p`, `char */**/* p`), between
the last star and the name, in front of the `;`.  Loaded through cs.load, cs.loadfile (a real file), two loads, `cstruct().load()` (packed / aligned) and -
one-level members only - the legacy parser.  Oracle from the generated plan: the field / typedef names are the declared names (no star, blank or comment
in a name), the type has the declared dimensions and number of pointer levels above the declared target, every level's class has the configured pointer
width, offsets and size follow from it (layout computed by the harness), values are the unsigned integers planted; dereferencing level by level walks a
planted chain slot -> cell -> ... -> target (intermediate results are pointers of the promised class holding the integer in the cell; the target is the
NUL-terminated bytes for `char`, int.from_bytes for integers, the reference parse otherwise; null and beyond-the-data at every level), stream unmoved,
repeated dereference, `p + k`, dumps, stream-less null; typedef'd pointer types read on their own with the stream at their slot.  The last-level
dereferences go to the Lean model, every text to the model of the definition parser (`parsedecls`: pointer depth, name, dimensions per declarator).

Attribute access through pointers (harness/v10_c16.py, attr_forwarding): `ptr.member`, the implicit dereference of Pointer.__getattr__, for generated
target structures / unions whose member names are legal C but unusual Python: leading underscores (`_flags`, `_reserved`, `__vftable`, `_`, `__`, `_0`,
generated `_` / `__` + word + `_`), dunder-like and protocol-probe names (`__x__`, `__copy__`, `_repr_html_`, `__wrapped__`, `__name__`, `__mro__`),
names of metaclass attributes and keywords (`read`, `reads`, `mro`, `name`, `class`, `None`) and names the pointer object has itself as an `int` /
cstruct type instance (`real`, `numerator`, `bit_length`, `type`, `size`, `dumps`, `dereference` ...; the PUBLIC ones - the pointer's private slots are left alone); members are integers, `char[k]`, links
`X *` and nested structures; packed / aligned; load, two loads or the API (cs._make_struct / add_field / add_type).  The holder is parsed from a BytesIO
(T(s), T.read(s), cs.read) or bytes / bytearray / memoryview; pointers walked: members, array elements, a pointer inside a nested structure, the inner
pointer of `X **`, `X **` itself (forwarding over two hops), a pointer typedef read on its own, results of pointer arithmetic (also from null and back
to null), links reached THROUGH forwarding, stream-less pointers; access through getattr / operator.attrgetter / __getattr__ / getattr with default /
hasattr, stream parked at random positions, cache cold or warm.  Oracle: a table pinned on the unmodified library says which names the pointer object
has itself (never dereferences - no error on null / wild pointers -; real == numerator == the address, imag == 0, bit_length() ..., `type` the target
class, `size` the configured width, dumps() the address bytes); every other name is forwarded: null / no stream -> NullPointerDereference (hasattr lets
it through), a record that does not fit -> what parsing X there raises, otherwise the member of the record at that absolute offset computed from the
image bytes by the harness's own layout, == getattr(reference parse at that offset, name) == getattr(ptr.dereference(), name); a name X does not have ->
AttributeError / hasattr False / the default; stream unmoved, second access the same, a forwarded link is a pointer to X on the same stream (a link
inside a union: known finding F11).  First-hop dereferences of the packed structures go to the Lean model.
"""
from __future__ import annotations

import io
import itertools

from .. import common, defs, impl, refimpl, s2_ptr
from .. import t5_c16 as t5
from .. import u4_c16 as u4
from .. import v4_c16 as v4
from .. import v6_c16 as v6
from .. import v8_c16 as v8
from .. import v9_c16 as v9
from .. import v10_c16 as v10
from ..common import A, Case, Result, mkrng, parse_sexp, run_driver, sx

PTRS = dict(s2_ptr.ALL_PTRS)   # uint8 .. uint128, packable and not
S = lambda n: ("sc", n)  # noqa: E731
TARGETS = {
    "uint8": S("uint8"), "int16": S("int16"), "uint32": S("uint32"), "uint24": S("uint24"), "double": S("double"), "E8": ("enum", "E8"),
    "char": S("char"), "wchar": S("wchar"), "void": S("void"),
    "struct": ("struct", [{"name": "x", "ty": S("uint8"), "bits": None}, {"name": "y", "ty": S("uint16"), "bits": None},
                          {"name": "s", "ty": ("arr", S("char"), ("fixed", 3)), "bits": None}]),
    "dyn": ("struct", [{"name": "n", "ty": S("uint8"), "bits": None}, {"name": "d", "ty": ("arr", S("uint8"), ("expr", "n & 3")), "bits": None}]),
}


def sig_F11(case):
    return case.get("in_union", False)


def run(env) -> Result:
    res = Result()
    res.rule = ("pointer widths {8,16,24,32,48,64,128} x {<,>} x {interpreted, compiled} x 11 target types (scalars, enum, char string, wchar, void, "
                "fixed struct, dynamic struct) plus pointer-to-pointer, pointer arrays and pointers inside unions; structures whose only pointers "
                "are in arrays (4 shapes, every element dereferenced); addresses: null, random in range, last byte, beyond the stream, and the "
                "edges of the n-bit address space (0, 1, 2**n-1, 2**n-2, 2**(n-1)+-1, byte patterns); checks: field width, unsigned value, "
                "dereference == parse of the target at that offset, stream position untouched, stability, null/streamless errors, arithmetic, "
                "dump back unchanged through 10 writing paths. Histories on one instance: cs.pointer reassigned (all widths) between declarations, "
                "pointers to targets that had / never had a pointer under an earlier width, every structure checked under the width it was "
                "declared with (layout packed and aligned, values, fields behind the pointers, dereference, dumps, len == consumed == dumped). "
                "Same-name targets: distinct target types sharing a type name on one instance (inline tags reused with other layouts, add_type(replace=True), "
                "pointer typedefs), every pointer dereferenced against the declared layout. Multi-hop chains: generated graphs of structures holding pointers "
                "and linked memory images, every pointer reached from the head dereferenced up to 8 hops against a fresh parse at that absolute offset, "
                "stream parked at random positions, arithmetic on inner pointers, attribute access, dumps of dereferenced structures. "
                "Failed dereferences other than EOF: generated records with pointers (members, arrays, pointer-to-pointer, nested; packed/aligned) to targets whose read raises "
                "UnicodeDecodeError (invalid UTF-16 in wchar members), ZeroDivisionError / ExpressionParserError (array-size expression on the pointed-to bytes) or the exception of a "
                "user stream whose read() fails inside the target (OSError, TimeoutError, RuntimeError, ValueError, own class; BytesIO subclass and plain read/seek/tell object): outcome == "
                "parsing the target at that offset of a fresh stream of the same kind, stream position unchanged after every access (dereference(), attribute, str()), repeated access == "
                "fault-free parse, and the next record parsed from the same stream == fresh parse at that offset (value, end, its pointers); 7 widths x {<,>} x {interpreted, compiled}. "
                "Pointer-arithmetic chains: generated records with pointers (members, array, pointer-to-pointer; 9 target kinds; packed/aligned; BytesIO, BytesIO subclass, plain object, bytes) holding "
                "null / small / in-range / beyond-the-data / top addresses; from every pointer (null ones, the pointer behind pp, a pointer type read on its own, a stream-less one) chains of 1-7 "
                "operators out of + - * // % ** << >> & ^ | (also in place; int or pointer operands) whose intermediate results pass through 0, beyond the data / address space and below zero and back: "
                "result is of the start pointer's class, address == the operators on plain integers, dereference == parse of the target at that offset of a fresh stream (null result: "
                "NullPointerDereference; non-null result reached through null: normal; no stream: NullPointerDereference), stream position unchanged, stable, dumps() == address, start pointer "
                "unchanged; 7 widths x {<,>} x {interpreted, compiled}. "
                "Input kinds of pointer holders: generated holders (flat / nested / dynamically sized records, packed/aligned; pointer typedefs T*, T**; arrays of pointers on their own; "
                "11 target kinds) at offset 0 of an image longer than the holder, handed in as bytes, bytearray, memoryview(bytes), memoryview(bytearray), a memoryview slice inside a larger "
                "buffer and a BytesIO (control) through T(x), T.read(x), T.reads(x), cs.read(name, x): every pointer's value == the unsigned integer stored, dereference == parse of the target "
                "at that absolute offset of the same buffer (value or exception class), stable, T** / pointer members of dereferenced structures followed, (p +- k) of p's class and "
                "dereferencing to the parse at addr +- k, attribute access, pointer and holder dumps write the addresses back, BytesIO not moved, caller's buffer not modified, model "
                "compared on the first hop; 7 widths x {<,>} x {interpreted, compiled}. "
                "Pointer declarator spellings: generated records and typedefs whose pointer declarators (1..3 stars on scalars, multi-word integer names, enum, char, wchar, void, a structure by name / "
                "`struct X` / inline; on top of pointer typedefs; members, arrays [n] / [n][m], typedefs, typedef'd arrays) have nothing / blanks / tabs / LF / CRLF / block and line comments in every gap - "
                "before, BETWEEN and behind the stars, before the `;` -, loaded through load, loadfile, two loads, the chained load (packed/aligned) and, for one-level members, the legacy parser: field and "
                "typedef names are the declared ones (no star in a name), dimensions and the number of pointer levels are the declared ones, every level's class is pointer-width wide, offsets and "
                "record size follow (independent layout), values == the unsigned integers planted, dereferencing level by level follows the planted chain (intermediate pointers of the promised class "
                "holding the cell's integer; the target: NUL-terminated bytes for char, int.from_bytes for integers, the reference parse otherwise; null / beyond-the-data at every level), stream "
                "unmoved, stable, p + k, dumps, stream-less null; the definition parser's model (parsedecls) compared per declarator; 7 widths x {<,>} x {interpreted, compiled}. "
                "Attribute access through pointers (ptr.member, Pointer.__getattr__): generated target structures / unions whose member names are leading-underscore names (_flags, __vftable, _, __, _0 ...), "
                "dunder-like / protocol-probe names (__x__, __copy__, _repr_html_, __name__, __mro__), metaclass-attribute names and keywords (read, reads, mro, name, class, None) and names of the pointer "
                "object's own public int / type attributes (real, numerator, bit_length, type, size, dumps, dereference ...); members: integers, char[k], links X *, nested structures; packed/aligned; load / two loads / "
                "API construction; holder from BytesIO (T(s), T.read, cs.read) or bytes / bytearray / memoryview; pointers: members, array elements, inside a nested structure, inner pointer of X **, X ** itself "
                "(two hops), a pointer typedef read on its own, arithmetic results (through null as well), links reached through forwarding, stream-less; access by getattr / attrgetter / __getattr__ / getattr "
                "default / hasattr: own names (pinned table) never dereference and give the address-derived values (real == numerator == address, imag == 0, bit_length(), type, size, dumps()); every other name: "
                "null / no stream -> NullPointerDereference, record beyond the data -> the parse's exception, else == the member computed from the image bytes (independent layout) == getattr(reference parse at "
                "that offset, name) == getattr(ptr.dereference(), name), missing name -> AttributeError / False / default; stream unmoved, stable, forwarded link is a pointer to X on the same stream; model "
                "compared on the first hop; 7 widths x {<,>} x {interpreted, compiled}. "
                "distinct = (config, target, address, data); non-trivial = non-null address (failed-dereference family: the access fails with something other than EOFError)")
    dc = impl.dc()
    rnd = mkrng(env["seed"], "c16")
    tier = env["tier"]
    findings = {f["id"] for f in env["findings"]}
    lines, metas = [], []

    def viol(what, data, sig=None):
        if sig and sig in findings:
            res.known_seen[sig] = res.known_seen.get(sig, 0) + 1
        elif len(res.violations) < 50:
            res.violations.append(Case("property", what, data))

    from dissect.cstruct.exceptions import NullPointerDereference


    class Ctx:
        """one parsed stream: the oracle for a dereference and the dereference predicate"""

        def __init__(self, L, Lt, tgt, tname, stream, data, cd):
            self.L, self.Lt, self.tgt, self.tname, self.stream, self.data, self.cd = L, Lt, tgt, tname, stream, data, cd

        def expect(self, addr):
            """what dereferencing at addr must give: ('null',) | ('ok', canon) | ('err', cls)"""
            ty, Tt, data = self.tgt, self.Lt.T, self.data
            if addr == 0:
                return ("null",)
            if ty == S("void"):
                return ("ok", [A("void")])
            if ty == S("char"):
                end = data.find(b"\x00", addr) if addr <= len(data) else -1
                return ("ok", [A("bytes"), data[addr:end]]) if end >= 0 and addr <= len(data) else ("err", "EOFError")
            r = impl.parse(Tt, data, addr) if addr <= len(data) + 8 else ("err", "EOFError")
            return ("ok", impl.canon(r[1].v)) if r[0] == "ok" else r

        def check(self, ptrobj, addr, what):
            L, stream, data, cd = self.L, self.stream, self.data, self.cd
            want = self.expect(addr)
            res.count((L.pointer, L.endian, L.compiled, self.tname, addr, data), addr != 0)
            pos0 = stream.tell()
            try:
                v = ptrobj.dereference()
                got = ("ok", [A("void")] if v is None else impl.canon(v))   # a void target is never read: None
                v2 = ptrobj.dereference()
                if v2 is not v and (v is None or impl.canon(v2) != impl.canon(v)):
                    viol(f"{what}: repeated dereference gives a different value", dict(cd, addr=addr))
            except NullPointerDereference:
                got = ("null",)
            except Exception as e:  # noqa: BLE001
                got = ("err", impl.err_class(e))
            if stream.tell() != pos0:
                viol(f"{what}: dereferencing moved the stream from {pos0} to {stream.tell()}", dict(cd, addr=addr))
            ok = got == want or (got[0] == want[0] == "ok" and impl.same_val(want[1], got[1])) or (got[0] == want[0] == "err")
            if not ok:
                viol(f"{what} at {addr}: dereference gives {str(got)[:200]}, parsing the target there gives {str(want)[:200]}", dict(cd, addr=addr))
            # model
            if self.tname not in ("wchar",) or got[0] != "err":
                lines.append(sx([A("deref"), L.cfg_sexp(), impl.real_ty_sexp(self.tgt, self.Lt.T.fields["v"].type, False), data, addr, 1]))
                metas.append((dict(cd, addr=addr), got))
            return got

    for (pname, psz), endian, compiled in itertools.product(PTRS.items(), "<>", (False, True)):
        order = "little" if endian == "<" else "big"
        for tname, tgt in TARGETS.items():
            tree = ("struct", [{"name": "a", "ty": S("uint8"), "bits": None}, {"name": "p", "ty": ("ptr", tgt), "bits": None},
                               {"name": "pp", "ty": ("ptr", ("ptr", tgt)), "bits": None}, {"name": "arr", "ty": ("arr", ("ptr", tgt), ("fixed", 2)), "bits": None},
                               {"name": "z", "ty": S("uint8"), "bits": None}])
            try:
                L = impl.Loaded(tree, endian=endian, align=False, compiled=compiled, pointer=pname)
                Lt = impl.Loaded(("struct", [{"name": "v", "ty": tgt, "bits": None}]), endian=endian, align=False, compiled=False, pointer=pname)
            except Exception as e:  # noqa: BLE001
                viol(f"definition with {pname} pointers rejected: {type(e).__name__}: {e}", {"pointer": pname, "target": tname})
                continue
            T = L.T
            hdr = 1 + 4 * psz + 1
            cd0 = {"definition": L.text, "endian": endian, "compiled": compiled, "pointer": pname, "target": tname}
            if T.size != hdr or T.fields["p"].type.size != psz:
                viol(f"a {pname} pointer field does not occupy {psz} bytes (structure size {T.size}, expected {hdr})", cd0)
            total = 200 if psz == 1 else 96 if psz <= 8 else 160
            for _ in range(3 if tier == "quick" else 12):
                payload = bytes(rnd.choice([0, 1, 2, 0x41, 0x42, 0x7F, 0x80, 0xFF, rnd.randrange(256)]) for _ in range(total - hdr))
                maxaddr = min(total + 3, (1 << (8 * psz)) - 1)
                addrs = [0, rnd.randint(hdr, min(total - 1, maxaddr)), min(total - 1, maxaddr), rnd.randint(1, maxaddr)]
                a_p = rnd.choice(addrs)
                a_pp_slot = rnd.randint(hdr, min(total - 2 * psz - 1, maxaddr))  # where the inner pointer lives
                a_arr = [rnd.choice(addrs), rnd.choice(addrs)]
                head = bytes([7]) + a_p.to_bytes(psz, order) + a_pp_slot.to_bytes(psz, order) + b"".join(x.to_bytes(psz, order) for x in a_arr) + bytes([9])
                data = bytearray(head + payload)
                inner = rnd.choice(addrs)
                data[a_pp_slot:a_pp_slot + psz] = inner.to_bytes(psz, order)
                data = bytes(data)
                stream = io.BytesIO(data)
                try:
                    o = T(stream)
                except Exception as e:  # noqa: BLE001
                    viol(f"parsing a structure with {pname} pointers raises {type(e).__name__}: {e}", dict(cd0, data=data.hex()))
                    continue
                endpos = stream.tell()
                res.feat(f"ptr:{pname}")
                res.feat(f"target:{tname}")
                cd = dict(cd0, data=data.hex(), addr=a_p)
                if (int(o.p), int(o.pp), [int(x) for x in o.arr]) != (a_p, a_pp_slot, a_arr) or endpos != hdr:
                    viol(f"pointer values {(int(o.p), int(o.pp), [int(x) for x in o.arr])} are not the unsigned integers stored {(a_p, a_pp_slot, a_arr)}", cd)
                if o.dumps() != head:
                    viol("dumping does not write the addresses back unchanged", cd)
                if not (type(o.p + 4) is type(o.p) and int(o.p + 4) == a_p + 4 and (o.p + 4)._stream is o.p._stream and int(o.p - 1) == a_p - 1 and type(o.p - 1) is type(o.p)):
                    viol("pointer arithmetic does not yield a pointer of the same type on the same stream", cd)

                ctx = Ctx(L, Lt, tgt, tname, stream, data, cd)
                check = ctx.check

                check(o.p, a_p, "p")
                check(o.arr[0], a_arr[0], "arr[0]")
                check(o.arr[1], a_arr[1], "arr[1]")
                # pointer to pointer: first level is a pointer stored at a_pp_slot
                try:
                    innerp = o.pp.dereference()
                    if int(innerp) != inner:
                        viol(f"pp dereferences to address {int(innerp)}, the pointer stored at {a_pp_slot} is {inner}", cd)
                    else:
                        check(innerp, inner, "*pp")
                        res.feat("pointer-to-pointer")
                except NullPointerDereference:
                    viol("pp is not null but raised NullPointerDereference", cd)
                except Exception as e:  # noqa: BLE001
                    if a_pp_slot + psz <= len(data):
                        viol(f"dereferencing pp raises {type(e).__name__}", cd)
            # a default-constructed pointer has no stream
            try:
                T().p.dereference()
                viol("a pointer without a stream could be dereferenced", cd0)
            except NullPointerDereference:
                res.feat("streamless-null")
            except Exception as e:  # noqa: BLE001
                viol(f"a pointer without a stream raises {type(e).__name__}, not NullPointerDereference", cd0)
            lines.append(sx([A("deref"), L.cfg_sexp(), impl.real_ty_sexp(tgt, Lt.T.fields["v"].type, False), b"\x01\x02\x03\x04", 2, 0]))
            metas.append((dict(cd0, addr=2, streamless=True), ("null",)))
    # ---- pointer arrays without scalar pointers: every element dereferenced, every width, both readers
    F = lambda n, ty: {"name": n, "ty": ty, "bits": None}  # noqa: E731
    shapes = {
        "arr[3] between scalars": (lambda t: [F("a", S("uint8")), F("arr", ("arr", ("ptr", t), ("fixed", 3))), F("z", S("uint8"))], 1, [3]),
        "arr[2] alone": (lambda t: [F("arr", ("arr", ("ptr", t), ("fixed", 2)))], 0, [2]),
        "arr[2][2] then scalar": (lambda t: [F("arr", ("arr", ("arr", ("ptr", t), ("fixed", 2)), ("fixed", 2))), F("z", S("uint8"))], 0, [2, 2]),
        "two arrays": (lambda t: [F("n", S("uint16")), F("arr", ("arr", ("ptr", t), ("fixed", 2))), F("arr2", ("arr", ("ptr", ("ptr", t)), ("fixed", 1)))], 2, [2]),
    }
    for (pname, psz), endian, compiled in itertools.product(PTRS.items(), "<>", (False, True)):
        order = "little" if endian == "<" else "big"
        for (shname, (mk, lead, dims)), (tname, tgt) in itertools.product(shapes.items(), TARGETS.items()):
            if tier == "quick" and rnd.random() < 0.5:
                continue
            tree = ("struct", mk(tgt))
            try:
                L = impl.Loaded(tree, endian=endian, align=False, compiled=compiled, pointer=pname)
                Lt = impl.Loaded(("struct", [{"name": "v", "ty": tgt, "bits": None}]), endian=endian, align=False, compiled=False, pointer=pname)
            except Exception as e:  # noqa: BLE001
                viol(f"definition with arrays of {pname} pointers rejected: {type(e).__name__}: {e}", {"pointer": pname, "target": tname, "shape": shname})
                continue
            T = L.T
            slots = s2_ptr.pointer_slots(T)
            nel = dims[0] * (dims[1] if len(dims) > 1 else 1)
            cd0 = {"definition": L.text, "endian": endian, "compiled": compiled, "pointer": pname, "target": tname, "shape": shname,
                   "compiled_flag": bool(T.__compiled__)}
            if T.size is None or slots[:nel] != [lead + i * psz for i in range(nel)] or T.fields["arr"].type.size != nel * psz:
                viol(f"an array of {nel} {pname} pointers does not occupy {nel} x {psz} bytes at offset {lead} (slots {slots}, structure size {T.size})", cd0)
                continue
            total = 80 if psz > 1 else 200
            for _ in range(2 if tier == "quick" else 8):
                data = bytearray(bytes(rnd.choice([0, 1, 2, 0x41, 0x42, 0x7F, 0x80, 0xFF, rnd.randrange(256)]) for _ in range(total)))
                top = (1 << (8 * psz)) - 1
                addrs = {}
                for off in slots:
                    a = rnd.choice([0, rnd.randint(1, min(total - 1, top)), rnd.randint(T.size, min(total - 1, top)), rnd.randint(T.size, min(total - 1, top)),
                                    min(total - 1, top), min(total + rnd.randint(0, 5), top)])
                    addrs[off] = a
                    data[off:off + psz] = a.to_bytes(psz, order)
                if shname == "two arrays":
                    # arr2[0] points at a slot holding another pointer
                    slot = rnd.randint(T.size, min(total - psz - 1, top))
                    inner = rnd.choice([0, rnd.randint(1, min(total - 1, top))])
                    data[slots[2]:slots[2] + psz] = slot.to_bytes(psz, order)
                    data[slot:slot + psz] = inner.to_bytes(psz, order)
                    addrs[slots[2]] = slot
                data = bytes(data)
                stream = io.BytesIO(data)
                try:
                    o = T(stream)
                except Exception as e:  # noqa: BLE001
                    viol(f"parsing a structure with an array of {pname} pointers raises {type(e).__name__}: {e}", dict(cd0, data=data.hex()))
                    continue
                res.feat(f"ptr-array:{pname}")
                res.feat(f"ptr-array-shape:{shname}")
                res.feat(f"ptr-array:compiled-flag:{bool(T.__compiled__)}")
                cd = dict(cd0, data=data.hex())
                flat = [x for row in o.arr for x in row] if len(dims) > 1 else list(o.arr)
                want_addrs = [addrs[off] for off in slots[:nel]]
                if [int(x) for x in flat] != want_addrs or stream.tell() != T.size:
                    viol(f"array elements {[int(x) for x in flat]} are not the unsigned integers stored {want_addrs} (stream at {stream.tell()}, size {T.size})", cd)
                    continue
                if o.dumps() != data[:T.size]:
                    viol("dumping a structure with a pointer array does not write the addresses back unchanged", cd)
                ctx = Ctx(L, Lt, tgt, tname, stream, data, cd)
                for i, (x, a) in enumerate(zip(flat, want_addrs)):
                    ctx.check(x, a, f"arr element {i}")
                    if a:
                        y = x + 1
                        if type(y) is not type(x) or int(y) != a + 1 or y._stream is not x._stream:
                            viol(f"arr element {i}: pointer arithmetic does not yield a pointer of the same type on the same stream", dict(cd, addr=a))
                        elif a + 1 < total:
                            ctx.check(y, a + 1, f"arr element {i} + 1")
                if shname == "two arrays":
                    try:
                        ip = o.arr2[0].dereference()
                        if int(ip) != inner:
                            viol(f"arr2[0] dereferences to address {int(ip)}, the pointer stored at {slot} is {inner}", cd)
                        else:
                            ctx.check(ip, inner, "*arr2[0]")
                            res.feat("pointer-to-pointer-in-array")
                    except Exception as e:  # noqa: BLE001
                        viol(f"dereferencing arr2[0] (address {slot}, inside the stream) raises {type(e).__name__}", cd)
    # ---- boundary addresses: read as the unsigned integer stored and dump back unchanged, through every writing path
    tgt = S("uint8")
    for (pname, psz), endian, compiled in itertools.product(PTRS.items(), "<>", (False, True)):
        order = "little" if endian == "<" else "big"
        tree = ("struct", [F("a", S("uint8")), F("p", ("ptr", tgt)), F("pp", ("ptr", ("ptr", tgt))), F("arr", ("arr", ("ptr", tgt), ("fixed", 3))),
                           F("z", S("uint8"))])
        try:
            L = impl.Loaded(tree, endian=endian, align=False, compiled=compiled, pointer=pname)
            Lt = impl.Loaded(("struct", [{"name": "v", "ty": tgt, "bits": None}]), endian=endian, align=False, compiled=False, pointer=pname)
        except Exception as e:  # noqa: BLE001
            viol(f"definition with {pname} pointers rejected: {type(e).__name__}: {e}", {"pointer": pname})
            continue
        T = L.T
        PT, AT = T.fields["p"].type, T.fields["arr"].type
        bnd = s2_ptr.boundary_addresses(psz)
        top = (1 << (8 * psz)) - 1
        # every boundary address at every position (p, pp, each array element), then random addresses
        n = len(bnd)
        combos = [[bnd[(k + j) % n] for j in range(5)] for k in range(n)]
        combos += [[top] * 5, [rnd.choice(bnd) for _ in range(5)]]
        combos += [[rnd.randint(0, top) for _ in range(5)] for _ in range(2 if tier == "quick" else 12)]
        for combo in combos:
            a_p, a_pp, a_arr = combo[0], combo[1], combo[2:5]
            enc = lambda x: x.to_bytes(psz, order)  # noqa: E731
            head = bytes([7]) + enc(a_p) + enc(a_pp) + b"".join(enc(x) for x in a_arr) + bytes([9])
            data = head + bytes(rnd.randrange(256) for _ in range(300 - len(head)))
            cd = {"definition": L.text, "endian": endian, "compiled": compiled, "pointer": pname, "data": head.hex(),
                  "addresses": {"p": a_p, "pp": a_pp, "arr": a_arr}}
            stream = io.BytesIO(data)
            try:
                o = T(stream)
            except Exception as e:  # noqa: BLE001
                viol(f"parsing {pname} pointers at the edge of the address space raises {type(e).__name__}: {e}", cd)
                continue
            for a in [a_p, a_pp, *a_arr]:
                res.count(("boundary", pname, endian, compiled, a), a != 0)
                res.feat("boundary-address:" + ("top" if a == top else "null" if a == 0 else "top-1" if a == top - 1 else "msb" if a == (top + 1) >> 1 else "other"))
            got = (int(o.p), int(o.pp), [int(x) for x in o.arr])
            if got != (a_p, a_pp, a_arr) or stream.tell() != len(head):
                viol(f"pointer values {got} are not the unsigned integers stored {(a_p, a_pp, a_arr)}", cd)
                continue
            out = io.BytesIO()
            paths = [("structure.dumps()", lambda: o.dumps(), head),
                     ("structure.write(stream)", lambda: (o.write(out), out.getvalue())[1], head),
                     ("pointer.dumps() of member p", lambda: o.p.dumps(), enc(a_p)),
                     ("pointer.dumps() of member pp", lambda: o.pp.dumps(), enc(a_pp)),
                     ("PointerType.dumps(int)", lambda: PT.dumps(a_p), enc(a_p)),
                     ("array.dumps() of member arr", lambda: o.arr.dumps(), b"".join(enc(x) for x in a_arr)),
                     ("ArrayType.dumps(list of int)", lambda: AT.dumps(list(a_arr)), b"".join(enc(x) for x in a_arr)),
                     ("pointer.dumps() of element arr[2]", lambda: o.arr[2].dumps(), enc(a_arr[2])),
                     ("dumps() of a structure constructed from integers", lambda: T(a=7, p=a_p, pp=a_pp, arr=list(a_arr), z=9).dumps(), head),
                     ("(p + 0).dumps()", lambda: (o.p + 0).dumps(), enc(a_p))]
            for what, fn, want in paths:
                res.feat("dump-path:" + what)
                try:
                    b = fn()
                except Exception as e:  # noqa: BLE001
                    viol(f"{what}: dumping {pname} pointers at the edge of the address space raises {type(e).__name__}: {e}", dict(cd, path=what))
                    continue
                if b != want:
                    viol(f"{what} does not write the addresses back unchanged: wrote {b.hex()}, the addresses {(a_p, a_pp, a_arr)} were read from {want.hex()}",
                         dict(cd, path=what, wrote=b.hex(), expected=want.hex()))
            # and what they dereference to (the whole 8-bit address space lies inside the stream)
            ctx = Ctx(L, Lt, tgt, "uint8", stream, data, cd)
            ctx.check(o.p, a_p, "p")
            for j, x in enumerate(o.arr):
                ctx.check(x, a_arr[j], f"arr[{j}]")
    # ---- reconfiguration histories: cs.pointer is reassigned between declarations on one instance (own PRNG stream, so that the
    # probes above stay what they were)
    rnd5 = mkrng(env["seed"], "c16-reconfig")
    for widths in t5.widths_histories(rnd5, tier):
        for endian in "<>":
            res.feat("reconfig:history")
            res.feat(f"reconfig:history-phases:{min(len(widths), 8)}")
            t5.run_history(dc, widths, endian, rnd5, tier, res, viol)
    # ---- distinct target types that share a type name on one instance; multi-hop dereference chains (own PRNG streams)
    u4.same_name_histories(dc, env, res, viol, mkrng(env["seed"], "c16-same-name"))
    u4.chain_walks(dc, env, res, viol, mkrng(env["seed"], "c16-chains"))
    # ---- dereferences that fail with something other than the end of the stream: position restored, next record unaffected (own PRNG stream)
    v4.failed_derefs(dc, env, res, viol, mkrng(env["seed"], "c16-failed-deref"))
    # ---- pointer-arithmetic chains through null / beyond the data / below zero and back: same type, same stream (own PRNG stream)
    v6.arith_chains(dc, env, res, viol, mkrng(env["seed"], "c16-arith-chains"))
    # ---- input kinds of pointer holders: bytes / bytearray / memoryview (whole, slice) / BytesIO x T(x), T.read, T.reads, cs.read; targets
    # behind the holder's own bytes (own PRNG stream)
    v8.buffer_inputs(dc, env, res, viol, mkrng(env["seed"], "c16-buffer-inputs"), lines, metas)
    # ---- pointer declarator spellings: blanks / line breaks / comments before, between and behind the stars of 1..3-level declarators in
    # members, arrays and typedefs, through load / loadfile / two loads / chained load; one-level members through the legacy parser (own PRNG streams)
    v9.declarator_spellings(dc, env, res, viol, mkrng(env["seed"], "c16-declarator-spellings"), lines, metas)
    v9.legacy_spellings(dc, env, res, viol, mkrng(env["seed"], "c16-legacy-spellings"))
    # ---- attribute access through pointers: ptr.member for member names with leading underscores, dunder-like names, names of the pointer
    # object's own attributes; every kind of pointer source, five access conventions (own PRNG stream)
    v10.attr_forwarding(dc, env, res, viol, mkrng(env["seed"], "c16-attr-forwarding"), lines, metas)
    # pointer inside a fixed-size union (finding F11): the dereference must read the outer stream
    for pname, endian in itertools.product(("uint16", "uint32"), "<>"):
        cs = dc.cstruct(endian=endian, pointer=pname)
        cs.load("struct T { uint8 a; union { uint8 *p; uint32 raw; } u; uint8 pad[11]; };", compiled=False)
        order = "little" if endian == "<" else "big"
        data = bytes([1]) + (9).to_bytes(4, order)[: 4] if False else None
        psz = PTRS[pname]
        raw = (9).to_bytes(psz, order).ljust(4, b"\x00") if order == "little" else (9).to_bytes(psz, order) + bytes(4 - psz)
        data = bytes([1]) + raw + bytes(range(100, 111))
        st = io.BytesIO(data)
        o = cs.T(st)
        res.count(("union-ptr", pname, endian))
        try:
            v = int(o.u.p.dereference())
            if v != data[9]:
                viol(f"pointer inside a union dereferences to {v}, the byte at offset 9 of the stream is {data[9]}", {"definition": "struct T { uint8 a; union { uint8 *p; uint32 raw; } u; ... }", "in_union": True}, "F11")
        except Exception as e:  # noqa: BLE001
            viol(f"pointer inside a union: dereference raises {type(e).__name__}", {"in_union": True}, "F11")
    answers = run_driver(lines) if env["driver_ok"] else [None] * len(lines)
    for (cd, got), ans in zip(metas, answers):
        if ans is None:
            continue
        s = parse_sexp(ans)
        if got[0] == "ok":
            ok = s[0] == "ok" and impl.same_val(got[1], s[1]) and impl.same_val(got[1], s[2]) and int(s[3]) == 7
        elif got[0] == "null":
            ok = s[0] == "err" and str(s[1]) == "NullPointerDereference"
        else:
            ok = s[0] == "err" and str(s[1]) != "NullPointerDereference"
        if not ok:
            res.disagreements.append(Case("corr", f"deref: model gives {ans[:200]}, implementation gives {str(got)[:200]}", cd))
    res.sample({"pointer": "uint24", "endian": ">", "target": "struct", "note": "addresses 0 / in range / beyond the stream"})
    return res


def replay(body) -> int:
    print("replay:", body.get("what"), body.get("case"))
    return 0
