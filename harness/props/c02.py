"""C02 — byte fidelity: parse-then-dump reproduces every data-carrying input byte.

The data mask (which bits of the consumed input belong to a field) comes from the independent reference parser
(refimpl), not from the library or the model.  Inputs are unbiased random bytes: padding is *not* zero in the input.
"""
from __future__ import annotations

import itertools

from .. import defs, impl, refimpl
from ..common import Result, mkrng
from ..structprops import Engine, load, real_parse, rand_bytes, has_eof, has, has_float


def has_leb(t):
    return has(t, lambda x, d, u: x[0] == "sc" and x[1] in ("uleb128", "ileb128"))


def run(env) -> Result:
    res = Result()
    res.rule = ("seeded random definition trees x {<,>} x {packed, aligned} x {interpreted, compiled}; inputs: uniformly random bytes (padding "
                "and unassigned bit-field bits are random, not zero); for definitions with LEB128 members the input is first made canonical by "
                "one dump and its non-data bits are then re-randomised. Predicate: len(dumps(parse(x))) == consumed and dumps == x & mask with "
                "the mask from the independent reference parser. distinct = (definition, config, input); non-trivial = consumed >= 2 bytes and "
                ">= 2 fields")
    eng = Engine(env, res, "C02")
    rnd = mkrng(env["seed"], "c02")
    tier = env["tier"]
    for _ in range(300 if tier == "quick" else 12000):
        tree = defs.Gen(rnd, max_depth=rnd.choice([1, 2, 2, 3])).struct()
        for endian, align, compiled in itertools.product("<>", (False, True), (False, True)):
            if rnd.random() < (0.6 if tier == "quick" else 0.3):
                continue
            L, err = load(tree, endian=endian, align=align, compiled=compiled, pointer=rnd.choice(["uint64", "uint32", "uint16"]))
            if L is None:
                continue
            T = L.T
            cfg = refimpl.Cfg(endian, align, L.pointer, impl.CONSTS)
            sigs = eng.sigs(L)
            size = T.size if T.size is not None else 56
            for _i in range(3):
                data = bytes(rnd.randrange(256) for _ in range(size + rnd.choice([0, 6, 17]))) if rnd.random() < 0.7 else rand_bytes(rnd, size + 9)
                want, obj = real_parse(T, data)
                if want[0] != "ok" or impl.contains_nan(want[1]):
                    res.feat("input-rejected-or-NaN")
                    continue
                try:
                    rv, rend, rmask = refimpl.parse(tree, data, 0, cfg)
                except (refimpl.Short, refimpl.Bad):
                    eng.report("the library parses an input the reference parser rejects", eng.case_data(L, data=data), sigs)
                    continue
                if has_leb(tree):
                    d0 = impl.dump(T, obj)
                    if d0[0] != "ok":
                        continue
                    # canonical encodings, then random garbage in every non-data bit
                    try:
                        _, e0, m0 = refimpl.parse(tree, d0[1], 0, cfg)
                    except (refimpl.Short, refimpl.Bad):
                        continue
                    data = bytes((b & m) | (rnd.randrange(256) & ~m & 0xFF) for b, m in zip(d0[1], m0)) + b"\x00" * 4
                    if has_eof(tree):
                        data = data[:-4]
                    want, obj = real_parse(T, data)
                    if want[0] != "ok":
                        continue
                    try:
                        rv, rend, rmask = refimpl.parse(tree, data, 0, cfg)
                    except (refimpl.Short, refimpl.Bad):
                        continue
                    res.feat("leb-canonicalised-input")
                consumed = want[2]
                res.count((L.text, endian, align, compiled, data[:consumed]), consumed >= 2 and len(tree[1]) >= 2)
                for k, v in defs.features(tree).items():
                    res.feat(k, v)
                cd = eng.case_data(L, data=data)
                if rend != consumed:
                    eng.report(f"parsing consumed {consumed} bytes, the reference says the value occupies {rend}", cd, sigs)
                    continue
                d = impl.dump(T, obj)
                if d[0] != "ok":
                    eng.report(f"a parsed value cannot be dumped: {d[1]}", cd, sigs)
                    continue
                padded = data[:consumed] + bytes(max(0, consumed - len(data)))
                exp = bytes(b & m for b, m in zip(padded, rmask))
                if len(d[1]) != consumed:
                    eng.report(f"dumps produced {len(d[1])} bytes, parsing consumed {consumed}", cd, sigs)
                elif d[1] != exp:
                    diff = [i for i in range(consumed) if d[1][i] != exp[i]]
                    eng.report(f"dumps differs from the input at data-carrying / must-be-zero positions {diff[:12]}: dumps {d[1].hex()} expected {exp.hex()}", cd, sigs)
                if any(m not in (0, 0xFF) for m in rmask):
                    res.feat("partial-byte-mask (bit-fields)")
                if any(m == 0 for m in rmask):
                    res.feat("padding-bytes-present")
                if "F23" not in sigs:
                    eng.model_write(L, want[1], d, "dumps of a parsed value", sigs)
        if len(eng.lines) > 4000:
            eng.flush()
    eng.flush()
    return res


def replay(body) -> int:
    print("replay:", body.get("what"))
    print(body.get("case", {}).get("repro"), body.get("case", {}).get("data"))
    return 0
