"""C02 — byte fidelity: parse-then-dump reproduces every data-carrying input byte.

The data mask (which bits of the consumed input belong to a field) comes from the independent reference parser
(refimpl), not from the library or the model.  Inputs are unbiased random bytes: padding is *not* zero in the input.

Added probe families (s1):
  * LEB128 boundary inputs: standalone uleb128/ileb128 on every canonical 1- and 2-byte encoding and on longer encodings
    over the boundary groups 0x00/0x01/0x3f/0x40/0x41/0x7e/0x7f (s1_leb.encodings); inside generated structures the LEB128
    members of the input are rewritten to such encodings (s1_leb.splice_boundary).  Whether an input is canonical (minimal)
    is decided by an independent rule, no longer by a first dump through the library.
  * endianness histories: ONE cstruct instance lives through epochs (parse-then-dump, `cs.endian` switched, parse-then-dump,
    both orders, sometimes back); byte fidelity is evaluated in every epoch with the mask for the current byte order, for
    structures and for standalone scalar / enum / array types (s1_hist).

Added probe families (round 10, harness/v10_c02.py): LONG INPUTS AND BLOCK BOUNDARIES x PUBLIC ENTRY POINTS
  * long_members: generated structures { static head; [length field]; LONG dynamic member; [second dynamic member]; static tail }
    (the long member optionally inside a nested structure) with char x[] / wchar x[] / T x[] (integer, enum, flag, small structure)
    or x[expr], whose encoded length sits on and around 255/256, 511/512, 1023/1024/1025, 2047/2048, 4095/4096/4097,
    8191/8192/8193, 16 K, 32 K, 65535/65536/65537 bytes; x endianness x packed/aligned x interpreted/compiled.  The same
    input goes through every public entry point (class call on BytesIO / bytes / bytearray / memoryview / real files buffered and
    unbuffered / mmap / BufferedReader / a minimal read-seek-tell object, T.read, T.reads, T._read and cs.read at a non-zero
    stream offset, a class loaded with cs.loadfile) and every dump spelling (v.dumps(), T.dumps(v), bytes(v), T.write / v.write
    into BytesIO and a real file).  Oracle: bytes consumed (stream position) == reference extent == len(dump), dump == input
    under the reference parser's data mask; entry points that reject or disagree are reported.  Small cases also go to the model.
  * long_arrays: standalone array types built through the API (cs.<t>[None], cs.<t>[count], cs._make_array, cs.resolve) on
    the same sizes with data following; consumed == length of the encoding the harness produced, dumps == that encoding.
"""
from __future__ import annotations

import itertools

from .. import defs, impl, refimpl, s1_hist, s1_leb, s1_mixed, v10_c02
from ..common import Result, mkrng
from ..structprops import Engine, load, real_parse, rand_bytes, has_eof, has, has_float, union_anon_nested


def has_leb(t):
    return has(t, lambda x, d, u: x[0] == "sc" and x[1] in ("uleb128", "ileb128"))


def pending(res, tree) -> bool:
    """no definition is skipped any more: a union of anonymous structures with a nested anonymous member (found by these probes)
    is known finding F44 and is classified by its signature (structprops.Engine.sigs)"""
    if union_anon_nested(tree):
        res.feat("definition in the territory of known finding F44 (nested anonymous member in an all-anonymous union)")
    return False


def fidelity(eng, res, L, tree, cfg, data, sigs, *, key, rnd, model=True):
    """the property's predicate on one input: parse, dump, compare with the input under the reference parser's data mask.
    Inputs whose LEB128 members are not minimal (independent rule) are made canonical by one dump through the library,
    their non-data bits re-randomised (the original path); canonical ones are used as they are.  -> parsed object or None"""
    T = L.T
    want, obj = real_parse(T, data)
    if want[0] != "ok" or impl.contains_nan(want[1]):
        res.feat("input-rejected-or-NaN")
        return None
    try:
        rv, rend, rmask, spans = s1_leb.parse_spans(tree, data, 0, cfg)
    except (refimpl.Short, refimpl.Bad):
        eng.report("the library parses an input the reference parser rejects", eng.case_data(L, data=data), sigs)
        return None
    if spans and s1_leb.canonical_input(spans, data):
        res.feat("leb-canonical-input (independent rule)")
        for a, b, sg in spans:
            if data[b - 1] in (0x3F, 0x40, 0x41, 0x7F, 0x00, 0x7E):
                res.feat("leb-boundary-final-group")
    elif spans:
        d0 = impl.dump(T, obj)
        if d0[0] != "ok":
            return None
        # canonical encodings, then random garbage in every non-data bit
        try:
            _, e0, m0 = refimpl.parse(tree, d0[1], 0, cfg)
        except (refimpl.Short, refimpl.Bad):
            return None
        data = bytes((b & m) | (rnd.randrange(256) & ~m & 0xFF) for b, m in zip(d0[1], m0)) + b"\x00" * 4
        if has_eof(tree):
            data = data[:-4]
        want, obj = real_parse(T, data)
        if want[0] != "ok":
            return None
        try:
            rv, rend, rmask = refimpl.parse(tree, data, 0, cfg)
        except (refimpl.Short, refimpl.Bad):
            return None
        res.feat("leb-canonicalised-input")
    consumed = want[2]
    res.count((*key, data[:consumed]), consumed >= 2 and len(tree[1]) >= 2)
    cd = eng.case_data(L, data=data)
    if rend != consumed:
        eng.report(f"parsing consumed {consumed} bytes, the reference says the value occupies {rend}", cd, sigs)
        return obj
    d = impl.dump(T, obj)
    if d[0] != "ok":
        eng.report(f"a parsed value cannot be dumped: {d[1]}", cd, sigs)
        return obj
    padded = data[:consumed] + bytes(max(0, consumed - len(data)))
    exp = bytes(b & m for b, m in zip(padded, rmask))
    if len(d[1]) != consumed:
        eng.report(f"dumps produced {len(d[1])} bytes, parsing consumed {consumed}", cd, sigs)
    elif d[1] != exp:
        diff = [i for i in range(consumed) if d[1][i] != exp[i]]
        eng.report(f"dumps differs from the input at data-carrying / must-be-zero positions {diff[:12]}: dumps {d[1].hex()} expected {exp.hex()}", cd, sigs)
    if any(m not in (0, 0xFF) for m in rmask):
        res.feat("partial-byte-mask (bit-fields)")
    if any(m == 0 for m in rmask):
        res.feat("padding-bytes-present")
    if model and "F23" not in sigs:
        eng.model_write(L, want[1], d, "dumps of a parsed value", sigs)
    return obj


def leb_scalars(eng, res, tier):
    """standalone uleb128 / ileb128: dumping the value parsed from a canonical encoding reproduces the encoding"""
    m = impl.dc()
    for endian in "<>":
        cs = m.cstruct(endian=endian)
        for tname, signed in (("uleb128", False), ("ileb128", True)):
            t = cs.resolve(tname)
            for enc in s1_leb.encodings(signed, tier):
                data = enc + b"\xAA\xBB"
                r = impl.parse(t, data)
                res.count(("leb-scalar", tname, endian, enc), len(enc) >= 2)
                res.feat(f"leb-scalar:{tname}:{min(len(enc), 5)}{'+' if len(enc) >= 5 else ''}-byte")
                cd = {"type": tname, "endian": endian, "data": data.hex(), "value": s1_leb.decode(enc, signed),
                      "repro": f"from dissect.cstruct import cstruct; cs=cstruct(endian={endian!r}); v=cs.{tname}(bytes.fromhex({data.hex()!r})); v.dumps()"}
                if r[0] != "ok" or r[2] != len(enc) or int(r[1]) != s1_leb.decode(enc, signed):
                    eng.report(f"{tname}: canonical encoding {enc.hex()} of {s1_leb.decode(enc, signed)} parses as {r[1:] if r[0] == 'ok' else r}", cd, [])
                    continue
                d = impl.dump(t, r[1])
                if d[0] != "ok" or d[1] != enc:
                    eng.report(f"{tname}: parsing consumed {len(enc)} bytes ({enc.hex()}, value {int(r[1])}) but dumping gives "
                               f"{d[1].hex() if d[0] == 'ok' else d} ({len(d[1]) if d[0] == 'ok' else '-'} bytes)", cd, [])


def leb_tree(rnd):
    """a generated definition with at least one LEB128 member: drawn until one occurs, else one is inserted"""
    for _ in range(6):
        g = defs.Gen(rnd, max_depth=rnd.choice([1, 2, 2]))
        tree = g.struct()
        if has_leb(tree):
            return tree
    fields = list(tree[1])
    for _ in range(rnd.choice([1, 2])):
        ty = ("sc", rnd.choice(["uleb128", "ileb128", "ileb128"]))
        r = rnd.random()
        if r < 0.2:
            ty = ("arr", ty, ("fixed", rnd.choice([1, 2, 3])))
        elif r < 0.3:
            ty = ("arr", ty, ("null",))
        elif r < 0.4:
            ty = ("struct", [{"name": g.name(), "ty": ("sc", "uint8"), "bits": None}, {"name": g.name(), "ty": ty, "bits": None},
                             {"name": g.name(), "ty": ("sc", "uint16"), "bits": None}])
        pos = rnd.randint(0, len(fields))
        if fields and fields[-1]["ty"][0] == "arr" and fields[-1]["ty"][2][0] == "eof":
            pos = rnd.randint(0, len(fields) - 1)
        fields.insert(pos, {"name": g.name(), "ty": ty, "bits": None})
    return ("struct", fields)


def leb_structures(eng, res, rnd, tier):
    """structures with LEB128 members, the members of the input rewritten to boundary encodings"""
    for _ in range(160 if tier == "quick" else 5000):
        tree = leb_tree(rnd)
        if pending(res, tree):
            continue
        for endian, align, compiled in itertools.product("<>", (False, True), (False, True)):
            if rnd.random() < 0.6:
                continue
            L, err = load(tree, endian=endian, align=align, compiled=compiled, pointer=rnd.choice(["uint64", "uint32", "uint16"]))
            if L is None:
                continue
            cfg = refimpl.Cfg(endian, align, L.pointer, impl.CONSTS)
            sigs = eng.sigs(L)
            for _i in range(3):
                base = bytes(rnd.randrange(256) for _ in range(64)) if rnd.random() < 0.5 else rand_bytes(rnd, 64)
                data = s1_leb.splice_boundary(rnd, tree, base, cfg)
                res.feat("leb-structure:inputs")
                fidelity(eng, res, L, tree, cfg, data, sigs, key=("leb", L.text, endian, align, compiled), rnd=rnd)
        if len(eng.lines) > 4000:
            eng.flush()


def endian_histories(eng, res, rnd, tier):
    """endianness histories on one instance: structures, then standalone scalar / enum / array types"""
    for _ in range(150 if tier == "quick" else 4000):
        tree = defs.Gen(rnd, max_depth=rnd.choice([1, 2, 2, 3])).struct()
        if pending(res, tree):
            continue
        align, compiled = rnd.random() < 0.5, rnd.random() < 0.5
        ptr = rnd.choice(["uint64", "uint32", "uint16"])
        sigs = []

        def on_parse(L, data, i):
            if not sigs:
                sigs.extend(eng.sigs(L) + ["-"])
            cfg = refimpl.Cfg(L.endian, align, ptr, impl.CONSTS)
            res.feat("history:endian:parse-dump" + (":after-switch" if i else ":first-epoch"))
            return fidelity(eng, res, L, tree, cfg, data, sigs, key=("hist", L.text, L.endian, i, align, compiled), rnd=rnd, model=i > 0)

        def data_for(L, size):
            n = size + rnd.choice([0, 6, 17])
            return bytes(rnd.randrange(256) for _ in range(n)) if rnd.random() < 0.7 else rand_bytes(rnd, n)

        if s1_hist.endian_history(rnd, tree, align=align, compiled=compiled, ptr=ptr, on_parse=on_parse, data_for=data_for) is not None:
            res.feat("history:endian:instances")
        if len(eng.lines) > 4000:
            eng.flush()

    def on_value(sess, t, text, data, i, e):
        r = impl.parse(t, data)
        if r[0] != "ok" or impl.contains_nan(impl.canon(r[1])):
            res.feat("input-rejected-or-NaN")
            return
        res.count(("hist-scalar", text, e, i, data[: r[2]]), r[2] >= 2)
        res.feat("history:endian:standalone-type" + (":after-switch" if i else ":first-epoch"))
        cd = {"history": list(sess.steps), "type": text, "data": data.hex(), "endian": e,
              "repro": sess.script([f"t = {text}; d = bytes.fromhex({data.hex()!r}); assert t.dumps(t(d)) == d[:len(t)]"])}
        sess.note(f"t = {text}; t.dumps(t(bytes.fromhex({data.hex()!r})))   # under cs.endian = {e!r}")
        d = impl.dump(t, r[1])
        # a scalar, enum or array of them has no padding: every consumed byte carries data
        if d[0] != "ok" or d[1] != data[: r[2]]:
            eng.report(f"{text}: parsing consumed {data[: r[2]].hex()}, dumping the parsed value gives {d[1].hex() if d[0] == 'ok' else d}", cd, [])

    for _ in range(25 if tier == "quick" else 600):
        s1_hist.scalar_history(rnd, on_value=on_value)


def mixed_alignment(eng, res, rnd, tier):
    """mixed alignment modes (named sub-definitions loaded with their own `align` flag on one instance).  The reference parser
    knows one flag only, so the predicate is stated without a mask: the dump has exactly the consumed length, every byte of it
    has no bit set that the input byte does not have (data bits are copied, padding and unassigned bits are written as zero), and it parses
    to the same value.  Territory of known finding F43 is classified by its signature, everything else is strict."""
    for _ in range(260 if tier == "quick" else 6000):
        g = defs.Gen(rnd, max_depth=rnd.choice([1, 2, 2, 3]))
        tree = s1_mixed.with_nested(rnd, g, g.struct(), dyn_p=0.6)   # often a dynamically sized member inside the nested structure
        endian, compiled = rnd.choice("<>"), rnd.random() < 0.5
        ptr = rnd.choice(["uint64", "uint32", "uint16", "uint8"])
        for _try in range(4):
            plan, tree2 = defs.hoist(tree, rnd, p=0.7, top_align=rnd.random() < 0.5, mixed=True)
            if s1_mixed.is_mixed(plan):
                break
        if rnd.random() < 0.3:
            # directed: an aligned structure with a dynamically sized member, nested in a packed one at an odd offset
            plan, tree2 = s1_mixed.directed_dynamic(rnd, g)
            res.feat("mixed-align:directed (dynamic member inside an aligned structure nested in a packed one)")
        if not s1_mixed.is_mixed(plan) or has(tree2, lambda x, d, u: x[0] == "sc" and x[1] in ("uleb128", "ileb128")):
            res.feat("mixed-align:not run (uniform plan or LEB128 member: a non-minimal input would be re-encoded shorter)")
            continue
        sess = impl.Session(endian=endian, pointer=ptr)
        try:
            L = s1_mixed.load_plan(sess, plan, compiled=compiled)
        except Exception as e:  # noqa: BLE001
            res.feat("mixed-align:definition-rejected:" + type(e).__name__)
            continue
        T = L.T
        mis = s1_mixed.misplaced_aligned(T)
        sigs = s1_mixed.sigs_mixed(tree2, plan[-1][2], ptr, endian)
        if any(under_union or s1_mixed.has_bitfields(t) for t, under_union in mis):
            sigs = sigs + ["F43"]
        res.feat("mixed-align:instances")
        size = T.size if T.size is not None else 48
        for _i in range(3):
            data = bytes(rnd.randrange(256) for _ in range(size + rnd.choice([0, 5, 20])))
            want, obj = real_parse(T, data)
            if want[0] != "ok" or impl.contains_nan(want[1]):
                continue
            sg = sigs + (["F43"] if s1_mixed.overshoot(obj) else [])
            consumed = want[2]
            res.count(("mixed", sess.script(), compiled, data[:consumed]), consumed >= 2)
            cd = s1_mixed.case_data(sess, data=data, compiled=compiled)
            d = impl.dump(T, obj)
            if d[0] != "ok":
                eng.report(f"a parsed value cannot be dumped: {d[1]}", cd, sg)
                continue
            out = d[1]
            if len(out) != consumed and not has_eof(tree2):
                eng.report(f"dumps produced {len(out)} bytes, parsing consumed {consumed}", cd, sg)
                continue
            bad = [i for i, (a, b) in enumerate(zip(out, data)) if a & ~b & 0xFF]   # a bit set in the dump that the input does not have
            if bad:
                eng.report(f"dumps differs from the input at positions {bad[:8]} where the dump has bits the input does not have: dumps {out.hex()} input {data[:consumed].hex()}", cd, sg)
                continue
            back, _ = real_parse(T, out + (b"" if has_eof(tree2) else b"\xEE\xEE"))
            if back[0] != "ok" or not impl.same_val(want[1], back[1], ignore_union_buf=True):
                eng.report(f"the dump parses to {str(back)[:200]}, the input to {str(want[1])[:200]}", cd, sg)
            res.feat("mixed-align:values")


def run(env) -> Result:
    res = Result()
    res.rule = ("seeded random definition trees x {<,>} x {packed, aligned} x {interpreted, compiled}; inputs: uniformly random bytes (padding "
                "and unassigned bit-field bits are random, not zero); for definitions with LEB128 members the input is first made canonical by "
                "one dump and its non-data bits are then re-randomised. Predicate: len(dumps(parse(x))) == consumed and dumps == x & mask with "
                "the mask from the independent reference parser. Plus: standalone LEB128 types on all canonical 1/2-byte and boundary 3+-byte "
                "encodings; structures whose LEB128 members are rewritten to boundary encodings (canonical by an independent rule); "
                "histories on one instance (parse-dump, cs.endian switched, parse-dump) for structures and standalone types. "
                "Plus (round 10): structures with one LONG dynamically sized member (char/wchar/T x[], x[expr]; encoded length on and around "
                "255..65537-byte block boundaries) followed by further members, and standalone API-built array types of those sizes, each "
                "input parsed through every public entry point (class call / read / reads / _read / cs.read / loadfile class on bytes, "
                "bytearray, memoryview, BytesIO at an offset, BufferedReader, real files, mmap, a minimal stream object) and dumped through "
                "every dump spelling: consumed (stream position) == reference extent == len(dump) and dump == x & mask. "
                "distinct = (definition, config, input); non-trivial = consumed >= 2 bytes and >= 2 fields")
    eng = Engine(env, res, "C02")
    rnd = mkrng(env["seed"], "c02")
    tier = env["tier"]
    for _ in range(300 if tier == "quick" else 12000):
        tree = defs.Gen(rnd, max_depth=rnd.choice([1, 2, 2, 3])).struct()
        if pending(res, tree):
            continue
        for endian, align, compiled in itertools.product("<>", (False, True), (False, True)):
            if rnd.random() < (0.6 if tier == "quick" else 0.3):
                continue
            L, err = load(tree, endian=endian, align=align, compiled=compiled, pointer=rnd.choice(["uint64", "uint32", "uint16"]))
            if L is None:
                continue
            T = L.T
            cfg = refimpl.Cfg(endian, align, L.pointer, impl.CONSTS)
            sigs = eng.sigs(L)
            size = T.size if T.size is not None else 56
            for _i in range(3):
                data = bytes(rnd.randrange(256) for _ in range(size + rnd.choice([0, 6, 17]))) if rnd.random() < 0.7 else rand_bytes(rnd, size + 9)
                fidelity(eng, res, L, tree, cfg, data, sigs, key=(L.text, endian, align, compiled), rnd=rnd)
            for k, v in defs.features(tree).items():
                res.feat(k, v)
        if len(eng.lines) > 4000:
            eng.flush()
    leb_scalars(eng, res, tier)
    leb_structures(eng, res, mkrng(env["seed"], "c02-leb"), tier)
    endian_histories(eng, res, mkrng(env["seed"], "c02-endian-history"), tier)
    mixed_alignment(eng, res, mkrng(env["seed"], "c02-mixed"), tier)
    eng.flush()
    v10_c02.long_members(eng, res, mkrng(env["seed"], "c02-long-members"), tier)
    v10_c02.long_arrays(eng, res, mkrng(env["seed"], "c02-long-arrays"), tier)
    eng.flush()
    return res


def replay(body) -> int:
    print("replay:", body.get("what"))
    print(body.get("case", {}).get("repro"), body.get("case", {}).get("data"))
    return 0
