"""C19 — utilities: hexdump is lossless, colour cosmetic, pack/unpack/swap are inverses.

real: dissect.cstruct.utils.hexdump / dumpstruct / pack / unpack / swap / p8.. / u8.. / swap16..
model: driver `hexdump`, `pack`, `unpack`, `swap` (exact text equality per dump line)
oracle: the property predicates evaluated on the real output (strip codes, read the hex column back, int.to_bytes)

Round-2 probes (helpers in harness/t6_c19.py), all evaluated on the real library and sent to the model where the model has the parameter:
 * hexdump parameters: every public parameter (prefix, offset, palette, data type, output mode "string"/"generator"/"print", positional or
   keyword passing) with adversarial-but-legal values - braces and format fields, percent directives, backslashes, non-ASCII, control
   characters, an offset-like text, empty, hundreds of characters; offsets up to 10**30 and negative. Oracles: the plain dump lists every byte
   once, sixteen per line, behind format(offset + 16*i, "08x"); with a prefix every line is prefix + the line without one; removing exactly the
   palette's escape sequences gives the plain dump; every output mode delivers the same lines. Free-form colour strings go to the model.
 * dumpstruct parameters: offset, color, output "string"/"print", instance and (class, data) forms over structures with awkward values (braces /
   percent signs in char data, negative integers, enums, strings, fields crossing 16-byte lines, bit-fields): hex part = dump of exactly the
   structure's bytes at the running offset, every field listed and integer / bytes / string / integer-list values read back from the listing,
   colour / mode / form change nothing but the colour codes.
 * pack widths: explicit bit widths 1..130 whether multiples of 8 or not, signed and unsigned boundary values of every width (and around every
   byte boundary below it), the eight endianness spellings (little big network < > ! @ =), against two's complement in ceil(bits/8) bytes
   computed by shifting and masking; unpack (no size / whole-byte size) is the inverse and pack(unpack(.)) the identity; fixed-width helpers with
   negative values and sign=True; swapN = swap(., N) = byte reversal; auto-sized pack for every bit length 0..130.
   The unmodified library's unpack() (hence swap()) rejects every explicit size that is not a multiple of 8: counted as a feature
   (`unpack:explicit-size-not-multiple-of-8:rejected-by-the-library`), the library used to reject them in unpack/swap (found by this probe, repaired: fixed F46); they are checked like the others.

Round-9 probe (harness/v9_c19.py): both call styles of dumpstruct on every data length.  Generated structures whose encoding has a chosen
length - 0 (struct S {}; only zero-length arrays; a lone x[EOF] array; fixed members plus an x[EOF] tail left with no bytes), 1, 2, 15, 16, 17,
31, 32, 33, 48 on every seed, then random lengths - from random members (integers of 1..16 bytes, floats, char / wchar and their arrays, enums,
nested / anonymous / empty structures, bit-fields, pointer, void, uleb128, null-terminated and counted arrays, unions) x endianness spelling x
compiled / interpreted x packed / aligned.  The same bytes are dumped through dumpstruct(instance) - the instance from S(bytes), S(stream),
S.reads, S.read(stream), obj= keyword, and built from the field values through the API - and through dumpstruct(S, data) with bytes, bytearray,
memoryview, data= / obj= keywords and everything positional, colour off and on, output "string" and "print" (captured), plus the calls with
defaults only.  Oracle: every call succeeds; without the escape sequences the text is a hex dump that reads back as exactly the bytes (no line
for no bytes) followed by "struct S:" and every member once, in order, with its value read back; colour off = no escape character, colour on =
the same text plus colour codes; every style / data type / convention / mode gives the same text; dumpstruct(S) / (S, None) raise ValueError.
Both styles also go to the model.  Excluded (unmodified library, reported): the API-built instance with colour on raises AttributeError
('_sizes') - counted as feature `v9:forms:api-instance:colour:AttributeError-_sizes`, judged as soon as it returns a text.

Round-10 probe (harness/v10_c19.py): dumpstruct(instance) of values CHANGED AFTER PARSING.  Generated structures AND unions (integers of 1..16
bytes, arrays and 2-d arrays of them, char / wchar arrays, enum, floats, nested structure, a member and an array of a named structure, bit-fields,
a union inside a structure, null-terminated / counted tail; unions mostly with an integer array or the array of structures as the largest member)
x endianness spelling x compiled / interpreted x packed / aligned; the instance from every entry point (class call with bytes / bytearray /
memoryview / BytesIO / real file, reads, read, default-constructed, built from values); a walk of member assignments (s.f = v, s.arr = [...],
u.word = v, u.in.x = v, s.name = longer text) and IN-PLACE changes (s.arr[i] = v, slices, reverse, s.m[i][j] = v, u.raw[3] = 0xee,
u.pts[2].y = 0xab, s.pts[i] = P(...), s.d.append, s.v.raw[i] = v), dumped before the first and after each change, colour off and on, string and
print.  Oracle: the hex dump is a dump of exactly instance.dumps() (= bytes(instance)) at that moment - not of bytes cached at parse time -, the
listing shows every member's current value, the two's complement of a newly assigned integer stands at the member's place (computed by the
harness for packed layouts / the member a union is written from), dumping leaves the instance unchanged, colour and output mode are cosmetic,
dumpstruct(S, instance.dumps()) shows the same hex dump; each dump also goes to the model.  Same `_sizes` exclusion as v9 (API-built structure,
colour on; feature `v10:changed:api-instance:colour:AttributeError-_sizes`).
"""
from __future__ import annotations

import re

from .. import common, impl, t6_c19, v9_c19, v10_c19
from ..common import A, Case, Result, mkrng, parse_sexp, run_driver, sx

NORMAL = "\033[1;0m"
COLORS = ["\033[1;41m\033[1;37m", "\033[1;42m\033[1;37m", "\033[1;44m\033[1;37m", "\033[1;31m", "\033[1;36m"]
ENDIAN_SPELLINGS = {"little": "little", "big": "big", "network": "big", "<": "little", ">": "big", "!": "big"}


def sig_F12(case) -> bool:
    """coloured dumpstruct of a structure with a bit-field, or a compiled one with a void member"""
    return case.get("kind") == "dumpstruct" and case.get("color") and (case.get("has_bits") or (case.get("compiled") and case.get("has_void")))


SIGNATURES = {"F12": sig_F12}


def classify(data, findings):
    for f in findings:
        fn = SIGNATURES.get(f["id"])
        if fn and fn(data):
            return f["id"]
    return None


def strip_codes(s: str, colors) -> str:
    for c in sorted(set(colors) | {NORMAL}, key=len, reverse=True):
        if c:
            s = s.replace(c, "")
    return s


def gen_palette(rnd, n):
    r = rnd.random()
    if r < 0.15:
        return None
    if r < 0.22:
        return []
    pal = []
    total = 0
    target = rnd.choice([n, n, max(0, n - rnd.randint(1, 9)), n + rnd.randint(1, 20), rnd.randint(0, 2 * n + 1)])
    while total < target and len(pal) < 12:
        k = rnd.choice([0, 0, 1, 1, 2, 3, 4, 7, 8, 15, 16, 17, 31])
        k = min(k, target - total) if rnd.random() < 0.8 else k
        col = rnd.choice(COLORS + ([""] if rnd.random() < 0.15 else []))
        pal.append((k, col))
        total += k
    if rnd.random() < 0.2:
        pal.append((0, rnd.choice(COLORS)))
    return pal


def run(env) -> Result:
    res = Result()
    res.rule = ("hexdump: seeded random byte strings (length 0..80, all 256 byte values) x palettes (None, empty, zero-length entries, empty colour "
                "strings, shorter/longer than the data) x offsets x prefixes; pack/unpack/swap: boundary and random integers x widths 8..128 x six "
                "endianness spellings; dumpstruct over generated structures; hexdump / dumpstruct parameter sweep (adversarial prefixes, offsets, "
                "escape-sequence and free-form palettes, data types, output modes, call forms); pack/unpack over every explicit width 1..130 x "
                "boundary values x eight endianness spellings; dumpstruct call styles (v9): generated structures of every encoded length "
                "(0 - empty struct, zero-length arrays, x[EOF] with nothing left - 1, 2, 15, 16, 17, 31, 32, 33, 48, random) x endianness "
                "spelling x compiled/interpreted x packed/aligned, dumped as instance (class call, stream, reads, read, API-built) and as "
                "(type, data) with bytes / bytearray / memoryview, positional / keyword, colour off/on, string/print, defaults; no data -> "
                "ValueError; dumpstruct of changed instances (v10): generated structures and unions (largest member an array) x endianness x "
                "compiled/interpreted x packed/aligned x every way to come by an instance, dumped after each of a walk of member assignments and "
                "in-place changes of container members (list element, slice, struct-in-array attribute, nested union) against "
                "instance.dumps() at that moment and the members' current values, colour off/on, string/print. "
                "distinct = by full argument tuple; non-trivial = data longer than one byte / width > 8")
    utils = __import__("dissect.cstruct.utils", fromlist=["x"]) if False else None
    dc = impl.dc()
    from dissect.cstruct import utils as U

    rnd = mkrng(env["seed"], "c19")
    tier = env["tier"]
    findings = env["findings"]
    lines, metas = [], []

    def viol(what, data):
        fid = classify(data, findings)
        if fid:
            res.known_seen[fid] = res.known_seen.get(fid, 0) + 1
        else:
            res.violations.append(Case("property", what, data))

    # ---- hexdump
    lens = list(range(0, 40)) + [47, 48, 49, 63, 64, 65, 80]
    n_h = 300 if tier == "quick" else 6000
    for i in range(n_h):
        n = lens[i % len(lens)] if i < 2 * len(lens) else rnd.randint(0, 80)
        data = bytes(rnd.randrange(256) for _ in range(n)) if rnd.random() < 0.8 else bytes(rnd.choice(b"Az09 ~\x7f\x00\xff\x1f") for _ in range(n))
        pal = gen_palette(rnd, n)
        offset = rnd.choice([0, 0, 16, 1, 0x1000, 0xFFFFFFF0, rnd.randrange(1 << 20)])
        prefix = rnd.choice(["", "", "> ", "\t"])
        case = {"kind": "hexdump", "data": data.hex(), "palette": pal, "offset": offset, "prefix": prefix}
        res.count((data, repr(pal), offset, prefix), nontrivial=n > 1)
        res.feat("hexdump:palette=" + ("none" if pal is None else "empty" if not pal else "yes"))
        try:
            out = U.hexdump(data, None if pal is None else list(pal), offset=offset, prefix=prefix, output="string")
            plain = U.hexdump(data, None, offset=offset, prefix=prefix, output="string")
        except Exception as ex:  # noqa: BLE001
            viol(f"hexdump raised {type(ex).__name__}: {ex}", case)
            continue
        cols = [c for _, c in (pal or [])]
        # property: colour is cosmetic
        if strip_codes(out, cols) != plain:
            viol("hexdump with a palette differs from the plain hexdump in more than the colour codes", case)
        # property: lossless, 16 per line, running offsets
        plines = plain.split("\n") if plain else []
        if len(plines) != (n + 15) // 16:
            viol(f"hexdump of {n} bytes has {len(plines)} lines", case)
        got = bytearray()
        okfmt = True
        for li, ln in enumerate(plines):
            head = prefix + "%08x  " % (offset + 16 * li)
            if not ln.startswith(head):
                okfmt = False
                break
            body = ln[len(head):]
            hexcol, chars = body[:49], body[51:]
            toks = hexcol.split()
            row = bytes(int(t, 16) for t in toks)
            if hexcol != "".join(("%02x" % row[j] if j < len(row) else "  ") + (" " if j != 7 else "  ") for j in range(16)):
                okfmt = False
            if chars != "".join(chr(b) if 0x20 <= b <= 0x7E else "." for b in row):
                okfmt = False
            if li < len(plines) - 1 and len(row) != 16:
                okfmt = False
            got += row
        if not okfmt or bytes(got) != data:
            viol("plain hexdump does not list every byte exactly once, in order, sixteen per line with the running offset", case)
        lines.append(sx([A("hexdump"), data, A("none") if pal is None else [[k, c] for k, c in pal], offset]))
        metas.append(("hexdump", case, (out, prefix)))
        if i % 50 == 0:
            res.sample({"data": data.hex(), "palette": [[k, c.encode().hex()] for k, c in pal] if pal else pal, "offset": offset, "lines": len(plines)})

    # ---- pack / unpack / swap
    widths = [8, 16, 24, 32, 40, 48, 64, 128]
    n_p = 60 if tier == "quick" else 1500
    for w in widths:
        nb = w // 8
        vals = [0, 1, 0x7F, 0x80, 0xFF, (1 << (w - 1)) - 1, 1 << (w - 1), (1 << w) - 1, -1, -2, -(1 << (w - 1)), -(1 << (w - 1)) + 1]
        vals += [rnd.randrange(-(1 << (w - 1)), 1 << w) for _ in range(n_p)]
        for v in vals:
            for sp, order in ENDIAN_SPELLINGS.items():
                if rnd.random() < 0.5 and tier == "quick":
                    continue
                fits = (0 <= v < (1 << w)) if v >= 0 else (v >= -(1 << (w - 1)))
                case = {"kind": "pack", "value": v, "size": w, "endian": sp}
                res.count(("pack", v, w, sp), nontrivial=w > 8)
                res.feat(f"pack:{w}")
                try:
                    bs = U.pack(v, w, sp)
                except Exception as ex:  # noqa: BLE001
                    bs = None
                    if fits:
                        viol(f"pack({v}, {w}, {sp!r}) raised {type(ex).__name__} although the value fits", case)
                if bs is not None:
                    if not fits:
                        viol(f"pack({v}, {w}, {sp!r}) = {bs.hex()} although the value does not fit", case)
                    else:
                        want = v.to_bytes(nb, order, signed=v < 0)
                        if bs != want:
                            viol(f"pack({v}, {w}, {sp!r}) = {bs.hex()}, two's complement {order} is {want.hex()}", case)
                        back = U.unpack(bs, w, sp, sign=v < 0)
                        if back != v:
                            viol(f"unpack(pack({v})) = {back}", case)
                        if U.pack(U.unpack(bs, w, sp, sign=False), w, sp) != bs or U.pack(U.unpack(bs, w, sp, sign=True), w, sp) != bs:
                            viol(f"pack(unpack({bs.hex()})) is not the identity", case)
                e = A("le" if order == "little" else "be")
                lines.append(sx([A("pack"), v, w, e]))
                metas.append(("pack", case, ("ok", bs) if bs is not None else ("err",)))
                if bs is not None:
                    for sg in (0, 1):
                        lines.append(sx([A("unpack"), bs, w, e, sg]))
                        metas.append(("unpack", case, ("ok", U.unpack(bs, w, sp, sign=bool(sg)))))
            # swap: involution on values of the width
            if 0 <= v < (1 << w):
                case = {"kind": "swap", "value": v, "size": w}
                res.count(("swap", v, w), nontrivial=w > 8)
                res.feat("swap")
                s1 = U.swap(v, w)
                if U.swap(s1, w) != v or s1 != int.from_bytes(v.to_bytes(nb, "big"), "little"):
                    viol(f"swap(swap({v}, {w}), {w}) = {U.swap(s1, w)}", case)
                lines.append(sx([A("swap"), v, w]))
                metas.append(("swap", case, ("ok", s1)))
    # fixed-width helpers
    for w, p, u, sw in ((8, U.p8, U.u8, None), (16, U.p16, U.u16, U.swap16), (32, U.p32, U.u32, U.swap32), (64, U.p64, U.u64, U.swap64)):
        for v in [0, 1, (1 << w) - 1, 1 << (w - 1), rnd.randrange(1 << w)]:
            for sp, order in ENDIAN_SPELLINGS.items():
                res.count(("helper", w, v, sp))
                if p(v, sp) != v.to_bytes(w // 8, order) or u(p(v, sp), sp) != v:
                    viol(f"p{w}/u{w} are not inverse two's-complement codecs for {v} {sp!r}", {"kind": "helper", "value": v, "size": w, "endian": sp})
            if sw and sw(sw(v)) != v:
                viol(f"swap{w} is not an involution on {v}", {"kind": "helper", "value": v, "size": w})
    # auto-sized pack of non-negative values
    for v in [0, 1, 255, 256, 65535, 65536, 2**64, rnd.getrandbits(90), -1, -2, -127, -128, -129, -255, -256, -257, -32768, -32769, -(2**63), -(2**63) - 1,
              -(2**64), -rnd.getrandbits(70) - 1]:
        for sp in ("little", ">"):
            res.count(("autopack", v, sp))
            try:
                bs = U.pack(v, None, sp)
            except Exception as ex:  # noqa: BLE001
                viol(f"pack({v}) without a size raised {type(ex).__name__}: {ex}", {"kind": "autopack", "value": v})
                continue
            if bs != v.to_bytes(max(1, len(bs)) if v else 0, ENDIAN_SPELLINGS[sp], signed=v < 0) or (len(bs) > 1 and bs == v.to_bytes(len(bs) - 1, ENDIAN_SPELLINGS[sp], signed=v < 0) if False else False):
                viol(f"pack({v}) without a size = {bs.hex()}, not the two's complement of the value", {"kind": "autopack", "value": v})
            if U.unpack(bs, None, sp, sign=v < 0) != v:
                viol(f"unpack(pack({v})) without a size = {U.unpack(bs, None, sp)}", {"kind": "autopack", "value": v})
            lines.append(sx([A("pack"), v, A("none"), A("le" if ENDIAN_SPELLINGS[sp] == "little" else "be")]))
            metas.append(("pack", {"kind": "autopack", "value": v}, ("ok", bs)))

    # ---- dumpstruct: hexdump of exactly the structure's bytes, every field listed
    defs_ = [
        ("struct S { uint8 a; uint16 b; char c[4]; uint32 d[2]; };", False, False),
        ("struct S { uint8 a; wchar w[2]; int24 z; };", False, False),
        ("struct S { uint16 a:4; uint16 b:12; uint8 c; };", True, False),
        ("struct S { uint8 a; void v; uint8 b; };", False, True),
        ("struct S { uint8 n; uint8 d[n]; struct { uint16 x; } s; };", False, False),
    ]
    for text, has_bits, has_void in defs_:
        for compiled in (False, True):
            for color in (False, True):
                cs = dc.cstruct()
                cs.load(text, compiled=compiled)
                data = bytes(rnd.randrange(1, 200) for _ in range(24))
                data = bytes([3]) + data[1:] if "d[n]" in text else data
                if "wchar" in text:
                    data = data[:1] + b"a\x00b\x00" + data[5:]
                obj = cs.S(data)
                raw = obj.dumps()
                case = {"kind": "dumpstruct", "definition": text, "compiled": compiled, "color": color, "has_bits": has_bits, "has_void": has_void,
                        "data": data.hex()}
                res.count(("dumpstruct", text, compiled, color))
                res.feat("dumpstruct")
                try:
                    out = U.dumpstruct(obj, color=color, output="string")
                except Exception as ex:  # noqa: BLE001
                    viol(f"dumpstruct raised {type(ex).__name__}: {ex}", case)
                    continue
                lines.append(t6_c19.dumpstruct_model_line(obj, raw, 0, color))
                metas.append(("dumpstruct", case, (out,)))
                txt = re.sub(r"\033\[[0-9;]*m", "", out)
                hexpart, _, listing = txt.strip("\n").partition("\n\n")
                got = bytearray()
                try:
                    for ln in hexpart.split("\n"):
                        got += bytes(int(t, 16) for t in ln[10:59].split())
                except ValueError:
                    viol("dumpstruct's hex dump has a line whose hex column (16 byte positions) cannot be read back as bytes", dict(case, output=txt[:400]))
                    continue
                if bytes(got) != raw:
                    viol("dumpstruct's hex dump is not a dump of exactly the structure's bytes", case)
                for f in cs.S.__fields__:
                    if not re.search(r"^- " + re.escape(f._name) + r": ", listing, flags=re.M):
                        viol(f"dumpstruct does not list field {f._name}", case)

    # ---- round 2 (t6): parameter sweeps of hexdump / dumpstruct, pack / unpack / swap over widths 1..130
    t6_c19.hexdump_params(env, res, U, viol, lines, metas)
    t6_c19.dumpstruct_params(env, res, U, dc, viol, lines, metas)
    t6_c19.pack_widths(env, res, U, viol, lines, metas)
    # ---- round 9 (v9): both call styles of dumpstruct x data type x passing convention x colour x output mode on every data length (0 included)
    v9_c19.dumpstruct_forms(env, res, U, dc, viol, lines, metas)
    # ---- round 10 (v10): dumpstruct(instance) of structures and unions CHANGED after parsing (member assignment and in-place changes)
    v10_c19.dumpstruct_changed(env, res, U, dc, viol, lines, metas)

    # ---- model correspondence
    answers = run_driver(lines) if env["driver_ok"] else [None] * len(lines)
    for (kind, case, want), ans in zip(metas, answers):
        if ans is None:
            continue
        s = parse_sexp(ans)
        ok = True
        if kind == "hexdump":
            out, prefix = want
            if s[0] != "ok":
                ok = False
            else:
                model = "\n".join(f"{prefix}{int(l[0]):08x}  {str(l[1]):48s}  {str(l[2])}" for l in s[1:])
                ok = model == out
        elif kind == "dumpstruct":
            addr = lambda t: re.sub(r" object at 0x[0-9a-f]+>", " object>", t or "")  # noqa: E731   default reprs (void) name an address
            ok = addr(t6_c19.dumpstruct_model_text(s)) == addr(want[0])
        elif kind in ("pack",):
            ok = (s[0] == "ok" and str(s[1]) == common.hx(want[1])) if want[0] == "ok" else s[0] == "err"
        elif kind in ("unpack", "swap"):
            ok = (s[0] == "ok" and int(s[1]) == want[1]) if want[0] == "ok" else s[0] == "err"
        if not ok:
            res.disagreements.append(Case("corr", f"{kind}: model answers {ans[:300]!r}, implementation gives {want!r}", case))
    return res


def replay(body) -> int:
    print("replay:", body.get("what"), body.get("case"))
    return 0
