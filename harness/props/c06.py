"""C06 — bit-fields partition their storage unit exactly, in endian-defined order.

Enumerates width sequences over every storage type (unsigned, signed, enum, flag, char, odd widths), mixes them with
non-bit fields and dynamic fields, and compares, for every unit content tried:
  real parse / dumps  vs  the independent bit-slicing reference (refimpl)  vs  the Lean model.

Round 2 (t1):
  * endianness histories (t1_hist.endian_history): the same predicates (fields are the reference's slices of the unit for the
    byte order in effect, values in [0, 2^bits), dumps is the exact inverse) evaluated on ONE cstruct instance on which
    `cs.endian` is switched directly after `cs.load`, after a first parse, or after a first parse and dump - both
    directions and switched back - for the grid storage type x {interpreted, compiled} x first endianness (compositions
    that are not symmetric under reversal, optionally a second unit / a non-bit field behind) and for samples of the mixed
    trees, with one to three definitions per instance loaded in different epochs with their own compiled/align flags.
    The reference at each step is the bit-slicing reference for the endianness in effect at that step.
  * carried-over values: a value parsed under the previous byte order is dumped under the current one; the reference (and
    the real reader) for the current byte order must read the same field values back from those bytes.

Round 5 (v5_c06bb): the class BitBuffer as an object - operation sequences against its Lean object model.
Round 8 (v8_c06): call forms of structures that consist of bit-fields only (14 entry points into the reader).
Round 9 (v9_c06): BIT-FIELDS DECLARED THROUGH THE API.  The same declaration (bit-field runs over every storage type incl.
  enum/flag/char/signed/odd widths/typedef aliases, exhausted units, shared units, plain members, arrays, null-terminated arrays,
  nested structures with bit-fields) is built along every construction route - cs.load (nested structures inline / named),
  cs.loadfile of a real file, the legacy parser (DEF_LEGACY, in its input language), Field objects + cs._make_struct
  (+ compiler.compile), T.add_field(name, type, bits) one by one on a base class of the first k fields (k = 0: empty; base made by
  cs.load or _make_struct; bits positional / keyword), and add_field inside / outside `with T.start_update():` blocks in drawn
  chunks - each on its own cstruct instance, {<,>} x {packed, aligned} x {interpreted, compiled}.  Every class must declare the
  names, bits, size, alignment and unit offsets the independent reference (refimpl) prescribes and the cs.load class has, parse
  the reference's values (each in [0, 2^bits)) from the same bytes through a drawn call form, dump the input's data bits, and
  dump the same bytes when built from the field values; reads / writes of the API-built classes also go to the Lean model.
Round 10 (v10_c06): ALIGNED BIT-FIELD STRUCTURES AT ARBITRARY STREAM POSITIONS AND NESTED.  Structures loaded with align=True (runs of
  bit-fields sharing units of size 1/2/4/8 over plain / signed / enum / flag / alias storage, plain members, optionally a null-terminated
  array in front of a run) x {<,>} x {interpreted, compiled}: values built through the API or parsed at a drawn stream position are
  written at EVERY stream position 0..9 through v.write / T.write on a BytesIO or a real file (appending / overwriting) and read back from
  the same position through T.read / T(stream) / cs.read; and the same structures as member / array element of a packed or aligned outer
  structure behind a prefix of 0..5 bytes, dumped or written at a drawn position.  The bytes of every storage unit stand at start + layout
  offset and hold the fields in endian-defined order (the module's own layout and composition), nothing outside [start, end) is touched,
  reading back from the same position returns the same values.  Territory of known finding F43 (enum-typed field continuing a unit at a
  misaligned absolute position; members behind a misplaced aligned structure) is classified by signature (see the module docstring).
"""
from __future__ import annotations

import itertools

from .. import defs, impl, refimpl, t1_hist, v5_c06bb, v8_c06, v9_c06, v10_c06
from ..common import Result, mkrng
from ..structprops import Engine, load, real_parse, bits_after_dynamic, small_unit_bits, signed_bit_units, rand_bytes

STORAGE = {"uint8": 8, "int8": 8, "char": 8, "E8": 8, "uint16": 16, "int16": 16, "F16": 16, "uint24": 24, "int24": 24, "uint32": 32, "int32": 32,
           "E32": 32, "uint64": 64, "int64": 64, "uint48": 48}


def compositions(total, maxparts):
    """all ways to write numbers <= total as ordered sums with at most maxparts parts (each part >= 1, sum <= total)"""
    out = []

    def rec(prefix, left):
        if prefix:
            out.append(list(prefix))
        if len(prefix) == maxparts:
            return
        for p in range(1, left + 1):
            rec(prefix + [p], left - p)
    rec([], total)
    return out


def bitfield(name, st, b):
    ty = ("enum", st) if st in defs.ENUMS else ("sc", st)
    return {"name": name, "ty": ty, "bits": b}


def make_trees(rnd, tier):
    trees = []
    # (a) one unit, every composition of the width (8-bit exhaustively; wider units by sampling compositions)
    for st in ("uint8", "int8", "char", "E8"):
        comps8 = compositions(8, 8 if tier == "thorough" else 3)
        if tier == "quick":
            comps8 = rnd.sample(comps8, 24)
        for comp in comps8:
            trees.append(("struct", [bitfield(f"b{i}", st, w) for i, w in enumerate(comp)]))
    for st in ("uint16", "int16", "F16"):
        comps = compositions(16, 3)
        if tier == "quick":
            comps = rnd.sample(comps, 60)
        for comp in comps:
            trees.append(("struct", [bitfield(f"b{i}", st, w) for i, w in enumerate(comp)]))
    for st in ("uint24", "int24", "uint32", "int32", "E32", "uint64", "int64", "uint48"):
        w = STORAGE[st]
        for _ in range(8 if tier == "quick" else 80):
            comp, left = [], w
            while left and len(comp) < rnd.randint(1, 6):
                p = rnd.randint(1, left)
                comp.append(p)
                left -= p
            trees.append(("struct", [bitfield(f"b{i}", st, p) for i, p in enumerate(comp)]))
    # (b) unit switches: several runs with different storage types, non-bit fields and dynamic fields in between
    for _ in range(150 if tier == "quick" else 3000):
        fields = []
        n = 0
        for _run in range(rnd.randint(1, 4)):
            k = rnd.random()
            if k < 0.6:
                st = rnd.choice(list(STORAGE))
                left = STORAGE[st]
                for _ in range(rnd.randint(1, 5)):
                    if not left:
                        if rnd.random() < 0.5:
                            left = STORAGE[st]  # exhausted unit: the next field of the same type starts a new unit
                        else:
                            break
                    p = rnd.randint(1, min(left, rnd.choice([3, 8, 17, 64])))
                    fields.append(bitfield(f"f{n}", st, p))
                    n += 1
                    left -= p
            elif k < 0.8:
                fields.append({"name": f"f{n}", "ty": ("sc", rnd.choice(["uint8", "uint16", "uint32", "char", "int64", "uint24"])), "bits": None})
                n += 1
            elif k < 0.9:
                fields.append({"name": f"f{n}", "ty": ("arr", ("sc", rnd.choice(["char", "uint8", "uint16"])), ("null",)), "bits": None})
                n += 1
            else:
                fields.append({"name": f"f{n}", "ty": ("struct", [bitfield(f"g{n}", "uint8", 3), bitfield(f"h{n}", "uint8", 5)]), "bits": None})
                n += 1
        if any(f["bits"] for f in fields):
            trees.append(("struct", fields))
    return trees


def straddles():
    out = []
    for st, w in (("uint8", 8), ("uint16", 16), ("int32", 32), ("E8", 8)):
        for a in (1, w // 2, w - 1):
            out.append(("struct", [bitfield("a", st, a), bitfield("b", st, w - a + 1)]))
        out.append(("struct", [bitfield("a", st, w + 1)]))
    return out


def ref_parse(tree, data, cfg):
    try:
        rv, rend, rmask = refimpl.parse(tree, data, 0, cfg)
        return ("ok", rv, rend), rmask
    except refimpl.Short:
        return ("err", "EOFError"), None
    except refimpl.Bad:
        return ("err", "Bad"), None


def check_input(eng, res, L, tree, cfg, data, sigs, *, dump=True, model=True):
    """The C06 predicate for one definition, one configuration (the one recorded in L / cfg: for a view on a shared
    instance the configuration in effect at this step) and one input: the parsed bit-fields are the slices of the unit that
    the independent reference cuts out for cfg.endian, each in [0, 2^bits), and dumps is the exact inverse.  -> the parsed
    object, or None when the input was not parsed or the reading half failed."""
    T = L.T
    want, obj = real_parse(T, data)
    ref, rmask = ref_parse(tree, data, cfg)
    cd = eng.case_data(L, data=data)
    ok = None
    if want[0] == "ok":
        if ref[0] != "ok" or not impl.same_val(want[1], ref[1]) or want[2] != ref[2]:
            eng.report(f"parsed {str(want[1])[:200]} consuming {want[2]}; bit-slicing reference gives {str(ref)[:200]}", cd, sigs)
            return None
        ok = obj
        # each value in [0, 2^bits)
        for f, rf in zip(tree[1], T.__fields__):
            if f["bits"]:
                v = int(getattr(obj, rf._name))
                if not (0 <= v < (1 << f["bits"])):
                    eng.report(f"bit-field {rf._name} : {f['bits']} has value {v}", cd, sigs)
        if dump:
            # writing is the inverse: dumps reproduces the input at every data bit, zero elsewhere
            d = impl.dump(T, obj)
            if d[0] != "ok":
                f3 = signed_bit_units(tree)
                eng.report(f"dumping the parsed value raises {d[1]}", cd, sigs + (["F3"] if f3 else []))
            else:
                padded = data[: want[2]] + bytes(max(0, want[2] - len(data)))
                exp = bytes(b & m for b, m in zip(padded, rmask))
                if d[1] != exp:
                    eng.report(f"dumps gives {d[1].hex()}, the data bits of the input are {exp.hex()}", cd, sigs)
            if model and "F23" not in sigs:
                eng.model_write(L, want[1], d, "bit-field write")
    elif ref[0] == "ok":
        eng.report(f"parse raises {want[1]} where the reference parses {str(ref[1])[:200]}", cd, sigs)
    if model and "F23" not in sigs and not L.compiled:
        eng.model_read(L, data, 0, want, "bit-field read")
    return ok


def check_carried(eng, res, L, tree, cfg, obj, sigs):
    """writing is the inverse of reading, for a value that exists already (parsed before `cs.endian` was switched): dumped
    now, the bytes must be those from which the reference for the byte order in effect NOW reads the same value back, and
    so must the real reader."""
    T = L.T
    v = impl.canon(obj)
    cd = eng.case_data(L, value=str(v)[:400])
    d = impl.dump(T, obj)
    if d[0] != "ok":
        eng.report(f"a value parsed before the endianness switch cannot be dumped after it: {d[1]}", cd,
                   sigs + (["F3"] if signed_bit_units(tree) else []))
        return
    cd["dumped"] = d[1].hex()
    ref, rmask = ref_parse(tree, d[1], cfg)
    if ref[0] != "ok" or not impl.same_val(v, ref[1]) or ref[2] != len(d[1]):
        eng.report(f"carried-over value {str(v)[:200]} is dumped as {d[1].hex()}, from which the bit-slicing reference reads {str(ref)[:200]}", cd, sigs)
        return
    if any(b & ~m & 0xFF for b, m in zip(d[1], rmask)):
        eng.report(f"carried-over value {str(v)[:200]} is dumped as {d[1].hex()} with non-zero bits outside every field", cd, sigs)
    back, _ = real_parse(T, d[1])
    if back[0] != "ok" or not impl.same_val(v, back[1]) or back[2] != len(d[1]):
        eng.report(f"carried-over value {str(v)[:200]}: parse(dumps(v)) = {str(back)[:200]}", cd, sigs)
    if "F23" not in sigs:
        eng.model_write(L, v, d, "bit-field write of a carried-over value")


def history_items(rnd, tier, trees):
    """definitions for the endianness histories: (1) the grid storage type x compiled x first endianness, each with a
    freshly drawn composition of the unit that is not symmetric under reversal (so that bit order matters), alone or
    followed by a second unit / a non-bit field; (2) samples of the generated mixed trees of family (b)."""
    out = []
    reps = 2 if tier == "quick" else 12
    for st, w in STORAGE.items():
        for compiled in (False, True):
            for start in "<>":
                for _ in range(reps):
                    for _try in range(20):
                        comp, left = [], w
                        n = rnd.randint(2, 5)
                        while left and len(comp) < n:
                            p = rnd.randint(1, max(1, min(left, w - 1)))
                            comp.append(p)
                            left -= p
                        if len(comp) >= 2 and (comp != comp[::-1] or left):
                            break
                    fields = [bitfield(f"b{i}", st, p) for i, p in enumerate(comp)]
                    r = rnd.random()
                    if r < 0.3:
                        fields.append({"name": "plain", "ty": ("sc", rnd.choice(["uint16", "uint32", "uint8"])), "bits": None})
                    if r < 0.5:
                        st2 = rnd.choice(list(STORAGE))
                        a = rnd.randint(1, STORAGE[st2] - 1)
                        fields += [bitfield("c0", st2, a), bitfield("c1", st2, rnd.randint(1, STORAGE[st2] - a))]
                    out.append((start, [{"tree": ("struct", fields), "compiled": compiled, "align": rnd.random() < 0.35}]))
    mixed = [t for t in trees if sum(1 for f in t[1] if f["bits"]) >= 2]
    for _ in range(100 if tier == "quick" else 2500):
        items = [{"tree": rnd.choice(mixed), "compiled": rnd.random() < 0.6, "align": rnd.random() < 0.35} for _ in range(rnd.choice([1, 1, 2, 3]))]
        out.append((rnd.choice("<>"), items))
    return out


def endian_histories(eng, res, rnd, tier, trees):
    """(d) the predicates across histories on one instance in which `cs.endian` is switched after load / after a first parse /
    after a first parse and dump, both directions and back, compiled and interpreted, every storage type"""
    for start, items in history_items(rnd, tier, trees):
        info = {}

        def prep(k, L):
            if k not in info:
                tree, align = items[k]["tree"], items[k]["align"]
                cfg0 = refimpl.Cfg("<", align, "uint64", impl.CONSTS)
                try:
                    size = refimpl.struct_layout(tree[1], cfg0)["size"] or 24
                except refimpl.Bad:
                    size = 24
                info[k] = {"size": size, "sigs": ["F23"] if align and small_unit_bits(tree) else [], "nbits": sum(1 for f in tree[1] if f["bits"]),
                           "st": tree[1][0]["ty"][1] if tree[1][0]["bits"] else "mixed", "real": bool(getattr(L.T, "__compiled__", False))}
            return info[k]

        def inputs_for(k, L):
            n = prep(k, L)["size"] + 4
            return [rnd.choice([b"\x80", b"\x01", b"\xa5", b"\xff"]) * n] * (rnd.random() < 0.4) + [rand_bytes(rnd, n) for _ in range(2)]

        def on_input(k, L, data, i, dump):
            it, inf = items[k], prep(k, L)
            cfg = refimpl.Cfg(L.endian, it["align"], "uint64", impl.CONSTS)
            res.count(("hist", L.text, start, i, L.endian, it["align"], it["compiled"], dump, data), inf["nbits"] >= 2)
            res.feat("history:endian:" + ("after-switch" if i else "first-epoch") + (":compiled" if inf["real"] else ":interpreted") +
                     ("" if dump else ":parse-only"))
            if i:
                res.feat(f"history:endian:after-switch:storage:{inf['st']}:{'compiled' if inf['real'] else 'interpreted'}")
            return check_input(eng, res, L, it["tree"], cfg, data, inf["sigs"], dump=dump, model=i > 0)

        def on_carried(k, L, obj, i):
            it, inf = items[k], prep(k, L)
            cfg = refimpl.Cfg(L.endian, it["align"], "uint64", impl.CONSTS)
            res.count(("hist-carried", L.text, start, i, L.endian, it["align"], it["compiled"], repr(impl.canon(obj))), inf["nbits"] >= 2)
            res.feat("history:endian:carried-value" + (":compiled" if inf["real"] else ":interpreted"))
            check_carried(eng, res, L, it["tree"], cfg, obj, inf["sigs"])

        sess, views, firsts = t1_hist.endian_history(rnd, items, start=start, inputs_for=inputs_for, on_input=on_input, on_carried=on_carried)
        res.feat("history:endian:instances")
        for v, f in zip(views, firsts):
            if v is not None:
                res.feat(f"history:endian:between load and next switch:{f}")
        if sum(1 for v in views if v is not None) >= 2:
            res.feat("history:endian:instances with several definitions")
        if len(eng.lines) > 5000:
            eng.flush()


def run(env) -> Result:
    res = Result()
    res.rule = ("(a) every composition of an 8-bit unit over uint8/int8/char/enum storage, compositions of 16-bit units, sampled compositions of "
                "24/32/48/64-bit units; (b) seeded sequences of runs with unit switches, exhausted units, non-bit and dynamic fields, nested "
                "bit-field structs; (c) straddling definitions must be rejected. Each under {<,>} x {packed, aligned} x {interpreted, compiled}, "
                "unit contents: all 256 values for 8-bit units, boundary + random otherwise. Compared: real parse/dumps vs independent bit-slicing "
                "reference vs Lean model. (d) endianness histories on one instance: cs.endian switched after load / after a first parse / after a "
                "first parse+dump, both directions and back, per storage type x compiled x first endianness plus mixed trees, 1-3 definitions per "
                "instance loaded in different epochs; the same predicates per step against the reference for the byte order in effect, and values "
                "parsed before a switch dumped after it. (e) operation sequences (read/write/flush/reset, 2-25 calls, widths 0-64 that fit / exhaust / "
                "straddle, 16 storage types, endian codes < > ! @ =) on the real BitBuffer object over a BytesIO: after every call result or "
                "exception class, _remaining, _type, tell() and the canonical buffer content against the Lean object model, at the end the stream "
                "content; reads against plain bit slicing of the unit, clean write runs + flush read back by a fresh BitBuffer. "
                "(f) call forms: structures of ONE bit-field (every storage type incl. char/int8/enum/flag/odd widths/uint128 and typedef aliases, "
                "widths 1..unit) and of 2-6 bit-fields only (one or several units), {<,>} x {packed, aligned} x {interpreted, compiled}, inputs of "
                "exactly the structure's size, longer, and one short: all 14 entry points T(bytes|bytearray|memoryview|BytesIO), "
                "T.read(buffer|stream|stream not at 0), T.reads(buffer), cs.read(name, buffer|stream) must succeed, give integers (enum members) "
                "in [0, 2^bits) equal to an independent bit-slicing reference, identical objects, stream left behind the units; the object of "
                "every form dumps (dumps/T.dumps/T.write/v.write) to the input's data bits and parses back; T(values that fit).dumps() = the "
                "reference's composition, read back through every form; short input: all forms fail alike; T(bytes) form vs Lean model. "
                "distinct = (definition, config, input) resp. (sequence, endian, stream); non-trivial = >= 2 bit-fields resp. >= 3 bit calls or 2 types "
                "resp. (f) every (definition, config, input): 14 call forms. "
                "(g) construction routes: seeded declarations (bit-field runs over 31 storage type names incl. enum/flag/char/signed/odd widths/"
                "aliases, exhausted and shared units, plain members, fixed and null-terminated arrays, nested structures with bit-fields) x 2 (quick) / "
                "4 (thorough) of {<,>} x {packed, aligned} x {interpreted, compiled}, each built by cs.load, cs.loadfile, the legacy parser (packed, "
                "single-word type names, no nesting), Field objects + _make_struct (+ compiler.compile), add_field(name, type, bits) one by one on a "
                "base of the first k fields (loaded or made; bits positional/keyword), add_field in chunks inside/outside start_update() blocks - one "
                "cstruct instance per route: names, bits, size, alignment, unit offsets = independent reference (refimpl) = the cs.load class; "
                "4-7 inputs per class through a drawn call form (T(stream|bytes|memoryview), T.read(stream|bytearray), T.reads): values = "
                "reference, each bit-field an int / enum member in [0, 2^bits), consumed size, dumps = data bits of the input, T(**values).dumps() "
                "the same; read/write of API-built classes vs Lean model. distinct = (declaration, route with its parameters, config[, call form, input]). "
                "(h) aligned structures at stream positions: seeded align=True structures (bit-field runs sharing units of size 1/2/4/8 over plain/"
                "signed/enum/flag/alias storage, exhausted units, plain members, optional null-terminated array in front) x {<,>} x {interpreted, "
                "compiled}; 2 built values + 1-3 values parsed at a drawn position (= the module's own unit slices; aligned positions also vs Lean "
                "model) each written at every stream position 0..9 by v.write / T.write on BytesIO / a real file, appending or overwriting, read "
                "back at the same position by T.read / T(stream) / cs.read; the same structures as member N n / N n[2..3] of a packed or aligned "
                "outer structure behind 0..5 prefix bytes, followed by a plain member / outer bit-fields / nothing, dumps() or write at a drawn "
                "position: prefix untouched, every storage unit at start + layout offset = fields composed in endian-defined order, plain members "
                "in place, padding zero, nothing behind the end position changed, declared size at aligned starts, read back = written values each "
                "in [0, 2^bits); F43 territory (enum-typed continuation of a unit at a misaligned absolute position, members behind a misplaced "
                "aligned structure) classified. distinct = (definition[, outer], config, values, position, write form, read form)")
    eng = Engine(env, res, "C06")
    rnd = mkrng(env["seed"], "c06")
    tier = env["tier"]
    trees = make_trees(rnd, tier)
    for ti, tree in enumerate(trees):
        nbits = sum(1 for f in tree[1] if f["bits"])
        single8 = all(f["bits"] for f in tree[1]) and sum(f["bits"] for f in tree[1]) <= 8 and STORAGE.get(tree[1][0]["ty"][1], 99) == 8
        for endian, align, compiled in itertools.product("<>", (False, True), (False, True)):
            if tier == "quick" and not single8 and rnd.random() < 0.5:
                continue
            cfg = refimpl.Cfg(endian, align, "uint64", impl.CONSTS)
            sigs = []
            if align and small_unit_bits(tree):
                sigs.append("F23")
            L, err = load(tree, endian=endian, align=align, compiled=compiled)
            if L is None:
                try:
                    refimpl.struct_layout(tree[1], cfg)
                    eng.report(f"bit-field definition rejected: {type(err).__name__}: {err}", {"definition": defs.render_struct('T', tree), "align": align},
                               sigs + (["F6"] if bits_after_dynamic(tree, cfg) else []))
                except refimpl.Bad:
                    res.feat("straddle-rejected (enum storage shares its base type's unit)")
                continue
            T = L.T
            try:
                lay = refimpl.struct_layout(tree[1], cfg)
            except refimpl.Bad:
                eng.report("a straddling bit-field definition was accepted", eng.case_data(L), sigs)
                continue
            size = lay["size"] or 24
            if single8 and (tier == "thorough" or (not compiled and not align)):
                inputs = [bytes([b]) for b in range(256)]
            elif single8:
                inputs = [bytes([b]) for b in (0, 1, 0x7F, 0x80, 0xFF, 0xA5, rnd.randrange(256))]
            else:
                inputs = [bytes(size + 4), b"\xff" * (size + 4), bytes([0x80] * (size + 4)), bytes([0x01] * (size + 4))] + \
                         [rand_bytes(rnd, size + 4) for _ in range(3 if tier == "quick" else 12)]
            for data in inputs:
                res.count((L.text, endian, align, compiled, data), nbits >= 2)
                res.feat(f"storage:{tree[1][0]['ty'][1]}" if tree[1][0]["bits"] else "mixed")
                check_input(eng, res, L, tree, cfg, data, sigs)
        if len(eng.lines) > 5000:
            eng.flush()
    # (c2) the other spellings of the byte order: '!' is big endian, '@' and '=' are the host's order; unit, bit order and dump must be
    #      those of the canonical spelling (found missing for '@' / '=': fixed F57)
    import sys as _sys
    srnd = mkrng(env["seed"], "c06-spellings")
    host = "<" if _sys.byteorder == "little" else ">"
    pool = [t for t in trees if any(f["bits"] for f in t[1])]
    srnd.shuffle(pool)
    for tree in pool[: (40 if tier == "quick" else 600)]:
        spelling, canonical = srnd.choice([("@", host), ("=", host), ("!", ">")])
        align, compiled = srnd.random() < 0.5, srnd.random() < 0.5
        La, ea = load(tree, endian=spelling, align=align, compiled=compiled)
        Lc, ec = load(tree, endian=canonical, align=align, compiled=compiled)
        if La is None or Lc is None:
            if (La is None) != (Lc is None):
                eng.report(f"a bit-field definition loads under endian {canonical!r} but not under {spelling!r} (or the reverse): {ea or ec}",
                           {"definition": defs.render_struct('T', tree), "align": align, "compiled": compiled}, [])
            continue
        size = (Lc.T.size or 24) + 4
        for data in [b"\xff" * size, bytes([0x80] * size), bytes([0x01] * size)] + [rand_bytes(srnd, size) for _ in range(3)]:
            res.count(("spelling", La.text, spelling, align, compiled, data), True)
            res.feat(f"endian-spelling:{spelling}")
            ra, rc = real_parse(La.T, data, 0)[0], real_parse(Lc.T, data, 0)[0]
            cd = {"definition": La.text, "endian": spelling, "canonical": canonical, "align": align, "compiled": compiled, "data": data.hex()}
            if ra[0] != rc[0] or (ra[0] == "ok" and (not impl.same_val(ra[1], rc[1]) or ra[2] != rc[2])):
                eng.report(f"bit-fields under endian {spelling!r} parse to {str(ra)[:160]}, under {canonical!r} (the same byte order) to {str(rc)[:160]}", cd, [])
                continue
            if ra[0] == "ok":
                try:
                    da, dcn = La.T(data).dumps(), Lc.T(data).dumps()
                except Exception as e:  # noqa: BLE001
                    eng.report(f"a value parsed under endian {spelling!r} cannot be dumped: {type(e).__name__}: {e}", cd, [])
                    continue
                if da != dcn:
                    eng.report(f"bit-fields under endian {spelling!r} dump to {da.hex()}, under {canonical!r} to {dcn.hex()}: writing is not the inverse of reading", cd, [])
    # (d) endianness histories on one instance
    endian_histories(eng, res, rnd, tier, trees)
    eng.flush()
    # (c) straddles are rejected at definition time, by the code and by the model
    for tree in straddles():
        for align in (False, True):
            L, err = load(tree, endian="<", align=align, compiled=False)
            res.count(("straddle", defs.render_struct("T", tree), align))
            res.feat("straddle")
            if L is not None:
                eng.report("a bit-field that straddles its storage unit was accepted", eng.case_data(L), [])
            else:
                Lfake = type("X", (), {})()
    eng.flush()
    # (e) the class BitBuffer as an object: operation sequences on the real object against the Lean model and the bit-slicing reference
    v5_c06bb.run(env, eng, res, mkrng(env["seed"], "c06-bb"))
    # (f) call forms of bit-field-only structures (one bit-field in particular): every entry point into the reader, exact-size inputs
    v8_c06.run(env, eng, res, mkrng(env["seed"], "c06-callforms"))
    # (g) bit-fields declared through the API: the same declaration along every construction route
    v9_c06.run(env, eng, res, mkrng(env["seed"], "c06-api"))
    # (h) aligned bit-field structures written / read at every stream position 0..9 and nested in packed / aligned structures
    v10_c06.run(env, eng, res, mkrng(env["seed"], "c06-alignedpos"))
    res.sample({"definition": defs.render_struct("T", trees[0]), "inputs": "all 256 byte values"})
    res.sample({"definition": defs.render_struct("T", trees[-1])})
    return res


def replay(body) -> int:
    print("replay:", body.get("what"))
    if "bbops" in (body.get("case") or {}):
        return v5_c06bb.replay_case(body["case"])
    if "callforms" in (body.get("case") or {}):
        return v8_c06.replay_case(body["case"])
    if "apibits" in (body.get("case") or {}):
        return v9_c06.replay_case(body["case"])
    if "alignedpos" in (body.get("case") or {}):
        return v10_c06.replay_case(body["case"])
    print(body.get("case", {}).get("repro"), body.get("case", {}).get("data"))
    return 0
