"""C06 — bit-fields partition their storage unit exactly, in endian-defined order.

Enumerates width sequences over every storage type (unsigned, signed, enum, flag, char, odd widths), mixes them with
non-bit fields and dynamic fields, and compares, for every unit content tried:
  real parse / dumps  vs  the independent bit-slicing reference (refimpl)  vs  the Lean model.
"""
from __future__ import annotations

import itertools

from .. import defs, impl, refimpl
from ..common import Result, mkrng
from ..structprops import Engine, load, real_parse, bits_after_dynamic, small_unit_bits, signed_bit_units, rand_bytes

STORAGE = {"uint8": 8, "int8": 8, "char": 8, "E8": 8, "uint16": 16, "int16": 16, "F16": 16, "uint24": 24, "int24": 24, "uint32": 32, "int32": 32,
           "E32": 32, "uint64": 64, "int64": 64, "uint48": 48}


def compositions(total, maxparts):
    """all ways to write numbers <= total as ordered sums with at most maxparts parts (each part >= 1, sum <= total)"""
    out = []

    def rec(prefix, left):
        if prefix:
            out.append(list(prefix))
        if len(prefix) == maxparts:
            return
        for p in range(1, left + 1):
            rec(prefix + [p], left - p)
    rec([], total)
    return out


def bitfield(name, st, b):
    ty = ("enum", st) if st in defs.ENUMS else ("sc", st)
    return {"name": name, "ty": ty, "bits": b}


def make_trees(rnd, tier):
    trees = []
    # (a) one unit, every composition of the width (8-bit exhaustively; wider units by sampling compositions)
    for st in ("uint8", "int8", "char", "E8"):
        comps8 = compositions(8, 8 if tier == "thorough" else 3)
        if tier == "quick":
            comps8 = rnd.sample(comps8, 24)
        for comp in comps8:
            trees.append(("struct", [bitfield(f"b{i}", st, w) for i, w in enumerate(comp)]))
    for st in ("uint16", "int16", "F16"):
        comps = compositions(16, 3)
        if tier == "quick":
            comps = rnd.sample(comps, 60)
        for comp in comps:
            trees.append(("struct", [bitfield(f"b{i}", st, w) for i, w in enumerate(comp)]))
    for st in ("uint24", "int24", "uint32", "int32", "E32", "uint64", "int64", "uint48"):
        w = STORAGE[st]
        for _ in range(8 if tier == "quick" else 80):
            comp, left = [], w
            while left and len(comp) < rnd.randint(1, 6):
                p = rnd.randint(1, left)
                comp.append(p)
                left -= p
            trees.append(("struct", [bitfield(f"b{i}", st, p) for i, p in enumerate(comp)]))
    # (b) unit switches: several runs with different storage types, non-bit fields and dynamic fields in between
    for _ in range(150 if tier == "quick" else 3000):
        fields = []
        n = 0
        for _run in range(rnd.randint(1, 4)):
            k = rnd.random()
            if k < 0.6:
                st = rnd.choice(list(STORAGE))
                left = STORAGE[st]
                for _ in range(rnd.randint(1, 5)):
                    if not left:
                        if rnd.random() < 0.5:
                            left = STORAGE[st]  # exhausted unit: the next field of the same type starts a new unit
                        else:
                            break
                    p = rnd.randint(1, min(left, rnd.choice([3, 8, 17, 64])))
                    fields.append(bitfield(f"f{n}", st, p))
                    n += 1
                    left -= p
            elif k < 0.8:
                fields.append({"name": f"f{n}", "ty": ("sc", rnd.choice(["uint8", "uint16", "uint32", "char", "int64", "uint24"])), "bits": None})
                n += 1
            elif k < 0.9:
                fields.append({"name": f"f{n}", "ty": ("arr", ("sc", rnd.choice(["char", "uint8", "uint16"])), ("null",)), "bits": None})
                n += 1
            else:
                fields.append({"name": f"f{n}", "ty": ("struct", [bitfield(f"g{n}", "uint8", 3), bitfield(f"h{n}", "uint8", 5)]), "bits": None})
                n += 1
        if any(f["bits"] for f in fields):
            trees.append(("struct", fields))
    return trees


def straddles():
    out = []
    for st, w in (("uint8", 8), ("uint16", 16), ("int32", 32), ("E8", 8)):
        for a in (1, w // 2, w - 1):
            out.append(("struct", [bitfield("a", st, a), bitfield("b", st, w - a + 1)]))
        out.append(("struct", [bitfield("a", st, w + 1)]))
    return out


def run(env) -> Result:
    res = Result()
    res.rule = ("(a) every composition of an 8-bit unit over uint8/int8/char/enum storage, compositions of 16-bit units, sampled compositions of "
                "24/32/48/64-bit units; (b) seeded sequences of runs with unit switches, exhausted units, non-bit and dynamic fields, nested "
                "bit-field structs; (c) straddling definitions must be rejected. Each under {<,>} x {packed, aligned} x {interpreted, compiled}, "
                "unit contents: all 256 values for 8-bit units, boundary + random otherwise. Compared: real parse/dumps vs independent bit-slicing "
                "reference vs Lean model. distinct = (definition, config, input); non-trivial = >= 2 bit-fields")
    eng = Engine(env, res, "C06")
    rnd = mkrng(env["seed"], "c06")
    tier = env["tier"]
    trees = make_trees(rnd, tier)
    for ti, tree in enumerate(trees):
        nbits = sum(1 for f in tree[1] if f["bits"])
        single8 = all(f["bits"] for f in tree[1]) and sum(f["bits"] for f in tree[1]) <= 8 and STORAGE.get(tree[1][0]["ty"][1], 99) == 8
        for endian, align, compiled in itertools.product("<>", (False, True), (False, True)):
            if tier == "quick" and not single8 and rnd.random() < 0.5:
                continue
            cfg = refimpl.Cfg(endian, align, "uint64", impl.CONSTS)
            sigs = []
            if align and small_unit_bits(tree):
                sigs.append("F23")
            L, err = load(tree, endian=endian, align=align, compiled=compiled)
            if L is None:
                try:
                    refimpl.struct_layout(tree[1], cfg)
                    eng.report(f"bit-field definition rejected: {type(err).__name__}: {err}", {"definition": defs.render_struct('T', tree), "align": align},
                               sigs + (["F6"] if bits_after_dynamic(tree, cfg) else []))
                except refimpl.Bad:
                    res.feat("straddle-rejected (enum storage shares its base type's unit)")
                continue
            T = L.T
            try:
                lay = refimpl.struct_layout(tree[1], cfg)
            except refimpl.Bad:
                eng.report("a straddling bit-field definition was accepted", eng.case_data(L), sigs)
                continue
            size = lay["size"] or 24
            if single8 and (tier == "thorough" or (not compiled and not align)):
                inputs = [bytes([b]) for b in range(256)]
            elif single8:
                inputs = [bytes([b]) for b in (0, 1, 0x7F, 0x80, 0xFF, 0xA5, rnd.randrange(256))]
            else:
                inputs = [bytes(size + 4), b"\xff" * (size + 4), bytes([0x80] * (size + 4)), bytes([0x01] * (size + 4))] + \
                         [rand_bytes(rnd, size + 4) for _ in range(3 if tier == "quick" else 12)]
            for data in inputs:
                res.count((L.text, endian, align, compiled, data), nbits >= 2)
                res.feat(f"storage:{tree[1][0]['ty'][1]}" if tree[1][0]["bits"] else "mixed")
                want, obj = real_parse(T, data)
                # reference
                try:
                    rv, rend, rmask = refimpl.parse(tree, data, 0, cfg)
                    ref = ("ok", rv, rend)
                except refimpl.Short:
                    ref = ("err", "EOFError")
                except refimpl.Bad:
                    ref = ("err", "Bad")
                cd = eng.case_data(L, data=data)
                if want[0] == "ok":
                    if ref[0] != "ok" or not impl.same_val(want[1], ref[1]) or want[2] != ref[2]:
                        eng.report(f"parsed {str(want[1])[:200]} consuming {want[2]}; bit-slicing reference gives {str(ref)[:200]}", cd, sigs)
                        continue
                    # each value in [0, 2^bits)
                    for f, rf in zip(tree[1], T.__fields__):
                        if f["bits"]:
                            v = int(getattr(obj, rf._name))
                            if not (0 <= v < (1 << f["bits"])):
                                eng.report(f"bit-field {rf._name} : {f['bits']} has value {v}", cd, sigs)
                    # writing is the inverse: dumps reproduces the input at every data bit, zero elsewhere
                    d = impl.dump(T, obj)
                    if d[0] != "ok":
                        f3 = signed_bit_units(tree)
                        eng.report(f"dumping the parsed value raises {d[1]}", cd, sigs + (["F3"] if f3 else []))
                    else:
                        padded = data[: want[2]] + bytes(max(0, want[2] - len(data)))
                        exp = bytes(b & m for b, m in zip(padded, rmask))
                        if d[1] != exp:
                            eng.report(f"dumps gives {d[1].hex()}, the data bits of the input are {exp.hex()}", cd, sigs)
                    if "F23" not in sigs:
                        eng.model_write(L, want[1], d, "bit-field write")
                elif ref[0] == "ok":
                    eng.report(f"parse raises {want[1]} where the reference parses {str(ref[1])[:200]}", cd, sigs)
                if "F23" not in sigs and not compiled:
                    eng.model_read(L, data, 0, want, "bit-field read")
        if len(eng.lines) > 5000:
            eng.flush()
    # (c) straddles are rejected at definition time, by the code and by the model
    for tree in straddles():
        for align in (False, True):
            L, err = load(tree, endian="<", align=align, compiled=False)
            res.count(("straddle", defs.render_struct("T", tree), align))
            res.feat("straddle")
            if L is not None:
                eng.report("a bit-field that straddles its storage unit was accepted", eng.case_data(L), [])
            else:
                Lfake = type("X", (), {})()
    eng.flush()
    res.sample({"definition": defs.render_struct("T", trees[0]), "inputs": "all 256 byte values"})
    res.sample({"definition": defs.render_struct("T", trees[-1])})
    return res


def replay(body) -> int:
    print("replay:", body.get("what"))
    print(body.get("case", {}).get("repro"), body.get("case", {}).get("data"))
    return 0
