"""C10 — expressions evaluate with C precedence and associativity, repeatably.

Three comparisons per case:
  spec   : an independent tree evaluator (Python ints) on the generated parse tree          -> property oracle
  real   : dissect.cstruct.expression.Expression(cs, text).evaluate(ctx), twice              -> implementation
  model  : the Lean driver's `expr` command (tokenizer, minus rewriting, shunting-yard)       -> correspondence

History probe (kind "history"): ONE Expression object is evaluated 2..5 times (up to 8 in the thorough tier) with a
varying context -- None, {}, contexts that bind (shadow) some or all identifiers, the same context again -- and with
`cs.consts` redefined between evaluations; the constants bind every identifier at the start, so context-free
evaluations succeed (about a fifth of the histories leave one identifier unbound at first, so that the history starts
with a failed evaluation).  After every step the value is compared with what a fresh Expression object gives for that
context and those constants, and with the independent tree evaluator.  The first two steps of every history are also
sent to the model's `expr` command (a None context is sent as the empty one).

Constants defined through the parser (kinds "defconst-table" / "defconst-random", harness/v9_c10.py, own PRNG stream): "identifiers
resolve ... then in the constants" for constants that come out of LOADED TEXT.  `#define NAME body` with every C literal spelling
(decimal, 0x / 0X, leading-zero octal, 0b / 0B; all 23 u / l suffix spellings; negated, complemented, parenthesised - an exhaustive
form x suffix x wrapper table) and with random expressions over literals, sizeof and earlier constants; the constants are then observed
through cs.NAME, Expression(cs, 'NAME * 2 + 1') and random usage trees (contexts None / {} / unrelated / shadowing), array dimensions
of structures (size and parse), enum / flag member values (named and anonymous), later #defines and `sizeof(T)`; loaded through
load() in one text / one call per definition / split texts, loadfile(), the legacy parser (restricted domain), LF / CRLF, comments and
blanks after the body, compiled / interpreted, packed / aligned, either endianness.  Every value is compared with the C value computed
in the harness, with what the evaluator gives the same text on a cstruct whose constants were set through the API, and with the model.

Identifiers bound to every VALUE CLASS (kinds "valueclass-context" / "valueclass-loaded" / "valueclass-fields", harness/v10_c10.py, own
PRNG stream): the bindings are not plain ints but what the library itself puts there - cstruct integer instances of every width and alias,
uleb128 / ileb128 values, enum members and non-member enum values, FLAG values (IntFlag subclasses; declared bits drawn at random,
undeclared bits set), pointers, bit-field values, Python bools, members of anonymous enums / flags in cs.consts - reaching the evaluator
through the context dict, cs.consts set through the API, constants defined by loaded text (#define / enum member / array dimension over
anonymous members; load() whole / per definition, loadfile(), LF / CRLF) and the field context of a parsed structure (typed earlier
fields; T(buf) / reads / read / cs.read from bytes / bytearray / memoryview / BytesIO / real file; compiled x interpreted, endianness
spellings < > ! @ =, packed / aligned, nested in an outer structure), with one-object evaluation histories.  Expressions are total trees
heavy in unary ~ / -, | ^ & with negated literals, shifts, / %; the oracle is the C value on the integers the bindings stand for.
"""
from __future__ import annotations

import itertools
import random

from .. import common, v9_c10, v10_c10
from ..common import A, Case, Result, mkrng, parse_sexp, run_driver, sx

BIN = {
    "|": (0, lambda a, b: a | b), "^": (1, lambda a, b: a ^ b), "&": (2, lambda a, b: a & b),
    "<<": (3, lambda a, b: a << b), ">>": (3, lambda a, b: a >> b),
    "+": (4, lambda a, b: a + b), "-": (4, lambda a, b: a - b),
    "*": (5, lambda a, b: a * b), "/": (5, None), "%": (5, None),
}
IDENTS = ["A", "B", "n", "x1", "_y", "u", "l", "sz", "sizeofx", "U", "b1"]
TYPES = {"uint8": 1, "uint32": 4, "int128": 16, "S": 12, "wchar": 2}
LIT_FORMS = ["d", "x", "X", "o", "b", "B"]
SUFFIXES = ["", "", "", "u", "U", "l", "L", "ul", "UL", "ull", "ll", "LL", "lu", "llu", "LLU", "uLL"]


class OutOfDomain(Exception):
    """the tree leaves the domain in which the property prescribes a value (division by zero, negative operand of / or %,
    negative or huge shift count)"""


def cdiv(a, b):
    if b == 0 or a < 0 or b < 0:
        raise OutOfDomain
    return a // b


def cmod(a, b):
    if b == 0 or a < 0 or b < 0:
        raise OutOfDomain
    return a % b


def ev(t, env):
    k = t[0]
    if k == "num":
        return t[1]
    if k == "id":
        return env[t[1]]
    if k == "sizeof":
        return TYPES[t[1]]
    if k == "un":
        v = ev(t[2], env)
        return -v if t[1] == "-" else ~v
    a, b = ev(t[2], env), ev(t[3], env)
    op = t[1]
    if op in ("<<", ">>"):
        if b < 0 or b > 256:
            raise OutOfDomain
    if op == "/":
        return cdiv(a, b)
    if op == "%":
        return cmod(a, b)
    return BIN[op][1](a, b)



class TooBig(Exception):
    """evaluating the text on the real library would build an astronomically large integer (a left shift by more than 4096
    bits, which is also outside the modelled domain): the case is not run"""


def guard(t, env):
    """Python-semantics evaluation in the library's order, refusing oversized shifts; any arithmetic error ends it quietly
    (the library stops at the same point)"""
    k = t[0]
    if k == "num":
        return t[1]
    if k == "id":
        return env[t[1]]
    if k == "sizeof":
        return TYPES[t[1]]
    if k == "un":
        v = guard(t[2], env)
        return -v if t[1] == "-" else ~v
    a, b = guard(t[2], env), guard(t[3], env)
    op = t[1]
    if op == "<<" and (b > 4096 or (b >= 0 and a.bit_length() + b > 1 << 20)):
        raise TooBig
    if op == "*" and a.bit_length() + b.bit_length() > 1 << 20:
        raise TooBig
    if op in ("/", "%"):
        return a // b if op == "/" else a % b
    return BIN[op][1](a, b)


def safe_to_run(t, envs):
    for e in envs:
        try:
            guard(t, e)
        except TooBig:
            return False
        except Exception:  # noqa: BLE001 - ZeroDivisionError, negative shift count, unbound identifier: the library raises there too
            pass
    return True


def lvl(t):
    return 7 if t[0] in ("num", "id", "sizeof") else 6 if t[0] == "un" else BIN[t[1]][0]


def lit(rnd, v, form, suffix):
    if form == "d":
        s = str(v)
    elif form in "xX":
        s = "0" + form + ("%x" % v if rnd.random() < 0.5 else "%X" % v)
    elif form == "o":
        s = "0" + ("%o" % v) if v else "0"
    else:
        s = "0" + form + bin(v)[2:]
    return s + suffix


SMALL_VALUES = [0, 1, 2, 3, 4, 5, 7, 8, 9, 10, 15, 16, 63, 64, 100, 255, 256, 4095]


def gen_tree(rnd: random.Random, d: int, idents, values=None):
    k = rnd.random()
    if d == 0 or k < 0.28:
        r = rnd.random()
        if r < 0.25 and idents:
            return ("id", rnd.choice(idents))
        if r < 0.32:
            return ("sizeof", rnd.choice(list(TYPES)))
        v = rnd.choice(values or [0, 1, 2, 3, 4, 5, 7, 8, 9, 10, 15, 16, 63, 64, 100, 255, 256, 4095, 65535, 2**31, 2**64 - 1, rnd.randrange(1 << 20)])
        return ("num", v, rnd.choice(LIT_FORMS), rnd.choice(SUFFIXES))
    if k < 0.45:
        return ("un", rnd.choice("-~"), gen_tree(rnd, d - 1, idents, values))
    op = rnd.choice(list(BIN))
    # history mode (values given): the count of a left shift is a leaf, so that no evaluation builds a gigabyte-sized integer
    rd = 0 if (values is not None and op == "<<") else d - 1
    return ("bin", op, gen_tree(rnd, d - 1, idents, values), gen_tree(rnd, rd, idents, values))


def render(rnd, t, need, extra_paren=0.1, spaces=True):
    sp = (lambda: rnd.choice(["", " ", "  ", "\t"])) if spaces else (lambda: "")
    k = t[0]
    if k == "num":
        s = lit(rnd, t[1], t[2], t[3])
    elif k == "id":
        s = t[1]
    elif k == "sizeof":
        s = "sizeof" + sp() + "(" + sp() + t[1] + sp() + ")"
    elif k == "un":
        s = t[1] + sp() + render(rnd, t[2], 6, extra_paren, spaces)
    else:
        l = BIN[t[1]][0]
        left = render(rnd, t[2], l, extra_paren, spaces)
        right = render(rnd, t[3], l + 1, extra_paren, spaces)
        mid = sp() + t[1] + sp()
        s = left + mid + right
    if lvl(t) < need or rnd.random() < extra_paren:
        s = "(" + sp() + s + sp() + ")"
    return s


def idents_of(t, acc):
    if t[0] == "id":
        acc.add(t[1])
    elif t[0] == "un":
        idents_of(t[2], acc)
    elif t[0] == "bin":
        idents_of(t[2], acc)
        idents_of(t[3], acc)
    return acc


def has_minus(t):
    if t[0] == "un":
        return t[1] == "-" or has_minus(t[2])
    if t[0] == "bin":
        return t[1] == "-" or has_minus(t[2]) or has_minus(t[3])
    return False


# ------------------------------------------------------------------------------------------------ real library

class Real:
    def __init__(self):
        dc = common.import_repo()
        self.dc = dc
        self.cs = dc.cstruct()
        self.cs.load("struct S { uint32 a; uint64 b; }; struct dyn { uint8 k; uint8 d[k]; };")
        from dissect.cstruct.expression import Expression

        self.Expression = Expression

    def fresh(self, text, consts):
        self.cs.consts = dict(consts)
        return self.Expression(self.cs, text)

    def eval2(self, text, ctx1, ctx2, consts):
        """-> (r1, r2, tokens_after) with r = ('ok', v) | ('err', cls)"""
        try:
            e = self.fresh(text, consts)
        except Exception as ex:  # noqa: BLE001
            return ("err", common.exc_class(ex)), None, None
        out = []
        for ctx in (ctx1, ctx2):
            try:
                out.append(("ok", int(e.evaluate(dict(ctx)))))
            except Exception as ex:  # noqa: BLE001
                out.append(("err", common.exc_class(ex)))
        return out[0], out[1], list(e.tokens)

    def eval_fresh(self, text, ctx, consts):
        try:
            return ("ok", int(self.fresh(text, consts).evaluate(dict(ctx))))
        except Exception as ex:  # noqa: BLE001
            return ("err", common.exc_class(ex))


def driver_line(text, ctx1, ctx2, consts):
    szs = [[A(k), v] for k, v in TYPES.items()] + [[A("dyn"), A("dynamic")]]
    return sx([A("expr"), text, [[A(k), v] for k, v in ctx1.items()], [[A(k), v] for k, v in consts.items()], szs,
               [[A(k), v] for k, v in ctx2.items()]])


def parse_driver(ans):
    s = parse_sexp(ans)
    if s[0] == "err":
        return ("err", str(s[1])), None, None
    if s[0] != "res":
        raise common.Infra(f"driver: {ans}")

    def r(x):
        return ("ok", int(x[1])) if x[0] == "ok" else ("err", str(x[1]))

    return r(s[1]), r(s[2]), [str(t) for t in s[3]]


# ------------------------------------------------------------------------------------------------ evaluation histories

HIST_VALUES = [0, 1, 2, 3, 5, 8, 13, 64, 255, 1000, -1, -7]


def gen_history_case(rnd: random.Random, tier: str):
    """-> (tree, text, steps); step = {"ctx": dict | None, "consts": dict} -- the constants in force at that step.
    The tree mentions at least one identifier."""
    for _ in range(30):
        idents = rnd.sample(IDENTS, rnd.randint(1, 3))
        t = gen_tree(rnd, rnd.randint(1, 4), idents, SMALL_VALUES)   # small literals: a history evaluates its text ~10 times
        if idents_of(t, set()):
            break
    else:
        t = ("bin", "+", ("bin", "*", ("id", "A"), ("num", 2, "d", "")), ("id", "B"))
    ids = sorted(idents_of(t, set()))
    text = render(rnd, t, 0, rnd.choice([0.0, 0.1, 0.3]))
    consts = {i: rnd.choice(HIST_VALUES) for i in ids}
    unbound = None
    if rnd.random() < 0.2:
        unbound = rnd.choice(ids)        # the context-free evaluation fails until the constant is defined / the context binds it
        del consts[unbound]
    n = rnd.randint(2, 5 if tier == "quick" else 8)
    first_empty = rnd.random() < 0.65
    steps, prev = [], None
    for k in range(n):
        if k and rnd.random() < 0.3:
            consts = dict(consts)
            r = rnd.random()
            i = rnd.choice(ids)
            if r < 0.7 or i not in consts:
                consts[i] = consts.get(i, 0) + rnd.choice([1, 3, 100, -2])   # a constant is redefined (or defined at last)
            elif len(consts) > 1 or unbound is not None:
                del consts[i]                                                # ... or undefined
        r = rnd.random()
        if k == 0 and first_empty:
            ctx = None if r < 0.5 else {}
        elif r < 0.12:
            ctx = None
        elif r < 0.24:
            ctx = {}
        elif r < 0.36 and prev is not None:
            ctx = None if prev is None else dict(prev)                       # the same context again
        elif r < 0.5:
            ctx = {i: rnd.choice(HIST_VALUES) for i in ids}                  # every identifier shadowed
        else:
            sub = rnd.sample(ids, rnd.randint(1, len(ids)))
            ctx = {i: consts.get(i, 0) + rnd.choice([1, 2, 7, -3]) for i in sub}   # some identifiers shadowed, differently from the constant
            if rnd.random() < 0.3:
                ctx["zz"] = 9                                                # a field the expression does not mention
        steps.append({"ctx": ctx, "consts": dict(consts)})
        prev = ctx
    return t, text, steps


def run_history(real, text, steps):
    """evaluate ONE Expression object along the history -> [(got, fresh)] with r = ('ok', v) | ('err', cls)"""
    out = []
    try:
        real.cs.consts = dict(steps[0]["consts"])
        shared = real.Expression(real.cs, text)
    except Exception as ex:  # noqa: BLE001
        return [(("err", common.exc_class(ex)), None)]
    for st in steps:
        ctx = None if st["ctx"] is None else dict(st["ctx"])
        try:
            real.cs.consts = dict(st["consts"])
            fresh = ("ok", int(real.Expression(real.cs, text).evaluate(None if ctx is None else dict(ctx))))
        except Exception as ex:  # noqa: BLE001
            fresh = ("err", common.exc_class(ex))
        try:
            real.cs.consts = dict(st["consts"])
            got = ("ok", int(shared.evaluate(ctx)))
        except Exception as ex:  # noqa: BLE001
            got = ("err", common.exc_class(ex))
        out.append((got, fresh))
    return out


def history_repro(text, steps):
    lines = ["from dissect.cstruct import cstruct; from dissect.cstruct.expression import Expression; cs=cstruct(); "
             "cs.load('struct S { uint32 a; uint64 b; };'); " + f"cs.consts={steps[0]['consts']!r}; e=Expression(cs,{text!r})"]
    for st in steps:
        lines.append(f"cs.consts={st['consts']!r}; print(e.evaluate({st['ctx']!r}), Expression(cs,{text!r}).evaluate({st['ctx']!r}))")
    return "; ".join(lines)


# ------------------------------------------------------------------------------------------------ findings

def sig_F2(case) -> bool:
    """expression mentions the identifier `u` and a `-` (the identifier collides with the internal unary-minus marker)"""
    return "u" in case.get("idents", ()) and case.get("has_minus", False)


SIGNATURES = {"F2": sig_F2}


def classify(case_data, findings):
    for f in findings:
        fn = SIGNATURES.get(f["id"])
        if fn and fn(case_data):
            return f["id"]
    return None


# ------------------------------------------------------------------------------------------------ run

def make_cases(env):
    tier, seed = env["tier"], env["seed"]
    rnd = mkrng(seed, "c10")
    cases = []
    # (a) every ordered pair of binary operators `a op1 b op2 c` and unary in front, small operands: table-directed
    vals = [("num", 7, "d", ""), ("num", 2, "d", ""), ("num", 3, "x", "")]
    for o1, o2 in itertools.product(BIN, BIN):
        for shape in range(2):
            if shape == 0:
                l1, l2 = BIN[o1][0], BIN[o2][0]
                t = ("bin", o2, ("bin", o1, vals[0], vals[1]), vals[2]) if l1 >= l2 else ("bin", o1, vals[0], ("bin", o2, vals[1], vals[2]))
            else:
                t = ("bin", o2, ("bin", o1, ("un", "-", vals[0]), ("un", "~", vals[1])), vals[2]) if BIN[o1][0] >= BIN[o2][0] else \
                    ("bin", o1, ("un", "-", vals[0]), ("bin", o2, ("un", "~", vals[1]), vals[2]))
            cases.append(("pairs", t, 0.0))
    # (b) every literal spelling
    for form in LIT_FORMS:
        for suf in sorted(set(SUFFIXES)):
            for v in (0, 1, 8, 9, 10, 255, 4096):
                cases.append(("literal", ("bin", "+", ("num", v, form, suf), ("num", 1, "d", "")), 0.0))
    # (c) random trees
    n = 1500 if tier == "quick" else 40000
    for _ in range(n):
        idents = rnd.sample(IDENTS, rnd.randint(0, 4))
        t = gen_tree(rnd, rnd.randint(1, 5), idents)
        cases.append(("random", t, rnd.choice([0.0, 0.1, 0.3])))
    if tier == "thorough":
        # (d) all trees of depth <= 2 over a small alphabet
        leaves = [("num", 5, "d", ""), ("id", "n"), ("num", 8, "o", "u")]
        d1 = list(leaves) + [("un", o, l) for o in "-~" for l in leaves[:2]]
        for o in BIN:
            for l, r in itertools.product(d1, d1):
                cases.append(("enum", ("bin", o, l, r), 0.0))
        d2 = [("bin", o, l, r) for o in BIN for l in leaves[:2] for r in leaves[:2]]
        for o in BIN:
            for l in d2:
                for r in leaves[:2]:
                    cases.append(("enum", ("bin", o, l, r), 0.0))
                    cases.append(("enum", ("bin", o, r, l), 0.0))
    return cases, rnd


MALFORMED_ALPHABET = ["1", "0x", "0b", "08", "0b12", "12ab", "1b", "(", ")", "+", "-", "*", "/", "%", "~", "<<", ">>", ">", "<", "sizeof",
                      "n", "u", " ", "\t", "$", "0x1g", "9l", "10lul", "sizeof(uint8)", "sizeof(dyn)", "sizeof(nope)", "sizeof(", "0", "00", "0o7", "1.", "=", "!"]


def run(env) -> Result:
    res = Result()
    res.rule = ("cases: (pairs) every ordered pair of binary operators with unary operands; (literal) every literal form x suffix; "
                "(random) seeded random trees of depth<=5 rendered with random blanks and redundant parentheses, identifiers from the context "
                "and the constants, sizeof(type); (malformed) random token soup. Each case: tree value (independent evaluator) vs real "
                "Expression.evaluate twice (second time with another context) vs a fresh object vs the Lean model. (history) one Expression "
                "object evaluated 2-5 (thorough: 2-8) times with contexts None / {} / shadowing some or all identifiers / repeated, and "
                "constants redefined, defined or undefined between the evaluations; every step vs a fresh object and vs the tree value. "
                "(defconst, harness/v9_c10.py) constants defined by loaded text: `#define NAME body` for every literal form x all 23 u/l suffix "
                "spellings x 12 sign / complement / parenthesis wrappers (table) and random expression bodies over literals, sizeof and earlier "
                "constants, plus structures with array dimensions over the constants, named / anonymous enums and flags with member values over "
                "them and usage expressions (NAME * 2 + 1, random trees; context None / {} / unrelated / shadowing); entry points load() whole / "
                "per definition / split, loadfile(), legacy parser (restricted), LF / CRLF, trailing comments, compiled x align x endianness; "
                "each constant, expression value, structure size + parse and enum member vs the C value computed in the harness, vs the "
                "evaluator on a cstruct with API-set constants, and vs the Lean model's evaluator. "
                "(valueclass, harness/v10_c10.py) identifiers bound to values of the library's classes instead of plain ints - cstruct ints of every "
                "width / alias, uleb128 / ileb128, enum members and non-member values, flag values (random declared bits, undeclared bits set), "
                "pointers, bit-field values, bools, anonymous enum / flag members - through the context dict, API-set cs.consts, constants from "
                "loaded text (#define, enum member values, array dimensions over anonymous members; load whole / per definition / loadfile) and "
                "the field context of parsed structures (typed earlier fields; call / reads / read / cs.read from bytes / bytearray / memoryview "
                "/ BytesIO / file; compiled x align x endianness spellings, nested); total expression trees heavy in ~, unary -, | ^ & with "
                "negative operands, shifts, / %; histories of 2-4 (thorough: 2-6) evaluations on one object; each value vs the C value on the "
                "integers the bindings stand for, vs a fresh object, and vs the Lean model's evaluator. "
                "distinct = by rendered text + bindings; non-trivial = at least one operator")
    real = Real()
    findings = env["findings"]
    cases, rnd = make_cases(env)
    lines, metas = [], []
    for kind, t, extra in cases:
        ids = sorted(idents_of(t, set()))
        allv = {i: rnd.choice([0, 1, 2, 3, 5, 8, 13, 64, 255, 1000, -1, -7]) for i in ids}
        # identifiers are split between the field context and the constants; context shadows constants
        ctx1 = {i: v for i, v in allv.items() if rnd.random() < 0.6}
        consts = {i: v for i, v in allv.items() if i not in ctx1 or rnd.random() < 0.3}
        for i in consts:
            if i in ctx1 and rnd.random() < 0.5:
                consts[i] = allv[i] + 100  # must be shadowed by the context
        ctx2 = {i: (v + rnd.choice([0, 1, 3])) for i, v in ctx1.items()}
        text = render(rnd, t, 0, extra)
        env1 = dict(consts); env1.update(ctx1)
        env2 = dict(consts); env2.update(ctx2)
        if not safe_to_run(t, (env1, env2)):
            res.feat("not-run: a left shift by more than 4096 bits (gigabyte-sized integer; outside the modelled domain)")
            continue
        try:
            want1 = ("ok", ev(t, env1))
        except OutOfDomain:
            want1 = None
        try:
            want2 = ("ok", ev(t, env2))
        except OutOfDomain:
            want2 = None
        lines.append(driver_line(text, ctx1, ctx2, consts))
        metas.append({"kind": kind, "text": text, "ctx1": ctx1, "ctx2": ctx2, "consts": consts, "want1": want1, "want2": want2,
                      "idents": ids, "has_minus": has_minus(t), "nontrivial": t[0] != "num"})
    # malformed stream
    nm = 600 if env["tier"] == "quick" else 8000
    for _ in range(nm):
        text = "".join(rnd.choice(MALFORMED_ALPHABET) + rnd.choice(["", "", " "]) for _ in range(rnd.randint(0, 7)))
        ctx1 = {"n": 3} if rnd.random() < 0.5 else {}
        lines.append(driver_line(text, ctx1, {}, {}))
        metas.append({"kind": "malformed", "text": text, "ctx1": ctx1, "ctx2": {}, "consts": {}, "want1": None, "want2": None,
                      "idents": [], "has_minus": "-" in text, "nontrivial": len(text) > 2})
    # evaluation histories on one object; the first two steps also go to the model (fresh object evaluated twice)
    nh = 500 if env["tier"] == "quick" else 8000
    for _ in range(nh):
        t, text, steps = gen_history_case(rnd, env["tier"])
        c0, c1 = steps[0]["ctx"] or {}, steps[1]["ctx"] or {}
        same_consts = steps[0]["consts"] == steps[1]["consts"]
        lines.append(driver_line(text, c0, c1 if same_consts else c0, steps[0]["consts"]))
        metas.append({"kind": "history", "text": text, "tree": t, "steps": steps, "same_consts": same_consts, "ctx1": c0, "ctx2": c1,
                      "consts": steps[0]["consts"], "idents": sorted(idents_of(t, set())), "has_minus": has_minus(t), "nontrivial": True})
    answers = run_driver(lines) if env["driver_ok"] else [None] * len(lines)

    for meta, ans in zip(metas, answers):
        if meta["kind"] == "history":
            check_history(real, res, meta, ans, findings)
            continue
        text, ctx1, ctx2, consts = meta["text"], meta["ctx1"], meta["ctx2"], meta["consts"]
        r1, r2, toks = real.eval2(text, ctx1, ctx2, consts)
        res.count((text, sorted(ctx1.items()), sorted(consts.items())), meta["nontrivial"])
        res.feat("kind:" + meta["kind"])
        res.feat("real:" + (r1[0] if r1[0] == "ok" else r1[1]))
        fid = classify(meta, findings)
        data = {k: meta[k] for k in ("kind", "text", "ctx1", "ctx2", "consts")}
        data["repro"] = (f"from dissect.cstruct import cstruct; from dissect.cstruct.expression import Expression; cs=cstruct(); "
                         f"cs.load('struct S {{ uint32 a; uint64 b; }};'); cs.consts={consts!r}; e=Expression(cs,{text!r}); "
                         f"print(e.evaluate({ctx1!r}), e.evaluate({ctx2!r}))")
        bad = None
        # property oracle: value prescribed by the tree
        if meta["want1"] is not None and r1 != meta["want1"]:
            bad = f"first evaluation gives {r1}, the parse tree prescribes {meta['want1']}"
        elif meta["want2"] is not None and r2 is not None and r2 != meta["want2"]:
            bad = f"second evaluation (other context) gives {r2}, the parse tree prescribes {meta['want2']}"
        elif r2 is not None:
            # repeatability: second evaluation == fresh object with that context
            fresh2 = real.eval_fresh(text, ctx2, consts)
            if fresh2 != r2:
                bad = f"re-evaluating the same object gives {r2}, a fresh object gives {fresh2}"
        if bad:
            if fid:
                res.known_seen[fid] = res.known_seen.get(fid, 0) + 1
            else:
                res.violations.append(Case("property", bad, data))
        if ans is not None and not (fid and bad):
            m1, m2, mtoks = parse_driver(ans)
            if ("err", "OutOfModel") in (m1, m2):
                res.feat("model:out-of-modelled-domain (shift count > 4096)")
            elif (m1, m2) != (r1, r2) or (toks is not None and mtoks != toks):
                if fid:
                    res.known_seen.setdefault(fid, 0)
                else:
                    res.disagreements.append(Case("corr", f"model gives {m1},{m2},{mtoks}; implementation gives {r1},{r2},{toks}", data))
        if meta["kind"] in ("random", "malformed"):
            res.sample({"text": text, "context": ctx1, "constants": consts, "result": list(r1)}, 6)
    # constants defined through the definition parser and everything that resolves them afterwards (harness/v9_c10.py)
    v9_c10.run(env, res, mkrng(env["seed"], "c10:v9-defconst"))
    # identifiers bound to values of every value class, through every way a binding reaches the evaluator (harness/v10_c10.py)
    v10_c10.run(env, res, mkrng(env["seed"], "c10:v10-valueclass"))
    # a disagreement is first of all a lead for the failing-input search: re-examine each against the property oracle
    # (already done above for tree cases); malformed cases have no prescribed value, they stay correspondence-only.
    return res


def show(r):
    """a result for messages and replay files: integers too long to print are abbreviated"""
    if r and r[0] == "ok" and abs(r[1]) >= 10 ** 60:
        return ("ok", f"<integer of {r[1].bit_length()} bits, sign {'-' if r[1] < 0 else '+'}, low 64 bits {abs(r[1]) & (2 ** 64 - 1):#x}>")
    return r


def check_history(real, res, meta, ans, findings):
    text, steps, t = meta["text"], meta["steps"], meta["tree"]
    outs = run_history(real, text, steps)
    res.count((text, repr(steps)), True)
    res.feat("kind:history")
    res.feat(f"history:length={len(steps)}")
    fid = classify(meta, findings)
    data = {"kind": "history", "text": text,
            "history": [{"context": st["ctx"], "constants": st["consts"], "same_object": list(show(o[0])), "fresh_object": list(show(o[1])) if o[1] else None}
                        for st, o in zip(steps, outs)],
            "repro": history_repro(text, steps)}
    bad = None
    seen_empty_ok = False
    for k, (st, (got, fresh)) in enumerate(zip(steps, outs)):
        if fresh is None:          # the expression does not tokenize: nothing to re-evaluate
            res.feat("history:rejected-at-construction")
            break
        ctx = st["ctx"]
        envk = dict(st["consts"]); envk.update(ctx or {})
        try:
            want = ("ok", ev(t, envk))
        except (OutOfDomain, KeyError):
            want = None
        if k:
            if seen_empty_ok and ctx and any(i in st["consts"] for i in ctx):
                res.feat("history:context-shadows-constant-after-context-free-success")
            if st["consts"] != steps[k - 1]["consts"]:
                res.feat("history:constants-changed-between-evaluations")
            if ctx == steps[k - 1]["ctx"]:
                res.feat("history:same-context-again")
        if not ctx:
            res.feat("history:evaluation-with-" + ("None" if ctx is None else "empty-context"))
            if got[0] == "ok":
                seen_empty_ok = True
        if got[0] == "err":
            res.feat("history:step-raises")
        if got != fresh:
            bad = (f"step {k} of {len(steps)}: re-evaluating the same Expression object with context {ctx!r} and constants {st['consts']!r} "
                   f"gives {show(got)}, a fresh object gives {show(fresh)}" + (f" (the parse tree prescribes {show(want)})" if want else ""))
        elif want is not None and got != want:
            bad = f"step {k}: evaluation with context {ctx!r} and constants {st['consts']!r} gives {show(got)}, the parse tree prescribes {show(want)}"
        if bad:
            break
    if bad:
        if fid:
            res.known_seen[fid] = res.known_seen.get(fid, 0) + 1
        else:
            res.violations.append(Case("property", bad, data))
    if ans is not None and not bad and len(outs) >= 2:
        m1, m2, _ = parse_driver(ans)
        r1, r2 = outs[0][0], outs[1][0]
        if ("err", "OutOfModel") in (m1, m2):
            res.feat("model:out-of-modelled-domain (shift count > 4096)")
        elif m1 != r1 or (m2 != (r2 if meta["same_consts"] else r1)):
            if fid:
                res.known_seen.setdefault(fid, 0)
            else:
                res.disagreements.append(Case("corr", f"history: model gives {show(m1)},{show(m2)} for the first two steps; implementation gives {show(r1)},{show(r2)}", data))
    res.sample({"text": text, "history": [[st["ctx"], st["consts"], list(show(o[0]))] for st, o in zip(steps, outs)]}, 9)


def replay(body) -> int:
    c = body["case"]
    if c.get("kind") == "defconst":
        return v9_c10.replay(body)
    if c.get("kind") == v10_c10.REPLAY_KIND:
        return v10_c10.replay(body)
    real = Real()
    if c.get("kind") == "history":
        steps = [{"ctx": h["context"], "consts": h["constants"]} for h in c["history"]]
        for k, (st, (got, fresh)) in enumerate(zip(steps, run_history(real, c["text"], steps))):
            print(f"replay: step {k}: {c['text']!r} context {st['ctx']!r} constants {st['consts']!r}: same object -> {got}, fresh object -> {fresh}")
        print("replay:", body.get("what"))
        return 0
    r = real.eval2(c["text"], c["ctx1"], c["ctx2"], c["consts"])
    print("replay:", c["text"], "->", r, "|", body.get("what"))
    return 0
