"""C10 — expressions evaluate with C precedence and associativity, repeatably.

Three comparisons per case:
  spec   : an independent tree evaluator (Python ints) on the generated parse tree          -> property oracle
  real   : dissect.cstruct.expression.Expression(cs, text).evaluate(ctx), twice              -> implementation
  model  : the Lean driver's `expr` command (tokenizer, minus rewriting, shunting-yard)       -> correspondence
"""
from __future__ import annotations

import itertools
import random

from .. import common
from ..common import A, Case, Result, mkrng, parse_sexp, run_driver, sx

BIN = {
    "|": (0, lambda a, b: a | b), "^": (1, lambda a, b: a ^ b), "&": (2, lambda a, b: a & b),
    "<<": (3, lambda a, b: a << b), ">>": (3, lambda a, b: a >> b),
    "+": (4, lambda a, b: a + b), "-": (4, lambda a, b: a - b),
    "*": (5, lambda a, b: a * b), "/": (5, None), "%": (5, None),
}
IDENTS = ["A", "B", "n", "x1", "_y", "u", "l", "sz", "sizeofx", "U", "b1"]
TYPES = {"uint8": 1, "uint32": 4, "int128": 16, "S": 12, "wchar": 2}
LIT_FORMS = ["d", "x", "X", "o", "b", "B"]
SUFFIXES = ["", "", "", "u", "U", "l", "L", "ul", "UL", "ull", "ll", "LL", "lu", "llu", "LLU", "uLL"]


class OutOfDomain(Exception):
    """the tree leaves the domain in which the property prescribes a value (division by zero, negative operand of / or %,
    negative or huge shift count)"""


def cdiv(a, b):
    if b == 0 or a < 0 or b < 0:
        raise OutOfDomain
    return a // b


def cmod(a, b):
    if b == 0 or a < 0 or b < 0:
        raise OutOfDomain
    return a % b


def ev(t, env):
    k = t[0]
    if k == "num":
        return t[1]
    if k == "id":
        return env[t[1]]
    if k == "sizeof":
        return TYPES[t[1]]
    if k == "un":
        v = ev(t[2], env)
        return -v if t[1] == "-" else ~v
    a, b = ev(t[2], env), ev(t[3], env)
    op = t[1]
    if op in ("<<", ">>"):
        if b < 0 or b > 256:
            raise OutOfDomain
    if op == "/":
        return cdiv(a, b)
    if op == "%":
        return cmod(a, b)
    return BIN[op][1](a, b)


def lvl(t):
    return 7 if t[0] in ("num", "id", "sizeof") else 6 if t[0] == "un" else BIN[t[1]][0]


def lit(rnd, v, form, suffix):
    if form == "d":
        s = str(v)
    elif form in "xX":
        s = "0" + form + ("%x" % v if rnd.random() < 0.5 else "%X" % v)
    elif form == "o":
        s = "0" + ("%o" % v) if v else "0"
    else:
        s = "0" + form + bin(v)[2:]
    return s + suffix


def gen_tree(rnd: random.Random, d: int, idents):
    k = rnd.random()
    if d == 0 or k < 0.28:
        r = rnd.random()
        if r < 0.25 and idents:
            return ("id", rnd.choice(idents))
        if r < 0.32:
            return ("sizeof", rnd.choice(list(TYPES)))
        v = rnd.choice([0, 1, 2, 3, 4, 5, 7, 8, 9, 10, 15, 16, 63, 64, 100, 255, 256, 4095, 65535, 2**31, 2**64 - 1, rnd.randrange(1 << 20)])
        return ("num", v, rnd.choice(LIT_FORMS), rnd.choice(SUFFIXES))
    if k < 0.45:
        return ("un", rnd.choice("-~"), gen_tree(rnd, d - 1, idents))
    op = rnd.choice(list(BIN))
    return ("bin", op, gen_tree(rnd, d - 1, idents), gen_tree(rnd, d - 1, idents))


def render(rnd, t, need, extra_paren=0.1, spaces=True):
    sp = (lambda: rnd.choice(["", " ", "  ", "\t"])) if spaces else (lambda: "")
    k = t[0]
    if k == "num":
        s = lit(rnd, t[1], t[2], t[3])
    elif k == "id":
        s = t[1]
    elif k == "sizeof":
        s = "sizeof" + sp() + "(" + sp() + t[1] + sp() + ")"
    elif k == "un":
        s = t[1] + sp() + render(rnd, t[2], 6, extra_paren, spaces)
    else:
        l = BIN[t[1]][0]
        left = render(rnd, t[2], l, extra_paren, spaces)
        right = render(rnd, t[3], l + 1, extra_paren, spaces)
        mid = sp() + t[1] + sp()
        s = left + mid + right
    if lvl(t) < need or rnd.random() < extra_paren:
        s = "(" + sp() + s + sp() + ")"
    return s


def idents_of(t, acc):
    if t[0] == "id":
        acc.add(t[1])
    elif t[0] == "un":
        idents_of(t[2], acc)
    elif t[0] == "bin":
        idents_of(t[2], acc)
        idents_of(t[3], acc)
    return acc


def has_minus(t):
    if t[0] == "un":
        return t[1] == "-" or has_minus(t[2])
    if t[0] == "bin":
        return t[1] == "-" or has_minus(t[2]) or has_minus(t[3])
    return False


# ------------------------------------------------------------------------------------------------ real library

class Real:
    def __init__(self):
        dc = common.import_repo()
        self.dc = dc
        self.cs = dc.cstruct()
        self.cs.load("struct S { uint32 a; uint64 b; }; struct dyn { uint8 k; uint8 d[k]; };")
        from dissect.cstruct.expression import Expression

        self.Expression = Expression

    def fresh(self, text, consts):
        self.cs.consts = dict(consts)
        return self.Expression(self.cs, text)

    def eval2(self, text, ctx1, ctx2, consts):
        """-> (r1, r2, tokens_after) with r = ('ok', v) | ('err', cls)"""
        try:
            e = self.fresh(text, consts)
        except Exception as ex:  # noqa: BLE001
            return ("err", common.exc_class(ex)), None, None
        out = []
        for ctx in (ctx1, ctx2):
            try:
                out.append(("ok", int(e.evaluate(dict(ctx)))))
            except Exception as ex:  # noqa: BLE001
                out.append(("err", common.exc_class(ex)))
        return out[0], out[1], list(e.tokens)

    def eval_fresh(self, text, ctx, consts):
        try:
            return ("ok", int(self.fresh(text, consts).evaluate(dict(ctx))))
        except Exception as ex:  # noqa: BLE001
            return ("err", common.exc_class(ex))


def driver_line(text, ctx1, ctx2, consts):
    szs = [[A(k), v] for k, v in TYPES.items()] + [[A("dyn"), A("dynamic")]]
    return sx([A("expr"), text, [[A(k), v] for k, v in ctx1.items()], [[A(k), v] for k, v in consts.items()], szs,
               [[A(k), v] for k, v in ctx2.items()]])


def parse_driver(ans):
    s = parse_sexp(ans)
    if s[0] == "err":
        return ("err", str(s[1])), None, None
    if s[0] != "res":
        raise common.Infra(f"driver: {ans}")

    def r(x):
        return ("ok", int(x[1])) if x[0] == "ok" else ("err", str(x[1]))

    return r(s[1]), r(s[2]), [str(t) for t in s[3]]


# ------------------------------------------------------------------------------------------------ findings

def sig_F2(case) -> bool:
    """expression mentions the identifier `u` and a `-` (the identifier collides with the internal unary-minus marker)"""
    return "u" in case.get("idents", ()) and case.get("has_minus", False)


SIGNATURES = {"F2": sig_F2}


def classify(case_data, findings):
    for f in findings:
        fn = SIGNATURES.get(f["id"])
        if fn and fn(case_data):
            return f["id"]
    return None


# ------------------------------------------------------------------------------------------------ run

def make_cases(env):
    tier, seed = env["tier"], env["seed"]
    rnd = mkrng(seed, "c10")
    cases = []
    # (a) every ordered pair of binary operators `a op1 b op2 c` and unary in front, small operands: table-directed
    vals = [("num", 7, "d", ""), ("num", 2, "d", ""), ("num", 3, "x", "")]
    for o1, o2 in itertools.product(BIN, BIN):
        for shape in range(2):
            if shape == 0:
                l1, l2 = BIN[o1][0], BIN[o2][0]
                t = ("bin", o2, ("bin", o1, vals[0], vals[1]), vals[2]) if l1 >= l2 else ("bin", o1, vals[0], ("bin", o2, vals[1], vals[2]))
            else:
                t = ("bin", o2, ("bin", o1, ("un", "-", vals[0]), ("un", "~", vals[1])), vals[2]) if BIN[o1][0] >= BIN[o2][0] else \
                    ("bin", o1, ("un", "-", vals[0]), ("bin", o2, ("un", "~", vals[1]), vals[2]))
            cases.append(("pairs", t, 0.0))
    # (b) every literal spelling
    for form in LIT_FORMS:
        for suf in sorted(set(SUFFIXES)):
            for v in (0, 1, 8, 9, 10, 255, 4096):
                cases.append(("literal", ("bin", "+", ("num", v, form, suf), ("num", 1, "d", "")), 0.0))
    # (c) random trees
    n = 1500 if tier == "quick" else 40000
    for _ in range(n):
        idents = rnd.sample(IDENTS, rnd.randint(0, 4))
        t = gen_tree(rnd, rnd.randint(1, 5), idents)
        cases.append(("random", t, rnd.choice([0.0, 0.1, 0.3])))
    if tier == "thorough":
        # (d) all trees of depth <= 2 over a small alphabet
        leaves = [("num", 5, "d", ""), ("id", "n"), ("num", 8, "o", "u")]
        d1 = list(leaves) + [("un", o, l) for o in "-~" for l in leaves[:2]]
        for o in BIN:
            for l, r in itertools.product(d1, d1):
                cases.append(("enum", ("bin", o, l, r), 0.0))
        d2 = [("bin", o, l, r) for o in BIN for l in leaves[:2] for r in leaves[:2]]
        for o in BIN:
            for l in d2:
                for r in leaves[:2]:
                    cases.append(("enum", ("bin", o, l, r), 0.0))
                    cases.append(("enum", ("bin", o, r, l), 0.0))
    return cases, rnd


MALFORMED_ALPHABET = ["1", "0x", "0b", "08", "0b12", "12ab", "1b", "(", ")", "+", "-", "*", "/", "%", "~", "<<", ">>", ">", "<", "sizeof",
                      "n", "u", " ", "\t", "$", "0x1g", "9l", "10lul", "sizeof(uint8)", "sizeof(dyn)", "sizeof(nope)", "sizeof(", "0", "00", "0o7", "1.", "=", "!"]


def run(env) -> Result:
    res = Result()
    res.rule = ("cases: (pairs) every ordered pair of binary operators with unary operands; (literal) every literal form x suffix; "
                "(random) seeded random trees of depth<=5 rendered with random blanks and redundant parentheses, identifiers from the context "
                "and the constants, sizeof(type); (malformed) random token soup. Each case: tree value (independent evaluator) vs real "
                "Expression.evaluate twice (second time with another context) vs a fresh object vs the Lean model. distinct = by rendered "
                "text + bindings; non-trivial = at least one operator")
    real = Real()
    findings = env["findings"]
    cases, rnd = make_cases(env)
    lines, metas = [], []
    for kind, t, extra in cases:
        ids = sorted(idents_of(t, set()))
        allv = {i: rnd.choice([0, 1, 2, 3, 5, 8, 13, 64, 255, 1000, -1, -7]) for i in ids}
        # identifiers are split between the field context and the constants; context shadows constants
        ctx1 = {i: v for i, v in allv.items() if rnd.random() < 0.6}
        consts = {i: v for i, v in allv.items() if i not in ctx1 or rnd.random() < 0.3}
        for i in consts:
            if i in ctx1 and rnd.random() < 0.5:
                consts[i] = allv[i] + 100  # must be shadowed by the context
        ctx2 = {i: (v + rnd.choice([0, 1, 3])) for i, v in ctx1.items()}
        text = render(rnd, t, 0, extra)
        env1 = dict(consts); env1.update(ctx1)
        env2 = dict(consts); env2.update(ctx2)
        try:
            want1 = ("ok", ev(t, env1))
        except OutOfDomain:
            want1 = None
        try:
            want2 = ("ok", ev(t, env2))
        except OutOfDomain:
            want2 = None
        lines.append(driver_line(text, ctx1, ctx2, consts))
        metas.append({"kind": kind, "text": text, "ctx1": ctx1, "ctx2": ctx2, "consts": consts, "want1": want1, "want2": want2,
                      "idents": ids, "has_minus": has_minus(t), "nontrivial": t[0] != "num"})
    # malformed stream
    nm = 600 if env["tier"] == "quick" else 8000
    for _ in range(nm):
        text = "".join(rnd.choice(MALFORMED_ALPHABET) + rnd.choice(["", "", " "]) for _ in range(rnd.randint(0, 7)))
        ctx1 = {"n": 3} if rnd.random() < 0.5 else {}
        lines.append(driver_line(text, ctx1, {}, {}))
        metas.append({"kind": "malformed", "text": text, "ctx1": ctx1, "ctx2": {}, "consts": {}, "want1": None, "want2": None,
                      "idents": [], "has_minus": "-" in text, "nontrivial": len(text) > 2})
    answers = run_driver(lines) if env["driver_ok"] else [None] * len(lines)

    for meta, ans in zip(metas, answers):
        text, ctx1, ctx2, consts = meta["text"], meta["ctx1"], meta["ctx2"], meta["consts"]
        r1, r2, toks = real.eval2(text, ctx1, ctx2, consts)
        res.count((text, sorted(ctx1.items()), sorted(consts.items())), meta["nontrivial"])
        res.feat("kind:" + meta["kind"])
        res.feat("real:" + (r1[0] if r1[0] == "ok" else r1[1]))
        fid = classify(meta, findings)
        data = {k: meta[k] for k in ("kind", "text", "ctx1", "ctx2", "consts")}
        data["repro"] = (f"from dissect.cstruct import cstruct; from dissect.cstruct.expression import Expression; cs=cstruct(); "
                         f"cs.load('struct S {{ uint32 a; uint64 b; }};'); cs.consts={consts!r}; e=Expression(cs,{text!r}); "
                         f"print(e.evaluate({ctx1!r}), e.evaluate({ctx2!r}))")
        bad = None
        # property oracle: value prescribed by the tree
        if meta["want1"] is not None and r1 != meta["want1"]:
            bad = f"first evaluation gives {r1}, the parse tree prescribes {meta['want1']}"
        elif meta["want2"] is not None and r2 is not None and r2 != meta["want2"]:
            bad = f"second evaluation (other context) gives {r2}, the parse tree prescribes {meta['want2']}"
        elif r2 is not None:
            # repeatability: second evaluation == fresh object with that context
            fresh2 = real.eval_fresh(text, ctx2, consts)
            if fresh2 != r2:
                bad = f"re-evaluating the same object gives {r2}, a fresh object gives {fresh2}"
        if bad:
            if fid:
                res.known_seen[fid] = res.known_seen.get(fid, 0) + 1
            else:
                res.violations.append(Case("property", bad, data))
        if ans is not None and not (fid and bad):
            m1, m2, mtoks = parse_driver(ans)
            if ("err", "OutOfModel") in (m1, m2):
                res.feat("model:out-of-modelled-domain (shift count > 4096)")
            elif (m1, m2) != (r1, r2) or (toks is not None and mtoks != toks):
                if fid:
                    res.known_seen.setdefault(fid, 0)
                else:
                    res.disagreements.append(Case("corr", f"model gives {m1},{m2},{mtoks}; implementation gives {r1},{r2},{toks}", data))
        if meta["kind"] in ("random", "malformed"):
            res.sample({"text": text, "context": ctx1, "constants": consts, "result": list(r1)}, 6)
    # a disagreement is first of all a lead for the failing-input search: re-examine each against the property oracle
    # (already done above for tree cases); malformed cases have no prescribed value, they stay correspondence-only.
    return res


def replay(body) -> int:
    real = Real()
    c = body["case"]
    r = real.eval2(c["text"], c["ctx1"], c["ctx2"], c["consts"])
    print("replay:", c["text"], "->", r, "|", body.get("what"))
    return 0
