"""C04 — structure layout follows C rules; declared size = bytes read = bytes written.

Oracles: (1) ctypes.Structure/Union with identical members (the platform C ABI) for the ctypes-expressible subset,
(2) the textbook rule in refimpl for everything (int24/48/128 take the table's alignment), (3) the Lean model's layout.
Size agreement: len(T), sizeof(T) in an expression, bytes consumed by parsing, bytes produced by dumping.

Added probe families (s1):
  * size agreement on every fixed-size struct / union of a definition, not only on the top-level structure: each nested
    aggregate class is parsed and dumped on its own and as element of an array U[k] (len == consumed == dumped == k*len(U));
    the definition is additionally loaded with its nested aggregates hoisted into named definitions (defs.hoist), which
    must give the same layout and makes sizeof(N) of every nested type observable.
  * pointer-width histories: ONE cstruct instance; a definition with pointers is loaded (and used), `cs.pointer` is changed
    to another width, further definitions with pointers (often to the same target types) are loaded; every newly loaded
    definition must have the C layout for the width in effect - the layout a fresh instance gives - and agreeing sizes
    (s1_hist.pointer_history).
Added probe family (round 7, v8_c04):
  * size agreement and C layout AFTER INCREMENTAL DEFINITION: a struct (or union) is loaded from text with its first members
    only (compiled or interpreted, packed or aligned, either byte order, any pointer width) and then extended on the same
    instance by single `T.add_field(...)` commits and by `with T.start_update():` batches of 1..3 members (scalars, enums,
    pointers, arrays, nested / anonymous aggregates, bit-fields that may continue the last storage unit).  After the commits
    T is judged like a one-shot definition of the members declared so far: layout vs C rule / ctypes / Lean model, len(T) =
    sizeof(T) = bytes consumed (offset 0 and a later aligned offset) = len(dumps()), T[3] = 3*len(T); definitions loaded
    afterwards that use sizeof(T) or embed T (T t; T t[n]) must see the extended type.
Added probe family (round 8, v9_c04):
  * sizeof OVER EVERY NAME: on a fresh cstruct instance and on instances loaded by a random history (structs / unions, also
    as typedef struct {..} A, B; enums, flags; typedefs of scalars, arrays, pointers; cs.add_type(name, 'other name') string
    references and their chains, cs.add_type(name, class); legacy-parser typedefs; cs.load / cs.loadfile), EVERY name of
    cs.typedefs - classes, string references (short, int, DWORD, uint32_t, u4, _BYTE, ...), user names - is visited:
    len(cs.resolve(N)) = the C size of the name (table of the built-in spellings / C rule on the generator's tree / element
    count x element size / pointer width / enum base), bytes consumed through a random public entry point (class call, .read,
    .reads, cs.read on bytes / bytearray / memoryview / BytesIO / real file) = bytes dumped = that size; sizeof(N) inside
    random arithmetic evaluates to the same arithmetic on the C sizes through Expression.evaluate, through a #define, as an
    enum value (token and legacy parser), as a static array dimension `EL raw[e]` (also [k][e], in a union, through a
    #define'd constant; cs.load / cs.loadfile / legacy parser; packed and aligned; compiled and interpreted: len, sizeof,
    offsets = C layout, consumed = dumped = len, element count), inside a run-time dimension together with a member
    (`raw[n * sizeof(N)]`: bytes consumed / dumped, element count, position of the following member) and in an array type
    made through the API (cs.resolve(EL)[Expression(cs, e)]).
Added probe family (round 9, v10_c04):
  * EXPLICIT MEMBER OFFSETS ON THE WRITE SIDE: structures built through the API whose members sit at explicit offsets that
    leave forward GAPS (Field(name, type, offset=N) through cs._make_struct, T.add_field(.., offset=N) singly and in
    start_update batches, Field objects appended to T.__fields__ + commit(), a T loaded from text - compiled or interpreted -
    and extended by add_field), packed and aligned, either byte order, any pointer width; alone, as array element T[k], nested
    at explicit offsets in a second API-built structure V (also as V's array member) and embedded in plain C text loaded
    afterwards (`struct W { p; T t; T u[n]; q; }`).  Layout = "an explicit offset is where the member starts (aligned: next
    multiple of its alignment), the others follow, the size ends behind the last member (aligned: rounded to the largest
    alignment)"; len(T) = sizeof(T) = bytes consumed through a random public entry point = len of v.dumps() / T.dumps(v) /
    bytes(v) / len(v) / the bytes v.write / T.write append to a BytesIO at position 0, at a later position and to a real file;
    the dump is the zero image with each member's own encoding at its offset (gap bytes are zeros, members land at their
    offsets); each member of the parsed value is what its type parses from the input at its offset; parse(dumps(v)) = v;
    T() dumps to len(T) bytes and T(**members).dumps() = v.dumps().  Backward / overlapping offsets (F59) are not generated.
"""
from __future__ import annotations

import ctypes
import itertools
import sys

from .. import common, defs, impl, refimpl, s1_hist, s1_mixed, v8_c04, v9_c04, v10_c04
from ..common import Case, Result, mkrng
from ..structprops import Engine, load, is_dynamic, bits_after_dynamic, small_unit_bits, has_union, has, rand_bytes

CT = {"int8": ctypes.c_int8, "uint8": ctypes.c_uint8, "int16": ctypes.c_int16, "uint16": ctypes.c_uint16, "int32": ctypes.c_int32,
      "uint32": ctypes.c_uint32, "int64": ctypes.c_int64, "uint64": ctypes.c_uint64, "float": ctypes.c_float, "double": ctypes.c_double,
      "char": ctypes.c_char}
PTR = {"uint64": ctypes.c_uint64, "uint32": ctypes.c_uint32, "uint16": ctypes.c_uint16, "uint8": ctypes.c_uint8}
_n = itertools.count()


def to_ctypes(ty, align, ptr):
    """ctypes type with the same members, or None when not expressible (bit-fields, odd widths, dynamic members)"""
    k = ty[0]
    if k == "sc":
        return CT.get(refimpl.ALIAS.get(ty[1], ty[1]))
    if k == "enum":
        return CT.get(defs.ENUMS[ty[1]][1])
    if k == "ptr":
        return PTR.get(ptr)  # same size and alignment as the configured pointer type
    if k == "arr":
        if ty[2][0] != "fixed":
            return None
        e = to_ctypes(ty[1], align, ptr)
        return None if e is None else e * ty[2][1]
    fields = []
    for i, f in enumerate(ty[1]):
        if f["bits"]:
            return None
        t = to_ctypes(f["ty"], align, ptr)
        if t is None:
            return None
        fields.append((f"m{i}", t))
    base = ctypes.Structure if k == "struct" else ctypes.Union
    ns = {"_fields_": fields}
    if not align:
        ns["_pack_"] = 1
    return type(f"C{next(_n)}", (base,), ns)


def signatures(tree, cfg, align):
    sigs = []
    try:
        if bits_after_dynamic(tree, cfg):
            sigs.append("F6")
    except refimpl.Bad:  # a straddling bit-field in a nested structure: the definition must be rejected, no signature applies
        pass
    if align and small_unit_bits(tree):
        sigs.append("F23")
    return sigs


def sizeof_expr(cs, name):
    try:
        return impl.dc().expression.Expression(cs, f"sizeof({name})").evaluate()
    except Exception as e:  # noqa: BLE001
        return repr(e)


def size_agreement(cs, U, rnd, name=None, k=None):
    """the property's size predicate on one fixed-size type U (or on the array type U[k]): len, sizeof (when the type has a
    name), bytes consumed by parsing and bytes produced by dumping must all agree.  -> None or a description"""
    n_ = U.size
    t = U if k is None else U[k]
    want = n_ if k is None else n_ * k
    got = {"len": len(t)}
    if name is not None and k is None:
        got["sizeof"] = sizeof_expr(cs, name)
    inputs = [bytes(want + 7)]  # zero bytes parse everywhere (UTF-16 stays well-formed)
    r = impl.parse(t, rand_bytes(rnd, want + 7))
    if r[0] != "ok":
        r = impl.parse(t, inputs[0])
    if r[0] != "ok":
        got["parsed"] = r
    else:
        got["parsed"] = r[2]
        d = impl.dump(t, r[1])
        got["dumped"] = len(d[1]) if d[0] == "ok" else d
    if any(v != want for v in got.values()) or (k is not None and want != len(t)):
        return f"{'element size ' + str(n_) + ' x ' + str(k) + ': ' if k else ''}" + ", ".join(f"{a}={b}" for a, b in got.items()) + ": these must agree"
    return None


def sub_aggregates(eng, res, rnd, L, tree, align, cfg):
    """size agreement evaluated directly on every nested struct / union class of the loaded definition, standalone and as
    array element"""
    for path, sub, U in impl.aggregates(tree, L.T)[1:]:
        if U.size is None:
            res.feat("sub-aggregate:dynamic (not sized)")
            continue
        sigs = ["F23"] if (align and small_unit_bits(sub)) else []
        for k in (None, rnd.choice([2, 3])):
            res.count((L.text, align, L.pointer, path, k), True)
            res.feat(f"sub-aggregate:{sub[0]}:{'standalone' if k is None else 'as-array-element'}")
            bad = size_agreement(L.cs, U, rnd, k=k)
            if bad:
                eng.report(f"nested {sub[0]} at {path}{'' if k is None else f' as array [{k}]'}: {bad}",
                           eng.case_data(L, nested=path, nested_definition=defs.render_struct("U", sub), array=k), sigs)


def hoisted(eng, res, rnd, L, tree, align, ptr):
    """the same definition with its nested aggregates as named definitions: same layout as inline; len / sizeof / parsed /
    dumped agree for every named type"""
    plan, tree2 = defs.hoist(tree, rnd, p=0.8, top_align=align, mixed=False)
    if len(plan) == 1:
        return
    sess = impl.Session(endian="<", pointer=ptr)
    try:
        for name, sub, a in plan:
            V = sess.load(sub, name, compiled=L.compiled, align=a, text=defs.render_struct_refs(name, sub))
    except Exception as e:  # noqa: BLE001
        eng.report(f"the definition is accepted inline but rejected with named sub-definitions: {type(e).__name__}: {e}",
                   {"history": list(sess.steps), "repro": sess.script()}, [])
        return
    res.feat("hoisted:definitions")
    f23 = ["F23"] if (align and small_unit_bits(tree)) else []
    inline = (L.T.size, L.T.alignment, [f.offset for f in L.T.__fields__])
    named = (V.T.size, V.T.alignment, [f.offset for f in V.T.__fields__])
    res.count(("hoisted", V.text, align, ptr), True)
    if inline != named:
        eng.report(f"layout {named} with named sub-definitions differs from the layout {inline} of the inline definition", eng.case_data(V, inline=L.text), f23)
    for name, sub, a in plan:
        U = getattr(sess.cs, name)
        if U.size is None:
            continue
        sigs = ["F23"] if (align and small_unit_bits(sub)) else []
        for k in (None, 2):
            res.count(("hoisted", V.text, align, ptr, name, k), True)
            res.feat(f"hoisted:{sub[0]}:{'sizeof+standalone' if k is None else 'as-array-element'}")
            bad = size_agreement(sess.cs, U, rnd, name=name, k=k)
            if bad:
                eng.report(f"named {sub[0]} {name}{'' if k is None else f'[{k}]'}: {bad}", eng.case_data(V, type=name, array=k), sigs)


def pointer_histories(eng, res, rnd, tier):
    """pointer-width histories on one instance"""
    seen = 0
    for _ in range(220 if tier == "quick" else 5000):
        g = defs.Gen(rnd, allow_dynamic=rnd.random() < 0.2, max_depth=rnd.choice([1, 2, 3]))
        trees = [s1_hist.with_pointers(rnd, g, g.struct())]
        for _j in range(rnd.choice([1, 1, 2])):
            trees.append(trees[-1] if rnd.random() < 0.4 else s1_hist.with_pointers(rnd, g, g.struct()))
        align, compiled = rnd.random() < 0.5, rnd.random() < 0.5

        def on_loaded(L, i, sess, tree, err):
            nonlocal seen
            ptr = sess.pointer
            cfg = refimpl.Cfg("<", align, ptr, impl.CONSTS)
            sigs = signatures(tree, cfg, align)
            try:
                ref = refimpl.struct_layout(tree[1], cfg)
            except refimpl.Bad:
                ref = None
            res.feat("ptr-history:definition:" + ("first-width" if i == 0 else "after-width-change"))
            if L is None:
                if ref is not None:
                    eng.report(f"definition is rejected with {type(err).__name__}: {err}", {"history": list(sess.steps), "repro": sess.script()}, sigs)
                return
            res.count(("ptr-history", sess.script(), align), True)
            # what a fresh instance configured with this width gives
            F, _ = load(tree, endian="<", align=align, compiled=compiled, pointer=ptr)
            if F is not None:
                fresh = (F.T.size, F.T.alignment, [f.offset for f in F.T.__fields__])
                real = (L.T.size, L.T.alignment, [f.offset for f in L.T.__fields__])
                if fresh != real and ref is not None and (ref["size"], ref["align"], ref["offsets"]) == fresh:
                    res.feat("ptr-history:differs-from-fresh-instance")
            if evaluate(eng, res, rnd, L, tree, align, ptr, cfg, sigs, ref, model=False):
                seen += 1
            sub_aggregates(eng, res, rnd, L, tree, align, cfg)

        s1_hist.pointer_history(rnd, trees, align=align, compiled=compiled, on_loaded=on_loaded)
        res.feat("ptr-history:instances")
    return seen


def evaluate(eng, res, rnd, L, tree, align, ptr, cfg, sigs, ref, model=True):
    """layout of one loaded definition against the C rule (refimpl), the Lean model, ctypes; size agreement.
    -> whether the ctypes oracle applied"""
    used_ct = False
    T = L.T
    real = (T.size, T.alignment, [f.offset for f in T.__fields__])
    data = eng.case_data(L, real_layout=str(real))
    if ref is None:
        eng.report("a straddling bit-field was accepted", data, sigs)
        return False
    if (ref["size"], ref["align"], ref["offsets"]) != real:
        eng.report(f"layout {real} differs from the C rule {(ref['size'], ref['align'], ref['offsets'])}", data, sigs)
    if model:
        eng.model_layout(L, ("ok", real), sigs)
    # platform ABI
    ct = to_ctypes(tree, align, ptr)
    if ct is not None:
        used_ct = True
        res.feat("ctypes-oracle")
        cl = (ctypes.sizeof(ct), ctypes.alignment(ct) if align else None, [getattr(ct, f"m{i}").offset for i in range(len(tree[1]))])
        rl = (T.size, T.alignment if align else None, [f.offset for f in T.__fields__])
        if len(tree[1]) and cl != rl:
            eng.report(f"layout {rl} differs from the platform C ABI {cl}", data, sigs)
    # natural alignment / non-overlap, stated directly
    if align and T.size is not None:
        for f in T.__fields__:
            if not f.alignment or f.alignment < 1:
                eng.report(f"field {f._name} has alignment {f.alignment!r}: a member's alignment is at least 1", data, sigs)
            elif f.offset is not None and f.offset % f.alignment:
                eng.report(f"field {f._name} at offset {f.offset} is not a multiple of its alignment {f.alignment}", data, sigs)
        if T.alignment and T.size % T.alignment:
            eng.report(f"size {T.size} is not a multiple of the alignment {T.alignment}", data, sigs)
    # size agreement
    if T.size is not None and "F23" not in sigs:
        n_ = T.size
        try:
            sz_expr = impl.dc().expression.Expression(L.cs, f"sizeof({T.__name__})").evaluate()
        except Exception as e:  # noqa: BLE001
            sz_expr = repr(e)
        buf = rand_bytes(rnd, n_ + 7)
        # keep UTF-16 well-formed: zero bytes parse everywhere
        r = impl.parse(T, bytes(n_ + 7))
        ok = r[0] == "ok" and r[2] == n_
        d = impl.dump(T, r[1]) if r[0] == "ok" else ("err", "no value")
        if sz_expr != n_ or not ok or d[0] != "ok" or len(d[1]) != n_:
            eng.report(f"len({T.__name__})={n_}, sizeof({T.__name__})={sz_expr}, parsed {r[2] if r[0] == 'ok' else r}, dumped {len(d[1]) if d[0] == 'ok' else d}: these must agree",
                       data, sigs)
        del buf
    return used_ct


def run(env) -> Result:
    res = Result()
    res.rule = ("seeded random definition trees (scalars of every table type and alias, fixed arrays up to 2 dims, nested/anonymous structs "
                "and unions, pointers, enums, bit-fields, void) plus all ordered pairs/triples of scalar types, each under {packed, aligned} x "
                "pointer width; compared: real len/alignment/field offsets vs ctypes (C ABI) vs textbook rule vs Lean model; size agreement "
                "len(T) = sizeof(T) = bytes parsed = bytes dumped, also for every nested struct/union class on its own and as array element "
                "and for the definition with named (hoisted) sub-definitions; pointer-width histories on one instance (load, change "
                "cs.pointer, load again); incremental definitions: T loaded from text with its first members, then extended by add_field "
                "commits and start_update batches - layout and size agreement (also T[3], sizeof(T) in later definitions, later "
                "structures embedding T) after the commits; sizeof over every name: on fresh and randomly loaded instances every name of "
                "cs.typedefs (classes, string references such as int/DWORD/uint32_t/u4, add_type aliases and chains, typedefs of arrays / "
                "pointers / structs, enums, legacy typedefs) has len = C size = bytes consumed (random public entry point) = bytes dumped, and "
                "sizeof(name) inside random arithmetic gives the C value through Expression, #define, enum values, static array dimensions "
                "(C layout, sizes, element count; load / loadfile / legacy parser), run-time dimensions and API-made array types; explicit member "
                "offsets on the write side: API-built structures (Field(.., offset=) via _make_struct / __fields__ + commit, add_field(.., offset=) "
                "single and batched, text + add_field; packed and aligned) with forward gaps, alone, as array element, nested in another such "
                "structure and embedded in C text: layout by the offset rule, len = sizeof = bytes consumed (random entry point) = bytes "
                "produced by dumps / bytes() / len(v) / write to BytesIO at 0 and later positions / file, dump = zero image with the members' "
                "encodings at their offsets, members read from their offsets, parse(dumps(v)) = v, T() and T(**members) dump to the declared size. distinct = (definition text, align, pointer); non-trivial = >= 2 fields or a composite field")
    eng = Engine(env, res, "C04")
    rnd = mkrng(env["seed"], "c04")
    tier = env["tier"]
    trees = []
    scal = defs.INT_SCALARS + defs.FLOATS + ["char", "wchar", "void"]
    # all ordered pairs (quick) / triples over a sub-alphabet (thorough) of scalar types
    for a, b in itertools.product(scal, scal):
        trees.append(("struct", [{"name": "a", "ty": ("sc", a), "bits": None}, {"name": "b", "ty": ("sc", b), "bits": None}]))
    if tier == "thorough":
        sub = ["uint8", "uint16", "uint32", "uint64", "int24", "uint48", "int128", "char", "double"]
        for a, b, c in itertools.product(sub, sub, sub):
            trees.append(("struct", [{"name": "a", "ty": ("sc", a), "bits": None}, {"name": "b", "ty": ("arr", ("sc", b), ("fixed", 3)), "bits": None},
                                     {"name": "c", "ty": ("sc", c), "bits": None}]))
    n = 250 if tier == "quick" else 6000
    for _ in range(n):
        g = defs.Gen(rnd, allow_dynamic=rnd.random() < 0.25, max_depth=rnd.choice([1, 2, 3]))
        trees.append(g.struct())
    # definitions that are certain to contain a nested union / structure (also as array element): size agreement per aggregate
    for _ in range(150 if tier == "quick" else 4000):
        g = defs.Gen(rnd, allow_dynamic=False, max_depth=rnd.choice([1, 2]))
        trees.append(s1_mixed.with_nested(rnd, g, g.struct(), kind=rnd.choice(["union", "union", "struct"])))
    seen_ct = 0
    for tree in trees:
        for align in (False, True):
            ptr = rnd.choice(["uint64", "uint32", "uint16", "uint8"])
            cfg = refimpl.Cfg("<", align, ptr, impl.CONSTS)
            L, err = load(tree, endian="<", align=align, compiled=rnd.random() < 0.5, pointer=ptr)
            nontrivial = len(tree[1]) >= 2 or tree[1][0]["ty"][0] in ("arr", "struct", "union")
            sigs = signatures(tree, cfg, align)
            try:
                ref = refimpl.struct_layout(tree[1], cfg)
            except refimpl.Bad:
                ref = None
            if L is None:
                res.count((defs.render_struct("T", tree), align, ptr), nontrivial)
                res.feat("definition-rejected:" + type(err).__name__)
                if ref is not None:
                    eng.report(f"definition is rejected with {type(err).__name__}: {err}", {"definition": defs.render_struct('T', tree), "align": align}, sigs)
                continue
            res.count((L.text, align, ptr), nontrivial)
            for k, v in defs.features(tree).items():
                res.feat(k, v)
            if evaluate(eng, res, rnd, L, tree, align, ptr, cfg, sigs, ref):
                seen_ct += 1
            sub_aggregates(eng, res, rnd, L, tree, align, cfg)
            if rnd.random() < 0.5:
                hoisted(eng, res, rnd, L, tree, align, ptr)
        if len(eng.lines) > 4000:
            eng.flush()
    seen_ct += pointer_histories(eng, res, mkrng(env["seed"], "c04-pointer-history"), tier)
    v8_c04.run(sys.modules[__name__], eng, res, mkrng(env["seed"], "c04-extended"), tier)
    v9_c04.run(sys.modules[__name__], eng, res, mkrng(env["seed"], "c04-sizeof-names"), tier)
    v10_c04.run(sys.modules[__name__], eng, res, mkrng(env["seed"], "c04-explicit-offsets"), tier)
    eng.flush()
    res.notes.append(f"{seen_ct} layouts were also compared with ctypes (platform ABI)")
    res.sample({"definition": defs.render_struct("T", trees[-1]), "aligned_layout_example": "see feature histogram"})
    return res


def replay(body) -> int:
    print("replay:", body.get("what"))
    print(body.get("case", {}).get("repro"))
    return 0
