"""C04 — structure layout follows C rules; declared size = bytes read = bytes written.

Oracles: (1) ctypes.Structure/Union with identical members (the platform C ABI) for the ctypes-expressible subset,
(2) the textbook rule in refimpl for everything (int24/48/128 take the table's alignment), (3) the Lean model's layout.
Size agreement: len(T), sizeof(T) in an expression, bytes consumed by parsing, bytes produced by dumping.
"""
from __future__ import annotations

import ctypes
import itertools

from .. import common, defs, impl, refimpl
from ..common import Case, Result, mkrng
from ..structprops import Engine, load, is_dynamic, bits_after_dynamic, small_unit_bits, has_union, has, rand_bytes

CT = {"int8": ctypes.c_int8, "uint8": ctypes.c_uint8, "int16": ctypes.c_int16, "uint16": ctypes.c_uint16, "int32": ctypes.c_int32,
      "uint32": ctypes.c_uint32, "int64": ctypes.c_int64, "uint64": ctypes.c_uint64, "float": ctypes.c_float, "double": ctypes.c_double,
      "char": ctypes.c_char}
PTR = {"uint64": ctypes.c_uint64, "uint32": ctypes.c_uint32, "uint16": ctypes.c_uint16, "uint8": ctypes.c_uint8}
_n = itertools.count()


def to_ctypes(ty, align, ptr):
    """ctypes type with the same members, or None when not expressible (bit-fields, odd widths, dynamic members)"""
    k = ty[0]
    if k == "sc":
        return CT.get(refimpl.ALIAS.get(ty[1], ty[1]))
    if k == "enum":
        return CT.get(defs.ENUMS[ty[1]][1])
    if k == "ptr":
        return PTR.get(ptr)  # same size and alignment as the configured pointer type
    if k == "arr":
        if ty[2][0] != "fixed":
            return None
        e = to_ctypes(ty[1], align, ptr)
        return None if e is None else e * ty[2][1]
    fields = []
    for i, f in enumerate(ty[1]):
        if f["bits"]:
            return None
        t = to_ctypes(f["ty"], align, ptr)
        if t is None:
            return None
        fields.append((f"m{i}", t))
    base = ctypes.Structure if k == "struct" else ctypes.Union
    ns = {"_fields_": fields}
    if not align:
        ns["_pack_"] = 1
    return type(f"C{next(_n)}", (base,), ns)


def run(env) -> Result:
    res = Result()
    res.rule = ("seeded random definition trees (scalars of every table type and alias, fixed arrays up to 2 dims, nested/anonymous structs "
                "and unions, pointers, enums, bit-fields, void) plus all ordered pairs/triples of scalar types, each under {packed, aligned} x "
                "pointer width; compared: real len/alignment/field offsets vs ctypes (C ABI) vs textbook rule vs Lean model; size agreement "
                "len(T) = sizeof(T) = bytes parsed = bytes dumped. distinct = (definition text, align, pointer); non-trivial = >= 2 fields or a "
                "composite field")
    eng = Engine(env, res, "C04")
    rnd = mkrng(env["seed"], "c04")
    tier = env["tier"]
    trees = []
    scal = defs.INT_SCALARS + defs.FLOATS + ["char", "wchar", "void"]
    # all ordered pairs (quick) / triples over a sub-alphabet (thorough) of scalar types
    for a, b in itertools.product(scal, scal):
        trees.append(("struct", [{"name": "a", "ty": ("sc", a), "bits": None}, {"name": "b", "ty": ("sc", b), "bits": None}]))
    if tier == "thorough":
        sub = ["uint8", "uint16", "uint32", "uint64", "int24", "uint48", "int128", "char", "double"]
        for a, b, c in itertools.product(sub, sub, sub):
            trees.append(("struct", [{"name": "a", "ty": ("sc", a), "bits": None}, {"name": "b", "ty": ("arr", ("sc", b), ("fixed", 3)), "bits": None},
                                     {"name": "c", "ty": ("sc", c), "bits": None}]))
    n = 250 if tier == "quick" else 6000
    for _ in range(n):
        g = defs.Gen(rnd, allow_dynamic=rnd.random() < 0.25, max_depth=rnd.choice([1, 2, 3]))
        trees.append(g.struct())
    seen_ct = 0
    for tree in trees:
        for align in (False, True):
            ptr = rnd.choice(["uint64", "uint32", "uint16", "uint8"])
            cfg = refimpl.Cfg("<", align, ptr, impl.CONSTS)
            L, err = load(tree, endian="<", align=align, compiled=rnd.random() < 0.5, pointer=ptr)
            nontrivial = len(tree[1]) >= 2 or tree[1][0]["ty"][0] in ("arr", "struct", "union")
            sigs = []
            if bits_after_dynamic(tree, cfg):
                sigs.append("F6")
            if align and small_unit_bits(tree):
                sigs.append("F23")
            try:
                ref = refimpl.struct_layout(tree[1], cfg)
            except refimpl.Bad:
                ref = None
            if L is None:
                res.count((defs.render_struct("T", tree), align, ptr), nontrivial)
                res.feat("definition-rejected:" + type(err).__name__)
                if ref is not None:
                    eng.report(f"definition is rejected with {type(err).__name__}: {err}", {"definition": defs.render_struct('T', tree), "align": align}, sigs)
                continue
            res.count((L.text, align, ptr), nontrivial)
            for k, v in defs.features(tree).items():
                res.feat(k, v)
            T = L.T
            real = (T.size, T.alignment, [f.offset for f in T.__fields__])
            data = eng.case_data(L, real_layout=str(real))
            if ref is None:
                eng.report("a straddling bit-field was accepted", data, sigs)
                continue
            if (ref["size"], ref["align"], ref["offsets"]) != real:
                eng.report(f"layout {real} differs from the C rule {(ref['size'], ref['align'], ref['offsets'])}", data, sigs)
            eng.model_layout(L, ("ok", real), sigs)
            # platform ABI
            ct = to_ctypes(tree, align, ptr)
            if ct is not None:
                seen_ct += 1
                res.feat("ctypes-oracle")
                cl = (ctypes.sizeof(ct), ctypes.alignment(ct) if align else None, [getattr(ct, f"m{i}").offset for i in range(len(tree[1]))])
                rl = (T.size, T.alignment if align else None, [f.offset for f in T.__fields__])
                if len(tree[1]) and cl != rl:
                    eng.report(f"layout {rl} differs from the platform C ABI {cl}", data, sigs)
            # natural alignment / non-overlap, stated directly
            if align and T.size is not None:
                for f in T.__fields__:
                    if f.offset is not None and f.offset % f.alignment:
                        eng.report(f"field {f._name} at offset {f.offset} is not a multiple of its alignment {f.alignment}", data, sigs)
                if T.alignment and T.size % T.alignment:
                    eng.report(f"size {T.size} is not a multiple of the alignment {T.alignment}", data, sigs)
            # size agreement
            if T.size is not None and "F23" not in sigs:
                n_ = T.size
                try:
                    sz_expr = L.dc_expr("sizeof(T)") if False else impl.dc().expression.Expression(L.cs, "sizeof(T)").evaluate()
                except Exception as e:  # noqa: BLE001
                    sz_expr = repr(e)
                buf = rand_bytes(rnd, n_ + 7)
                # keep UTF-16 well-formed: zero bytes parse everywhere
                r = impl.parse(T, bytes(n_ + 7))
                ok = r[0] == "ok" and r[2] == n_
                d = impl.dump(T, r[1]) if r[0] == "ok" else ("err", "no value")
                if sz_expr != n_ or not ok or d[0] != "ok" or len(d[1]) != n_:
                    eng.report(f"len(T)={n_}, sizeof(T)={sz_expr}, parsed {r[2] if r[0] == 'ok' else r}, dumped {len(d[1]) if d[0] == 'ok' else d}: these must agree",
                               data, sigs + (["F9F10"] if has_union(tree) else []))
                del buf
        if len(eng.lines) > 4000:
            eng.flush()
    eng.flush()
    res.notes.append(f"{seen_ct} layouts were also compared with ctypes (platform ABI)")
    res.sample({"definition": defs.render_struct("T", trees[-1]), "aligned_layout_example": "see feature histogram"})
    return res


def replay(body) -> int:
    print("replay:", body.get("what"))
    print(body.get("case", {}).get("repro"))
    return 0
