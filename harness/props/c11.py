"""C11 — union members are coherent views of one byte buffer.

Random fixed-size unions (scalars, arrays, named / anonymous / doubly nested structures), random contents and random
histories of member assignments (direct, through a nested structure, through an anonymous structure's forwarded
attributes).  Reference: a byte buffer maintained here — an assignment overwrites the member's bytes, everything else
stays — from which every member is re-parsed with an independently loaded copy of its type.  The Lean model
(`Union.parse` / `Union.assign`) is run on the same histories.
"""
from __future__ import annotations

import io
import itertools

from .. import common, defs, impl, refimpl
from ..common import A, Case, Result, mkrng, parse_sexp, run_driver, sx
from ..structprops import union_dump_incomplete, has

S = lambda n: ("sc", n)  # noqa: E731
F = lambda n, t, b=None: {"name": n, "ty": t, "bits": b}  # noqa: E731


def gen_union(rnd, counter):
    def nm():
        counter[0] += 1
        return f"m{counter[0]}"

    def scalar():
        return S(rnd.choice(["uint8", "int8", "uint16", "int16", "uint32", "int32", "uint64", "uint24", "int48", "char"]))

    def struct(depth):
        fs = []
        for _ in range(rnd.randint(1, 3)):
            r = rnd.random()
            if r < 0.6:
                fs.append(F(nm(), scalar()))
            elif r < 0.8:
                fs.append(F(nm(), ("arr", scalar(), ("fixed", rnd.randint(1, 3)))))
            elif depth > 0:
                fs.append(F(nm(), ("struct", struct(depth - 1))))
            else:
                fs.append(F(nm(), S("uint16")))
        return fs

    members = []
    for _ in range(rnd.randint(2, 4)):
        r = rnd.random()
        if r < 0.35:
            members.append(F(nm(), scalar()))
        elif r < 0.55:
            members.append(F(nm(), ("arr", scalar(), ("fixed", rnd.randint(1, 4)))))
        elif r < 0.8:
            members.append(F(nm(), ("struct", struct(1))))
        elif r < 0.9:
            members.append(F(None, ("struct", struct(0))))
        else:
            members.append(F(nm(), ("enum", rnd.choice(["E8", "F16", "E32"]))))
    return ("union", members)


def leaf_paths(ty, T, prefix=()):
    """assignable integer leaves: (path of attribute names, type tree)"""
    out = []
    if ty[0] == "struct":
        for f, rf in zip(ty[1], T.__fields__):
            if f["ty"][0] == "sc" and refimpl.sc(f["ty"][1])[0] == "int":
                out.append((prefix + (rf._name,), f["ty"]))
            elif f["ty"][0] == "struct" and f["name"] is not None:
                out += leaf_paths(f["ty"], rf.type, prefix + (rf._name,))
    return out


def rand_int(rnd, ty):
    _, size, signed, _ = refimpl.sc(ty[1])
    bits = 8 * size
    lo, hi = (-(1 << (bits - 1)), (1 << (bits - 1)) - 1) if signed else (0, (1 << bits) - 1)
    return rnd.choice([lo, hi, 0, 1, rnd.randint(lo, hi), rnd.randint(lo, hi)])


def run(env) -> Result:
    res = Result()
    res.rule = ("seeded random fixed-size unions of 2-4 members (ints of all widths, char, arrays, enums, named/anonymous/doubly nested "
                "structs) x {<,>} x {packed, aligned}; random contents; histories of up to 5 assignments (whole member, field of a nested "
                "struct at depth 1 and 2, forwarded field of an anonymous struct). After every step: each member == parse of its type from "
                "the reference buffer (overwrite semantics), dumps == reference buffer up to bits that are padding in every member. "
                "distinct = (definition, config, contents, history prefix); non-trivial = history of >= 1 assignment")
    dc = impl.dc()
    rnd = mkrng(env["seed"], "c11")
    tier = env["tier"]
    findings = {f["id"] for f in env["findings"]}
    lines, metas = [], []
    counter = [0]

    def viol(what, data, sigs=()):
        for s in sigs:
            if s in findings:
                res.known_seen[s] = res.known_seen.get(s, 0) + 1
                return
        if len(res.violations) < 50:
            res.violations.append(Case("property", what, data))

    for _ in range(220 if tier == "quick" else 6000):
        utree = gen_union(rnd, counter)
        for endian, align in itertools.product("<>", (False, True)):
            if rnd.random() < 0.5:
                continue
            tree = ("struct", [F("u", utree)])
            try:
                L = impl.Loaded(tree, endian=endian, align=align, compiled=rnd.random() < 0.5)
            except Exception as e:  # noqa: BLE001
                viol(f"union definition rejected: {type(e).__name__}: {e}", {"definition": defs.render_struct('T', tree)})
                continue
            U = L.T.fields["u"].type
            cfg = refimpl.Cfg(endian, align, "uint64", impl.CONSTS)
            sigs = ["F9F10"] if union_dump_incomplete(utree, cfg) else []
            cd0 = {"definition": L.text, "endian": endian, "align": align}
            # size = largest member (rounded up to the alignment in aligned mode)
            msizes = [rf.type.size for rf in U.__fields__]
            want_size = max(msizes)
            if align and U.alignment:
                want_size = (want_size + U.alignment - 1) // U.alignment * U.alignment
            if U.size != want_size:
                viol(f"union size {U.size}, largest member {max(msizes)} / alignment {U.alignment} give {want_size}", cd0)
            data = bytes(rnd.randrange(256) for _ in range(U.size + 3))
            st = io.BytesIO(data)
            try:
                u = U(st)
            except Exception as e:  # noqa: BLE001
                viol(f"parsing a union raises {type(e).__name__}: {e}", dict(cd0, data=data.hex()))
                continue
            if st.tell() != U.size:
                viol(f"parsing a union consumed {st.tell()} bytes, its size is {U.size}", dict(cd0, data=data.hex()))
            ref = bytearray(data[: U.size])
            res.feat("members:" + str(len(utree[1])))

            def member_views():
                """each member re-parsed from the reference buffer with its own type"""
                out = []
                for rf in U.__fields__:
                    try:
                        out.append(impl.canon(rf.type(bytes(ref))))
                    except Exception as e:  # noqa: BLE001
                        out.append(("err", type(e).__name__))
                return out

            def check(step, hist):
                got = [impl.canon(getattr(u, rf._name)) for rf in U.__fields__]
                want = member_views()
                cd = dict(cd0, data=data.hex(), history=[str(h) for h in hist])
                res.count((L.text, endian, align, data, tuple(map(str, hist))), len(hist) >= 1)
                for rf, g, w in zip(U.__fields__, got, want):
                    if not impl.same_val(w, g, ignore_union_buf=True):
                        viol(f"after {step}: member {rf._name} is {str(g)[:160]}, its type parses the union's bytes to {str(w)[:160]}", cd, sigs)
                        return False
                try:
                    d = u.dumps()
                except Exception as e:  # noqa: BLE001
                    viol(f"after {step}: dumps raises {type(e).__name__}: {e}", cd, sigs)
                    return False
                if len(d) != U.size:
                    viol(f"after {step}: dumps has {len(d)} bytes, the union has {U.size}", cd, sigs)
                # bits that are padding in every member may differ; everything else must be the reference bytes
                allmask = bytearray(U.size)
                for f in utree[1]:
                    try:
                        _, _, m = refimpl.parse(f["ty"], bytes(ref), 0, cfg)
                        for i, b in enumerate(m[: U.size]):
                            allmask[i] |= b
                    except (refimpl.Short, refimpl.Bad):
                        pass
                if any((a ^ b) & m for a, b, m in zip(d, ref, allmask)):
                    viol(f"after {step}: dumps {d.hex()} differs from the union's bytes {bytes(ref).hex()} at data-carrying bits", cd, sigs)
                return True

            hist = []
            if not check("parsing", hist):
                continue
            ops_model = []
            ok_model = True
            for _step in range(rnd.randint(1, 5)):
                k = rnd.randrange(len(utree[1]))
                f, rf = utree[1][k], U.__fields__[k]
                ty = f["ty"]
                try:
                    if ty[0] == "sc" and refimpl.sc(ty[1])[0] == "int":
                        v = rand_int(rnd, ty)
                        setattr(u, rf._name, v)
                        enc = rf.type.dumps(v)
                        hist.append((rf._name, v))
                        ops_model.append([k, [A("int"), v]])
                        res.feat("assign:scalar")
                    elif ty[0] == "struct":
                        leaves = leaf_paths(ty, rf.type)
                        if not leaves:
                            continue
                        path, lty = rnd.choice(leaves)
                        v = rand_int(rnd, lty)
                        # current member value, modified, is what the buffer must receive
                        cur = rf.type(bytes(ref))
                        tgt = cur
                        for p in path[:-1]:
                            tgt = getattr(tgt, p)
                        setattr(tgt, path[-1], v)
                        enc = cur.dumps()
                        if f["name"] is None and len(path) == 1:
                            setattr(u, path[0], v)       # forwarded attribute of the anonymous structure
                            res.feat("assign:anonymous-forwarded")
                        else:
                            obj = getattr(u, rf._name)
                            for p in path[:-1]:
                                obj = getattr(obj, p)
                            setattr(obj, path[-1], v)
                            res.feat(f"assign:nested-depth{len(path)}")
                        hist.append((rf._name + "." + ".".join(path), v))
                        ops_model.append([k, impl.canon(cur)])
                    else:
                        continue
                except Exception as e:  # noqa: BLE001
                    viol(f"assignment {hist[-1] if hist else ''} to {rf._name} raises {type(e).__name__}: {e}", dict(cd0, data=data.hex(), history=[str(h) for h in hist]),
                         sigs + (["F26"] if ty[0] == "struct" else []))
                    ok_model = False
                    break
                ref[: len(enc)] = enc
                if not check(f"assigning {hist[-1]}", hist):
                    ok_model = False
                    break
            if ok_model and not sigs and not has(utree, lambda t, d, x: t[0] == "ptr"):
                lines.append(sx([A("unionhist"), L.cfg_sexp(), impl.real_ty_sexp(utree, U, align), data, ops_model]))
                metas.append((dict(cd0, data=data.hex(), history=[str(h) for h in hist]), bytes(u._buf), [impl.canon(getattr(u, rf._name)) for rf in U.__fields__], u.dumps()))
    answers = run_driver(lines) if env["driver_ok"] else [None] * len(lines)
    for (cd, buf, vals, dump), ans in zip(metas, answers):
        if ans is None:
            continue
        s = parse_sexp(ans)
        ok = s[0] == "ok"
        if ok:
            last = s[-1]
            ok = str(last[0]) == common.hx(buf) and len(last[1]) == len(vals) and all(impl.same_val(a, b, ignore_union_buf=True) for a, b in zip(vals, last[1])) \
                and str(last[2]) == common.hx(dump)
        if not ok:
            res.disagreements.append(Case("corr", f"union history: model ends in {ans[-300:]}, implementation has buf {buf.hex()} dump {dump.hex()}", cd))
    if metas:
        res.sample({"definition": metas[0][0]["definition"], "history": metas[0][0]["history"]})
    return res


def replay(body) -> int:
    print("replay:", body.get("what"), body.get("case"))
    return 0
