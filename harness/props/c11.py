"""C11 — union members are coherent views of one byte buffer.

Random fixed-size unions (scalars, arrays, named / anonymous / doubly nested structures), random contents and random
histories of member assignments (direct, through a nested structure, through an anonymous structure's forwarded
attributes).  Reference: a byte buffer maintained here — an assignment overwrites the member's bytes, everything else
stays — from which every member is re-parsed with an independently loaded copy of its type.  The Lean model
(`Union.parse` / `Union.assign`) is run on the same histories.

Members and nested fields may be float16 / float / double (overlapping integer and byte members), and a member may be
an array of structures; contents are random or sparse (bytes 00 / 80, so that float slots hold +0.0 / -0.0).  Besides the
assignment of a random integer the histories contain
  whole           a member (array, structure, array of structures, enum, char) is assigned a value parsed from fresh bytes;
  float           a float member / nested float field is assigned 0.0, -0.0, 1.0, inf, a random representable value;
  equal-encoding  a member is assigned a value that compares == to the value it holds but encodes differently
                  (found by flipping one sign bit of the member's bytes: -0.0 over 0.0 and back, inside arrays and
                  structures too; the integer 0 over -0.0), preferably right after an assignment to that member;
  mutate-reassign `x = u.m; x[i] = v  (or x[i].field = v); u.m = x` on an array member: the member's own, mutated
                  object is assigned back;
  reassign-own    `u.m = u.m`.
After every step every member must equal the parse of its type from the reference bytes and the dump must show the new
bytes of the assigned member.  States in which a float slot holds a NaN pattern are checked member-wise only (Python
floats do not preserve NaN payloads; NaNs are outside the domain as in C01/C02) and are not sent to the model.

Placement probes (harness/t3_c11.py) for the clause "parsing consumes exactly that size": about half of the generated unions
are declared once more as a named type `U`, packed and aligned, and parsed (1) from file-like streams positioned at start
offsets 0..17 - multiples and non-multiples of the union's alignment -, (2) as `U[n]` from such positions, (3) as the members
`U u; U w[2];` of packed and aligned outer structures (second `load` with its own align flag, interpreted / compiled), with a
fixed layout and after a dynamically sized field.  The stream must advance by exactly len(U) (n * len(U)), every member of
every parsed union must equal the parse of its type from exactly the len(U) bytes at the union's place, and the field after
the unions must hold the byte that follows them.

Anonymous members below a named member (harness/v8_c11.py, own PRNG stream): unions with a NAMED structure member whose definition
contains an anonymous structure or anonymous union (up to three levels: anonymous inside anonymous inside the named member, named
structures inside the anonymous part and next to it), declared inline / as named type / as typedef, next to plain members (scalars,
arrays, a covering byte array, plain structures, an anonymous structure directly in the union); < / >, packed / aligned, interpreted /
compiled; parsed from bytes or a stream, default-constructed, or embedded as a member of an outer structure.  Histories of 1-6
steps assign fields of the anonymous parts through the forwarded attributes of the named member (`u.h.lo = v`, `u.h.x = v`), named
fields of that member, fields of the other members, whole structure members (`u.h = H(bytes)`, `u.h = u.h`).  Right after parsing and
after every step every member must equal the textbook parse (refimpl) of its type from a reference buffer kept by the probe, the dump
of the union, of each structure member (`bytes(u.h)`) and of the outer structure must show the reference bytes, and fields read back
through the forwarded attributes must decode them.  The same histories go to the Lean model (shapes without a nested union).  Shapes
stay outside F9F10 (the dump member covers the union; a covering byte array is put in front otherwise), F44 and F56 (the anonymous
unions have scalar / array members only, no union directly in a union), F49 (arrays are assigned as a whole).

Input kinds and call forms (harness/v9_c11.py, own PRNG streams): two families of unions - (1) the FIRST member leaves padding / spare
bits that another member covers (aligned structure with a gap or tail padding, bit-field structure with spare bits in its storage
unit, smaller nested union, short char array, anonymous structure, array of structures; a covering byte / word array next to it),
(2) the first member is char / char[n] with the other members as large, smaller, larger or absent - x byte order spelled < > ! = @ x
packed / aligned x interpreted / compiled x member types inline / named / typedef x `union U` / `typedef union` x load / two loads /
loadfile.  The union's bytes are handed over as bytes, a bytes subclass, bytearray, memoryview, memoryview slices of a larger bytes /
bytearray, memoryview(array), BytesIO, BufferedReader, a real file (buffered and unbuffered), a bare read-seek-tell object (streams
positioned inside larger data) through U(x), U.read, U.reads, U._read, cs.read('U', x), U[1](x), U[2](y + x) and as the member of a
structure W(x).u: every member == textbook parse (refimpl) of its type from the bytes, dumps() == the bytes at data-carrying bits,
bytes(u) == dumps(), streams advance by exactly the size; one assignment on a quarter of the objects (reference buffer with the
member's bytes replaced).  Inputs of another length: longer buffers (tail ignored) and k < len(U) bytes (k = the first member's size -
`char t[n]` handed exactly n bytes -, the largest member, len(U) - 1): success with the reference values when only tail padding is
missing, no union object otherwise.  Plain shapes also go to the Lean model.
"""
from __future__ import annotations

import io
import itertools
import struct as _struct

from .. import common, defs, impl, refimpl, t3_c11
from ..common import A, Case, Result, mkrng, parse_sexp, run_driver, sx
from ..structprops import union_dump_incomplete, has

S = lambda n: ("sc", n)  # noqa: E731
F = lambda n, t, b=None: {"name": n, "ty": t, "bits": b}  # noqa: E731
PACK = {"float16": "e", "float": "f", "double": "d"}


def gen_union(rnd, counter):
    def nm():
        counter[0] += 1
        return f"m{counter[0]}"

    def scalar():
        if rnd.random() < 0.22:
            return S(rnd.choice(["float", "float", "double", "float16"]))
        return S(rnd.choice(["uint8", "int8", "uint16", "int16", "uint32", "int32", "uint64", "uint24", "int48", "char"]))

    def struct(depth):
        fs = []
        for _ in range(rnd.randint(1, 3)):
            r = rnd.random()
            if r < 0.6:
                fs.append(F(nm(), scalar()))
            elif r < 0.8:
                fs.append(F(nm(), ("arr", scalar(), ("fixed", rnd.randint(1, 3)))))
            elif depth > 0:
                fs.append(F(nm(), ("struct", struct(depth - 1))))
            else:
                fs.append(F(nm(), S("uint16")))
        return fs

    members = []
    for _ in range(rnd.randint(2, 4)):
        r = rnd.random()
        if r < 0.35:
            members.append(F(nm(), scalar()))
        elif r < 0.52:
            members.append(F(nm(), ("arr", scalar(), ("fixed", rnd.randint(1, 4)))))
        elif r < 0.62:
            members.append(F(nm(), ("arr", ("struct", struct(0)), ("fixed", rnd.randint(1, 3)))))
        elif r < 0.82:
            members.append(F(nm(), ("struct", struct(1))))
        elif r < 0.91:
            members.append(F(None, ("struct", struct(0))))
        else:
            members.append(F(nm(), ("enum", rnd.choice(["E8", "F16", "E32"]))))
    return ("union", members)


def is_int(ty):
    return ty[0] == "sc" and refimpl.sc(ty[1])[0] == "int"


def is_flt(ty):
    return ty[0] == "sc" and refimpl.sc(ty[1])[0] == "flt"


def leaf_paths(ty, T, prefix=()):
    """assignable integer and float leaves: (path of attribute names, type tree)"""
    out = []
    if ty[0] == "struct":
        for f, rf in zip(ty[1], T.__fields__):
            if is_int(f["ty"]) or is_flt(f["ty"]):
                out.append((prefix + (rf._name,), f["ty"]))
            elif f["ty"][0] == "struct" and f["name"] is not None:
                out += leaf_paths(f["ty"], rf.type, prefix + (rf._name,))
    return out


def rand_int(rnd, ty):
    _, size, signed, _ = refimpl.sc(ty[1])
    bits = 8 * size
    lo, hi = (-(1 << (bits - 1)), (1 << (bits - 1)) - 1) if signed else (0, (1 << bits) - 1)
    return rnd.choice([lo, hi, 0, 1, rnd.randint(lo, hi), rnd.randint(lo, hi)])


def rand_float(rnd, ty):
    """a value the float type represents exactly (never a NaN); zeros of both signs are frequent"""
    _, size, _, _ = refimpl.sc(ty[1])
    r = rnd.random()
    if r < 0.5:
        return rnd.choice([0.0, -0.0])
    if r < 0.65:
        return rnd.choice([1.0, -1.0, 0.5, 2.0, float("inf"), float("-inf")])
    while True:
        bits = rnd.getrandbits(8 * size)
        if not impl.flt_is_nan(bits, size):
            return _struct.unpack(">" + PACK[ty[1]], bits.to_bytes(size, "big"))[0]


def rand_leaf(rnd, ty):
    return rand_float(rnd, ty) if is_flt(ty) else rand_int(rnd, ty)


def rand_bytes(rnd, n, sparse):
    if sparse:
        return bytes(rnd.choice((0, 0, 0, 0, 0x80)) for _ in range(n))
    return bytes(rnd.randrange(256) for _ in range(n))


def pyrepr(v):
    if isinstance(v, float):
        return f"float({str(float(v))!r})" if v in (float("inf"), float("-inf")) else repr(float(v))
    return repr(v)


def equal_but_different(mtype, cur, enc0):
    """values w with `cur == w` whose encoding differs from the member's present bytes enc0: found by flipping the top bit
    of one byte (the sign bit of a zero float, wherever it sits in the member) -> [(w, encoding)]"""
    out = []
    for j in range(len(enc0)):
        e1 = bytearray(enc0)
        e1[j] ^= 0x80
        e1 = bytes(e1)
        try:
            w = mtype(e1)
            if (cur == w) is True and mtype.dumps(w) == e1:
                out.append((w, e1))
        except Exception:  # noqa: BLE001
            pass
    return out


def run(env) -> Result:
    res = Result()
    res.rule = ("seeded random fixed-size unions of 2-4 members (ints of all widths, float16/float/double, char, arrays, arrays of structs, enums, "
                "named/anonymous/doubly nested structs) x {<,>} x {packed, aligned}; random or sparse (00/80 bytes: signed zeros) contents; "
                "histories of up to 6 assignments: whole member (random int / float incl. +-0.0 / value parsed from fresh bytes), field of a "
                "nested struct at depth 1 and 2, forwarded field of an anonymous struct, a value == to the member's present value but "
                "encoding differently (-0.0 over 0.0 and back, also inside arrays and structs; int 0 over -0.0), the member's own object "
                "mutated in place and assigned back (x = u.arr; x[i].p = v; u.arr = x), u.m = u.m. After every step: each member == parse of "
                "its type from the reference buffer (overwrite semantics), dumps == reference buffer up to bits that are padding in every "
                "member (dump not compared while a float slot holds a NaN pattern). "
                "Placement: the union as named type U (packed / aligned) parsed from file-like streams at start offsets 0..17, as U[n] from "
                "such offsets, as member `U u; U w[2]` of packed / aligned outer structures (fixed layout and after a dynamic field, "
                "interpreted / compiled): consumed bytes == len(U) resp. n * len(U), every member == parse of its type from exactly the "
                "union's bytes, the following field holds the following byte. "
                "Unions nested in unions (2 and 3 levels, byte-array views at every level, packed, interpreted / compiled): histories of "
                "assignments through o.i.s.x / i.rawi / q / raw, after every step dump and every view == the reference buffer. "
                "Anonymous below a named member: unions with a named struct member containing anonymous structs / unions (1-3 levels, inline / "
                "named type / typedef) next to plain members, {<,>} x {packed, aligned} x {interpreted, compiled}, parsed from bytes / a stream, "
                "default-constructed or embedded in an outer struct; histories of 1-6 steps (forwarded field of the anonymous part through the "
                "named member, named fields, fields of other members, whole member from fresh bytes, u.h = u.h); after parsing and after every "
                "step: each member == textbook parse of its type from the reference buffer, dumps / bytes(u.h) / outer dumps == reference bytes "
                "at data-carrying bits, forwarded reads decode the reference bytes, len(U) and consumption == largest member (aligned: rounded up). "
                "Input kinds and call forms: unions whose first member leaves padding / spare bits another member covers (aligned gap / tail "
                "padded struct, bit-field struct, smaller nested union, short char array, anonymous struct, array of structs) and unions led by "
                "char / char[n] (others equal / smaller / larger / absent) x endian spelled < > ! = @ x {packed, aligned} x {interpreted, compiled} "
                "x {inline, named, typedef} x {load, two loads, loadfile}, parsed from {bytes, bytes subclass, bytearray, memoryview, memoryview "
                "slice of bytes / bytearray, memoryview(array), BytesIO, BufferedReader, real file buffered / unbuffered, bare stream} through "
                "{U(x), U.read, U.reads, U._read, cs.read, U[1](x), U[2](y+x), W(x).u}: each member == refimpl parse of its type from the bytes, "
                "dumps == bytes at data bits, bytes(u) == dumps, stream advance == size, one assignment on 1/4 of the objects; longer input "
                "(tail ignored) and short input of k bytes (first member's size, largest member, len(U)-1): reference values if only tail "
                "padding is missing, otherwise no union may be returned. "
                "distinct = (definition, config, contents, history prefix / call form, input kind); non-trivial = history of >= 1 assignment, "
                "every entry-point case")
    dc = impl.dc()
    rnd = mkrng(env["seed"], "c11")
    rnd_place = mkrng(env["seed"], "c11-placement")     # own stream: the histories below stay what they were
    tier = env["tier"]
    findings = {f["id"] for f in env["findings"]}
    lines, metas = [], []
    counter = [0]

    def viol(what, data, sigs=()):
        for s in sigs:
            if s in findings:
                res.known_seen[s] = res.known_seen.get(s, 0) + 1
                return
        if len(res.violations) < 50:
            res.violations.append(Case("property", what, data))

    for _ in range(260 if tier == "quick" else 6000):
        utree = gen_union(rnd, counter)
        if rnd_place.random() < (0.5 if tier == "quick" else 0.3):
            t3_c11.placement_probes(rnd_place, res, viol, utree, endian=rnd_place.choice("<>"), tier=tier)
        for endian, align in itertools.product("<>", (False, True)):
            if rnd.random() < 0.5:
                continue
            tree = ("struct", [F("u", utree)])
            compiled = rnd.random() < 0.5
            try:
                L = impl.Loaded(tree, endian=endian, align=align, compiled=compiled)
            except Exception as e:  # noqa: BLE001
                viol(f"union definition rejected: {type(e).__name__}: {e}", {"definition": defs.render_struct('T', tree)})
                continue
            U = L.T.fields["u"].type
            cfg = refimpl.Cfg(endian, align, "uint64", impl.CONSTS)
            sigs = ["F9F10"] if union_dump_incomplete(utree, cfg) else []
            cd0 = {"definition": L.text, "endian": endian, "align": align, "compiled": compiled}
            # size = largest member (rounded up to the alignment in aligned mode)
            msizes = [rf.type.size for rf in U.__fields__]
            want_size = max(msizes)
            if align and U.alignment:
                want_size = (want_size + U.alignment - 1) // U.alignment * U.alignment
            if U.size != want_size:
                viol(f"union size {U.size}, largest member {max(msizes)} / alignment {U.alignment} give {want_size}", cd0)
            sparse0 = rnd.random() < 0.3
            data = rand_bytes(rnd, U.size + 3, sparse0)
            if sparse0:
                res.feat("contents:sparse (signed zeros)")
            st = io.BytesIO(data)
            try:
                u = U(st)
            except Exception as e:  # noqa: BLE001
                viol(f"parsing a union raises {type(e).__name__}: {e}", dict(cd0, data=data.hex()))
                continue
            if st.tell() != U.size:
                viol(f"parsing a union consumed {st.tell()} bytes, its size is {U.size}", dict(cd0, data=data.hex()))
            ref = bytearray(data[: U.size])
            res.feat("members:" + str(len(utree[1])))
            if has(utree, lambda t, d, x: is_flt(t)):
                res.feat("union-with-float-slot")
            script = [f"from dissect.cstruct import cstruct; cs = cstruct(endian={endian!r}); cs.load({L.text!r}, compiled={compiled}, align={align})",
                      f"U = cs.T.fields['u'].type; u = U(bytes.fromhex({data[: U.size].hex()!r}))"]
            state = {"nan": False}

            def member_views():
                """each member re-parsed from the reference buffer with its own type"""
                out = []
                for rf in U.__fields__:
                    try:
                        out.append(impl.canon(rf.type(bytes(ref))))
                    except Exception as e:  # noqa: BLE001
                        out.append(("err", type(e).__name__))
                return out

            def cdata(hist):
                return dict(cd0, data=data.hex(), history=[str(h) for h in hist],
                            repro="\n".join(script + ["print(u, u.dumps().hex())"]))

            def check(step, hist):
                got = [impl.canon(getattr(u, rf._name)) for rf in U.__fields__]
                want = member_views()
                cd = cdata(hist)
                res.count((L.text, endian, align, data, tuple(map(str, hist))), len(hist) >= 1)
                for rf, g, w in zip(U.__fields__, got, want):
                    if not impl.same_val(w, g, ignore_union_buf=True):
                        viol(f"after {step}: member {rf._name} is {str(g)[:160]}, its type parses the union's bytes {bytes(ref).hex()} to {str(w)[:160]}", cd, sigs)
                        return False
                try:
                    d = u.dumps()
                except Exception as e:  # noqa: BLE001
                    viol(f"after {step}: dumps raises {type(e).__name__}: {e}", cd, sigs)
                    return False
                if len(d) != U.size:
                    viol(f"after {step}: dumps has {len(d)} bytes, the union has {U.size}", cd, sigs)
                if any(impl.contains_nan(w) for w in want):
                    # a NaN pattern in a float slot: Python floats do not keep the payload, the dump is outside the domain
                    state["nan"] = True
                    res.feat("dump-not-compared:NaN-pattern-in-a-float-slot")
                    return True
                # bits that are padding in every member may differ; everything else must be the reference bytes
                allmask = bytearray(U.size)
                for f in utree[1]:
                    try:
                        _, _, m = refimpl.parse(f["ty"], bytes(ref), 0, cfg)
                        for i, b in enumerate(m[: U.size]):
                            allmask[i] |= b
                    except (refimpl.Short, refimpl.Bad):
                        pass
                if any((a ^ b) & m for a, b, m in zip(d, ref, allmask)):
                    viol(f"after {step}: dumps {d.hex()} differs from the union's bytes {bytes(ref).hex()} at data-carrying bits", cd, sigs)
                return True

            hist = []
            if not check("parsing", hist):
                continue
            ops_model = []
            ok_model = True
            follow = None          # member assigned last: candidate for an equal-but-different-encoding follow-up
            for _step in range(rnd.randint(1, 6)):
                if follow is not None and rnd.random() < 0.45:
                    k, want_eq = follow, True
                else:
                    k, want_eq = rnd.randrange(len(utree[1])), rnd.random() < 0.25
                follow = None
                f, rf = utree[1][k], U.__fields__[k]
                ty, name, mtype = f["ty"], rf._name, rf.type
                named = f["name"] is not None
                msize = mtype.size
                try:
                    r = rnd.random()
                    eqs = equal_but_different(mtype, getattr(u, name), bytes(ref[:msize])) if (want_eq and named) else []
                    if want_eq and named and is_flt(ty) and bytes(ref[:msize]) != mtype.dumps(0) and getattr(u, name) == 0:
                        eqs.append((0, mtype.dumps(0)))     # the integer 0 == -0.0
                    if eqs:
                        w, enc = rnd.choice(eqs)
                        hist.append((name, "equal-encoding", pyrepr(w) if is_flt(ty) else str(w), enc.hex()))
                        script.append(f"u.{name} = {pyrepr(w)}" if is_flt(ty) else
                                      f"u.{name} = U.fields[{name!r}].type(bytes.fromhex({enc.hex()!r}))   # == the value u.{name} holds")
                        setattr(u, name, w)
                        res.feat("assign:equal-value-different-encoding")
                    elif named and r < 0.12:
                        # the member's own value is assigned back
                        hist.append((name, "reassign-own"))
                        script.append(f"u.{name} = u.{name}")
                        setattr(u, name, getattr(u, name))
                        enc = mtype.dumps(mtype(bytes(ref)))
                        res.feat("assign:own-value")
                    elif is_int(ty) or is_flt(ty):
                        v = rand_leaf(rnd, ty)
                        hist.append((name, pyrepr(v)))
                        script.append(f"u.{name} = {pyrepr(v)}")
                        setattr(u, name, v)
                        enc = mtype.dumps(v)
                        res.feat("assign:scalar" if is_int(ty) else "assign:float-scalar")
                    elif named and ty[0] == "arr" and ty[1] != S("char") and r < 0.5:
                        # the member's own list object, mutated in place, is assigned back
                        ety = ty[1]
                        cur = mtype(bytes(ref))
                        i = rnd.randrange(len(cur))
                        x = getattr(u, name)
                        if is_int(ety) or is_flt(ety):
                            path, v = (), rand_leaf(rnd, ety)
                            x[i] = v
                            cur[i] = v
                        elif ety[0] == "struct" and leaf_paths(ety, mtype.type):
                            path, lty = rnd.choice(leaf_paths(ety, mtype.type))
                            v = rand_leaf(rnd, lty)
                            for obj in (x[i], cur[i]):
                                for p in path[:-1]:
                                    obj = getattr(obj, p)
                                setattr(obj, path[-1], v)
                        else:
                            continue
                        at = f"x[{i}]" + "".join("." + p for p in path)
                        hist.append((name, "mutate-reassign", at, pyrepr(v)))
                        script.append(f"x = u.{name}; {at} = {pyrepr(v)}; u.{name} = x")
                        setattr(u, name, x)
                        enc = mtype.dumps(cur)
                        res.feat("assign:own-object-mutated-in-place:" + ("array-of-structs" if path else "array-of-scalars"))
                    elif ty[0] == "struct" and (not named or r < 0.7):
                        leaves = leaf_paths(ty, mtype)
                        if not leaves:
                            continue
                        path, lty = rnd.choice(leaves)
                        v = rand_leaf(rnd, lty)
                        # current member value, modified, is what the buffer must receive
                        cur = mtype(bytes(ref))
                        tgt = cur
                        for p in path[:-1]:
                            tgt = getattr(tgt, p)
                        setattr(tgt, path[-1], v)
                        enc = cur.dumps()
                        hist.append((name + "." + ".".join(path), pyrepr(v)))
                        if not named and len(path) == 1:
                            script.append(f"u.{path[0]} = {pyrepr(v)}")
                            setattr(u, path[0], v)       # forwarded attribute of the anonymous structure
                            res.feat("assign:anonymous-forwarded")
                        else:
                            script.append(f"u.{name}.{'.'.join(path)} = {pyrepr(v)}")
                            obj = getattr(u, name)
                            for p in path[:-1]:
                                obj = getattr(obj, p)
                            setattr(obj, path[-1], v)
                            res.feat(f"assign:nested-depth{len(path)}")
                        if is_flt(lty):
                            res.feat("assign:nested-float-field")
                    elif named:
                        # whole member from fresh bytes (array, structure, array of structures, enum, char)
                        w = mtype(rand_bytes(rnd, msize, rnd.random() < 0.5))
                        enc = mtype.dumps(w)
                        hist.append((name, "whole", enc.hex()))
                        script.append(f"u.{name} = U.fields[{name!r}].type(bytes.fromhex({enc.hex()!r}))")
                        setattr(u, name, w)
                        res.feat("assign:whole-" + ty[0] + ("-of-structs" if ty[0] == "arr" and ty[1][0] == "struct" else ""))
                    else:
                        continue
                except Exception as e:  # noqa: BLE001
                    viol(f"assignment {hist[-1] if hist else ''} to {name} raises {type(e).__name__}: {e}", cdata(hist),
                         sigs + (["F26"] if ty[0] == "struct" else []))
                    ok_model = False
                    break
                ref[: len(enc)] = enc
                cm = impl.canon(mtype(bytes(enc)))    # re-parsed: floats carry their width
                if impl.contains_nan(cm):
                    state["nan"] = True
                ops_model.append([k, cm])
                if named:
                    follow = k
                if not check(f"assigning {hist[-1]}", hist):
                    ok_model = False
                    break
            if hist:
                res.feat(f"history:length={len(hist)}")
            if state["nan"]:
                res.feat("model:not-sent (NaN pattern in a float slot)")
            if ok_model and not sigs and not state["nan"] and not has(utree, lambda t, d, x: t[0] == "ptr"):
                lines.append(sx([A("unionhist"), L.cfg_sexp(), impl.real_ty_sexp(utree, U, align), data, ops_model]))
                metas.append((cdata(hist), bytes(u._buf), [impl.canon(getattr(u, rf._name)) for rf in U.__fields__], u.dumps()))
    # ---- unions nested in unions, assignments two and three levels deep (real code against a reference buffer; harness/v4_c11.py)
    from .. import v4_c11
    v4_c11.run(env, res, viol, mkrng(env["seed"], "c11-nested"), dc)
    # ---- anonymous structs / unions BELOW a named structure member, reached through the forwarded attributes (harness/v8_c11.py);
    #      own PRNG stream, the model lines join the batch below
    from .. import v8_c11
    v8_c11.run(env, res, viol, mkrng(env["seed"], "c11-anon-below-named"), dc, lines, metas)

    # ---- input kinds and call forms: every public way of handing a union its bytes (harness/v9_c11.py); own PRNG streams
    from .. import v9_c11
    v9_c11.run(env, res, viol, dc, lines, metas)

    answers = run_driver(lines) if env["driver_ok"] else [None] * len(lines)
    for (cd, buf, vals, dump), ans in zip(metas, answers):
        if ans is None:
            continue
        s = parse_sexp(ans)
        ok = s[0] == "ok"
        if ok:
            last = s[-1]
            ok = str(last[0]) == common.hx(buf) and len(last[1]) == len(vals) and all(impl.same_val(a, b, ignore_union_buf=True) for a, b in zip(vals, last[1])) \
                and str(last[2]) == common.hx(dump)
        if not ok:
            res.disagreements.append(Case("corr", f"union history: model ends in {ans[-300:]}, implementation has buf {buf.hex()} dump {dump.hex()}", cd))
    if metas:
        res.sample({"definition": metas[0][0]["definition"], "history": metas[0][0]["history"]})
        for m in metas:
            if any("equal-encoding" in h or "mutate-reassign" in h for h in m[0]["history"]):
                res.sample({"definition": m[0]["definition"], "history": m[0]["history"]}, 3)
    return res


def replay(body) -> int:
    c = body.get("case") or {}
    print("replay:", body.get("what"))
    if c.get("repro"):
        impl.dc()
        print("replay: running the recorded history on the library")
        try:
            exec(compile(c["repro"], "<replay>", "exec"), {})  # noqa: S102
        except Exception as e:  # noqa: BLE001
            print(f"replay: raises {type(e).__name__}: {e}")
    else:
        print("replay:", c)
    return 0
