"""C13 — definition parsing ignores comments, spacing and order of unrelated definitions; aliases resolve to the same type.

Definition sets are generated as token lists; the baseline text joins tokens with single blanks, the mutants insert
comments / blanks / newlines at token boundaries (outside `[...]` and `#define` lines), permute definitions that do not
refer to each other, and split the text over several load() calls.  Signature of a loaded set: for every user name the
resolved type's kind, size, alignment, fields (names, types, offsets, bit widths), enum members, a probe parse, and which
names denote the very same type object.  The Lean model covers the comment stripper and the alias table (`resolve`).

Added probe families (helpers in harness/s5_c13.py):
 * rich comments (`layout-rich`, `order+layout-rich`, `one-comment` mutants): every token boundary gets 1..4 adjacent pieces of white
   space / block comments / line comments whose bodies are drawn from fragments containing `//`, `/*`, `*/` (line comments), quotes,
   stars, slashes, newlines, URLs and definition-like text; also a comment before the first and after the last token (a final line
   comment without newline).  `one-comment` puts a single such separator at one boundary of the baseline text (a minimal witness).
   Newlines inside an enum member stay excluded exactly as before (finding F20).  Struct typedefs now also declare several names.
 * re-declaration probes: an environment binds names through every declaration form (typedef scalar, typedef chain, struct/union,
   typedef struct tag {...} a, b, c, typedef of an anonymous struct, enum, flag, body-less typedefs) in one text or several load()
   calls with their own options; then one bound name (or a built-in) is re-declared through one of the forms, in a further load() or
   at the end of the same text: the same target (decided by identity of the resolved types) must be accepted, a different one must
   raise, and afterwards every name still resolves to the very same type (object identity / description / alias partition) and all
   names introduced by one accepted struct typedef are the very same type.
 * load() option histories: 2..4 generated definition sets that do not refer to each other, each with its own load() keyword options
   (align=, compiled=), loaded into one instance in shuffled orders, sometimes with failing load() calls in between: every set must
   have the signature it has when loaded with its own options into a fresh instance.
 * name twins (generator feature, `twins` of gen_items; about 40 % of all definition sets, also those of the option histories): distinct
   types that carry the same display name in unrelated definitions — locally tagged nested structs / unions (`struct entry {...}`, tags
   are local to the member) with different bodies in different top-level definitions, declared as plain, pointer, fixed-array,
   null-terminated and `[cnt & 3]` members, and the built-in pair int48 / uint48 (both displayed as "int48") with the same array counts;
   scalar descriptions in the signature now include signedness.  The existing order / split / option-history probes then show whether a
   type depends on which unrelated definition was loaded first.
 * `order+split` mutants: a dependency-respecting permutation whose text is split over 2..4 load() calls.
 * declarator forms and exact names (round 3): half of the struct/union items end in declarators — `typedef struct tag {...} a, b;`,
   `typedef struct {...} a;`, `struct tag {...} a;`, `struct {...} a, b;` (anonymous and tagged, one name or a name list).  The baseline
   text is now the compact spelling (nothing before `;` and `,`), so every mutant family also inserts blanks / newlines / comments between
   a declarator name and the terminating `;` and between the names and commas of a name list (feature `separator:declarator-name|...`).
   The signature contains every structure's / enum's `__name__` exactly, and the registered names (keys of cs.typedefs without the
   built-in ones, keys of cs.consts) are compared exactly as spelt in the tables — nothing is stripped on the harness side.
 * re-declaration of names whose current target has no positive byte size (round 3): the environments also bind names to zero-sized
   targets (empty struct / union, tagged or anonymous; `typedef void V0`; `typedef T P0[0]`) and dynamically sized ones (structures with
   member-sized, null-terminated or LEB128 members; `typedef uleb128 L0`; `typedef char T0[]`) and aliases of them; `void` and `uleb128`
   joined the built-in names; these names are re-declared (same and different target) through every text form and — new form
   `add_type` — through `cs.add_type(name, "other name")` / `cs.add_type(name, <type object>)`.
 * multi-word enum / flag base types (`enum E : unsigned long long {...}`, ENUM_BASES_MULTI): the words are separate tokens, so every
   mutant family puts blanks / newlines / comments between them (the handler used to look the raw text up: `unsigned  int` was a
   ResolveError — repaired in the library; feature `enum-base:multi-word`).
 * blanks inside array brackets (mutant kinds `brackets`, `layout+brackets`; v1.pad_brackets, v1.BRACKET_PAIRS): blanks, tabs and comments
   without a newline around the count text of every `[...]` of the text — `a[ ]` is the null-terminated array `a[]`, `a[ 2 ]`, `a[ n & 3 ]`,
   `a[2][ ]`, `a[ EOF ]`; fields may now be null-terminated arrays (`f[]`) in every definition set.
 * comment-only separators (mutant kind `comment-only`, v1.comment_only_sep): the white space between two tokens is REPLACED by one or two
   block comments, so that a comment is all that separates them (`uint8/**/a`, `struct/*c*/S`, `a/**/:/**/3`); the comment scanner puts
   one blank there (before the repair the comment vanished and the tokens fused).
 * definition parser correspondence (helpers in harness/v1_c13.py): for every baseline text and every mutant text the declaration list
   of the Lean model of the scanner and the declaration handlers (`CstructModel/DefParser.lean`, driver command `parsedecls`) is compared
   with the declarations recorded from the REAL parser (a recording subclass of `TokenParser`, nothing in /repo is changed), and the
   model's token list (`scandef`) with the tokens of `re.Scanner` over the live regex table; the live regex table itself is compared with
   the table the model was written against.  Hand-written edge texts (v1.EDGE_TEXTS), random token soup and character-level mutants of generated definitions exercise the error
   paths and the scanner quirks (these texts are mostly rejected; only the model/implementation agreement is checked on them).
 * name collisions across unrelated definitions (round 7, helpers in harness/v8_c13.py; the order-independence differential on them):
   definition sets in which members of 1-3 NAMED enums / flags (13 underlying types or the default one; values as literals, implicit,
   expressions over earlier members of the same enum - `GREEN = RED + 1`, `W = R << 1` - and over free constants) carry the names of
   constants that are otherwise unrelated: `#define RED 10`, `#define RED (9 + 1)`, members of anonymous enums / flags (with members of
   their own computed from them), plus definitions computed from those constants (`#define D (RED + 2)`, `uint8 pad[RED]`) and
   consumers of the enums (struct / union with scalar, array and bit-field members, typedef aliases); either endianness, compiled /
   interpreted, aligned / packed.  Every set is loaded colliders-first, colliders-last and in random dependency-respecting orders, as one
   text, as one load() per definition, split over 2-3 load() calls, and with plain / rich / comment-only separators at the token
   boundaries (also between the operands of the member expressions): every variant must be accepted and give the observation of the
   reference text (type descriptions, member tables, parses of a random probe and of every member value alone and through the
   consumers, constants, identity partition, registered names); the enums and their consumers loaded without the colliders must look
   the same; the member tables must be the C numbering with the enum's own members in scope, the constants keep their own values.
   The reference text and half of the one-text mutants also go to the definition-parser correspondence.
 * comment stripper on carriage returns (v1.STRIP_EDGE, v1.STRIP_SOUP; F73): the generated definition texts contain no CR, so the
   `stripcomments` correspondence also runs on hand-written texts and a random soup over `/ * " ' CR LF CRLF` and ready-made comments
   with every kind of line end: `// c` + CR LF and `// c` + CR at the end of the text are comments, `// c` + CR + anything else is not.
 * unknown / cyclic aliases in every position (round 8, helpers in harness/v9_c13.py + v9_c13gen.py): a name that does not resolve - unknown,
   defined further down in the text / by a later load(), a dangling alias chain (cs.add_type, cs.typedefs, the legacy parser's typedef), an alias
   cycle built with add_type (1..4 names, with a lead-in chain), a chain of more than 10 lookups - put where a type name can stand: field type
   (plain, pointer, arrays, bit-field, `struct NAME f;`, inline nested struct / union, in struct / union / typedef struct with name lists),
   typedef target, enum / flag base type (named, anonymous), sizeof(NAME) inside #define values, enum / flag member values and array
   dimensions (16 expression shapes around the sizeof), Expression(cs, ...).evaluate([context]), cs.resolve, cs.NAME, cs.read, cs.add_type;
   loaded through cs.load (positional / keyword deftype), cs.loadfile on a real file, TokenParser(cs, ...).parse, the legacy parser; as one
   text, with the prelude apart, one load() per definition; compiled / interpreted, aligned / packed, endianness spellings < > ! @ =, pointer
   widths; compact and with the three layout mutant families.  Oracle: ResolveError at load time where the unmodified library resolves at load
   time (and afterwards no constant holds text such as 'sizeof(NAME)', nothing of the refused definition is registered), ResolveError on the
   first read for array dimensions - through T(bytes / bytearray / memoryview / BytesIO), T.read(bytes / stream / real file), cs.read, alone
   and inside an outer struct / union / array typedef -, never a value, never a hang (5 s alarm); after the missing name is defined (later
   definition loaded, dangling target added, cycle broken with replace=True) the same text is accepted and binds to that very type.  Every
   scenario is repeated with a name that does resolve (built-in, synonym, prelude typedef / struct / enum, API alias chains of up to exactly 10
   lookups): accepted, the member / alias / base type IS the resolved type object, constants / enum members / array lengths equal the harness's
   own arithmetic on its own size table.  The alias tables built through the API also go to the Lean model (`resolvein`).
"""
from __future__ import annotations

import itertools

from .. import common, impl
from .. import s5_c13 as s5
from .. import v1_c13 as v1
from .. import v8_c13 as v8
from .. import v9_c13 as v9
from ..common import A, Case, Result, mkrng, parse_sexp, run_driver, sx
from ..structprops import rand_bytes

SCALARS = ["uint8", "int16", "uint32", "uint64", "char", "wchar", "int24", "unsigned int", "long long", "DWORD", "unsigned short", "float"]
SEPS_REQ = [" ", "  ", "\n", "\t", " /* c */ ", " /* multi\n line */ ", " // trailing\n", "\n\n", " /**/", "/* a */ /* b */ "]
SEPS_OPT = ["", "", "/**/", "/* tight */"] + SEPS_REQ
# name twins: distinct types that carry the same display name.  Tags of nested structures are local to the member that declares them
# (they are never registered), so unrelated definitions may each declare their own `struct entry {...}`; the built-in int48 / uint48
# are two types that are both displayed as "int48".
LOCAL_TAGS = ["entry", "item", "hdr"]
TWIN_SCALARS = ["int48", "uint48"]
TWIN_COUNTS = ["2", "4", "2", "4", "", "cnt & 3", "cnt"]
# multi-word integer names of the built-in table, as base types of enums / flags (the words are separate tokens for the mutants)
ENUM_BASES_MULTI = ["unsigned int", "unsigned short", "unsigned char", "signed char", "unsigned long long", "long long", "signed int", "unsigned long",
                    "signed short"]


class Item:
    """a top-level definition: tokens (strings; a tuple marks an unbreakable token), names it defines, names it uses"""

    def __init__(self, tokens, defines, uses, line=False, enum=False):
        self.tokens, self.defines, self.uses, self.line, self.enum = tokens, defines, uses, line, enum


def gen_items(rnd, n, prefix="", multi=True, twins=None):
    """prefix: put before every top-level name (type, constant), so that several generated sets can share one instance;
    multi: allow several names after a struct typedef;
    twins: the set is rich in name twins (see LOCAL_TAGS): every struct/union starts with a `uint8 cnt` member and declares
    locally tagged nested structs/unions (1..3 members, so that equal tags get different bodies in different definitions) as plain,
    pointer, fixed-array, null-terminated and `[cnt & 3]` members, and int48 / uint48 members with the same array counts
    (None: decided by rnd)"""
    if twins is None:
        twins = rnd.random() < 0.4
    items = []
    types = []      # user type names usable by later items
    consts = []
    k = 0

    def tname():
        nonlocal k
        k += 1
        return f"{prefix}T{k}"

    def field_tokens(fname, avail):
        r = rnd.random()
        toks, uses = [], set()
        if r < 0.55 or not avail:
            toks += rnd.choice(SCALARS).split(" ")
        else:
            t = rnd.choice(avail)
            toks.append(t)
            uses.add(t)
        stars = rnd.choice([0, 0, 0, 1, 2])
        toks += ["*"] * stars
        r2 = rnd.random()
        if r2 < 0.2:
            cnt = rnd.choice(["2", "3", "0x2", "1 + 1", ""] + ([rnd.choice(consts)] if consts else []))
            if cnt in consts:
                uses.add(cnt)
            toks.append((fname + "[" + cnt + "]",))
        elif r2 < 0.27:
            toks.append((fname + "[2][3]",))
        elif r2 < 0.37 and stars == 0 and toks[-1] in ("uint8", "uint32", "int16", "uint64"):
            toks += [fname, ":", str(rnd.randint(1, 7))]
        else:
            toks.append(fname)
        toks.append(";")
        return toks, uses

    def twin_decl(fname, dyn=True):
        """declarator of a member whose type has a name twin: plain, pointer, fixed / null-terminated / member-sized array"""
        r = rnd.random()
        if r < 0.2:
            return [fname]
        if r < 0.3:
            return ["*", fname]
        cnt = rnd.choice(TWIN_COUNTS if dyn else TWIN_COUNTS[:4])
        return [(fname + "[" + cnt + "]",)]

    def twin_member(i, avail):
        """-> tokens, uses: a locally tagged nested struct/union member or an int48/uint48 member"""
        if rnd.random() < 0.3:
            return [rnd.choice(TWIN_SCALARS)] + twin_decl(f"w{i}") + [";"], set()
        inner, uses = [], set()
        for j in range(rnd.randint(1, 3)):
            ft, fu = field_tokens(f"g{i}_{j}", avail)
            inner += ft
            uses |= fu
        tag = [rnd.choice(LOCAL_TAGS[:2] if rnd.random() < 0.8 else LOCAL_TAGS)] if rnd.random() < 0.85 else []
        return [rnd.choice(["struct", "struct", "union"])] + tag + ["{"] + inner + ["}"] + twin_decl(f"n{i}") + [";"], uses

    for _ in range(n):
        r = rnd.random()
        if r < 0.12:
            nm = f"{prefix}K{len(consts)}"
            items.append(Item([(f"#define {nm} {rnd.choice(['2', '0x3', '(1 + 2)', '4'])}\n",)], {nm}, set(), line=True))
            consts.append(nm)
        elif r < 0.3:
            nm = tname()
            kind = rnd.choice(["enum", "flag"])
            base = rnd.choice(["uint8", "uint16", "uint32", "int32"] + ENUM_BASES_MULTI)
            mem = []
            for i in range(rnd.randint(1, 5)):
                mem.append(f"{nm}_M{i}")
                if rnd.random() < 0.5:
                    mem += ["=", rnd.choice(["1", "2", "0x10", "4", f"{nm}_M{i-1} + 1" if i else "7"])]
                mem.append(",")
            mem = mem[:-1] if rnd.random() < 0.5 else mem
            # a multi-word base type is several tokens: the mutants put blanks / newlines / comments between its words
            head = [kind, nm] + ([":"] + base.split(" ") if rnd.random() < 0.7 else [])
            items.append(Item(head + ["{"] + mem + ["}", ";"], {nm}, set(), enum=True))
            types.append(nm)
        elif r < 0.45 and types:
            nm = tname()
            tgt = rnd.choice(types + ["uint32", "unsigned int"] + (TWIN_SCALARS if twins else []))
            uses = {tgt} if tgt in types else set()
            suffix = rnd.choice(["", "", "*", "[2]"])
            if suffix == "[2]":
                toks = ["typedef"] + tgt.split(" ") + [(nm + "[2]",), ";"]
            elif suffix == "*":
                toks = ["typedef"] + tgt.split(" ") + ["*", nm, ";"]
            else:
                toks = ["typedef"] + tgt.split(" ") + [nm, ";"]
            items.append(Item(toks, {nm}, uses))
            if suffix == "":
                types.append(nm)
        else:
            nm = tname()
            kind = rnd.choice(["struct", "struct", "union"])
            body, uses = [], set()
            if twins:
                body += ["uint8", "cnt", ";"]
            for i in range(rnd.randint(1, 5)):
                if twins and rnd.random() < 0.5:
                    ft, fu = twin_member(i, types)
                    body += ft
                    uses |= fu
                elif rnd.random() < 0.15:
                    inner, iu = field_tokens(f"g{i}", types)
                    uses |= iu
                    body += [rnd.choice(["struct", "union"]), "{"] + inner + ["}", f"n{i}", ";"]
                else:
                    ft, fu = field_tokens(f"f{i}", types)
                    body += ft
                    uses |= fu
            form = rnd.random()
            if form < 0.5:
                # declarator forms: typedef struct tag {...} a, b;  typedef struct {...} a, b;  struct tag {...} a, b;  struct {...} a, b;
                aliases = [tname() for _ in range(rnd.choice([1, 1, 1, 2, 3]) if multi else 1)]
                anon = rnd.random() < 0.5
                head = (["typedef"] if rnd.random() < 0.55 else []) + [kind] + ([] if anon else [nm])
                toks = head + ["{"] + body + ["}"]
                for a in aliases:
                    toks += [a, ","]
                toks[-1] = ";"
                defined = list(aliases) if anon else [nm, *aliases]
                items.append(Item(toks, set(defined), uses))
                types += defined
            else:
                items.append(Item([kind, nm, "{"] + body + ["}", ";"], {nm}, uses))
                types.append(nm)
    return items


def join(tokens, rnd=None, enum=False, allow_f20=False, sepgen=None, only=None, hits=None):
    """baseline (rnd None): single blanks, and nothing before `;` and `,` (the usual compact spelling `} name;`, `a, b;`, so that a
    separator in front of the terminating `;` / between the names of a name list is an insertion the mutants make); mutant: random
    separators from the lists above, or — sepgen — from the richer comment family of s5_c13.rich_sep; only = k: the k-th breakable
    boundary alone gets a random separator (the others stay as in the baseline).
    Inside an enum body a newline between a member's name, '=' and value is finding F20: only produced when allow_f20.
    hits: a list that receives a mark for every non-empty separator put between a struct/union declarator name and `;` / `,`."""
    out = []
    inbody = False
    b = -1
    last_close = max((i for i, t in enumerate(tokens) if t == "}"), default=len(tokens))
    for i, t in enumerate(tokens):
        s = t[0] if isinstance(t, tuple) else t
        out.append(s)
        if i + 1 < len(tokens):
            nxt = tokens[i + 1]
            if isinstance(t, tuple) and s.endswith("\n"):
                continue
            b += 1
            ns = nxt[0] if isinstance(nxt, tuple) else nxt
            if s == "{":
                inbody = True
            if ns == "}":
                inbody = False
            if rnd is None or (only is not None and only != b):
                out.append("" if ns in (";", ",") else " ")
            else:
                need = (s[-1].isalnum() or s[-1] == "_") and (ns[0].isalnum() or ns[0] == "_")
                nonl = bool(enum and inbody and not allow_f20 and s not in ("{", ",") and ns not in ("}", ","))
                if sepgen is not None:
                    out.append(sepgen(rnd, need, nonl))
                else:
                    choices = SEPS_REQ if need else SEPS_OPT
                    if nonl:
                        choices = [c for c in choices if "\n" not in c]
                    out.append(rnd.choice(choices))
                if hits is not None and out[-1] and i > last_close and ns in (";", ","):
                    hits.append("declarator-name|" + ns + (":comment" if "/" in out[-1] else ":space"))
    return "".join(out)


def boundaries(tokens) -> int:
    """number of breakable token boundaries of one definition"""
    return sum(1 for i, t in enumerate(tokens[:-1]) if not (isinstance(t, tuple) and t[0].endswith("\n")))


def render(items, rnd=None, f20=False, rich=False, one=False, hits=None, sepgen=None):
    """rich: separators and comments from s5_c13 (comment bodies with //, /*, quotes, stars, slashes, newlines; adjacent
    comments; a comment before the first and after the last token); one: a single rich separator at one token boundary."""
    if rnd is None:
        return "\n".join(join(it.tokens) for it in items) + "\n"
    if one:
        tot = [boundaries(it.tokens) for it in items]
        k = rnd.randrange(max(1, sum(tot)))
        parts = []
        for it, n in zip(items, tot):
            parts.append(join(it.tokens, rnd, enum=it.enum, sepgen=s5.rich_sep, only=k if 0 <= k < n else -1, hits=hits))
            k -= n
        return "\n".join(parts) + "\n"
    sepgen = sepgen or (s5.rich_sep if rich else None)   # sepgen: the caller's own separator family (comment-only)
    out = []
    if rich and rnd.random() < 0.5:
        out.append(rnd.choice([s5.block_comment(rnd), s5.line_comment(rnd), s5.block_comment(rnd) + s5.line_comment(rnd)]))
    for it in items:
        p = join(it.tokens, rnd, enum=it.enum, allow_f20=f20, sepgen=sepgen, hits=hits)
        out.append(p)
        if rich:
            out.append(s5.rich_between(rnd) if not p.endswith("\n") else rnd.choice(["", "\n", s5.block_comment(rnd) + "\n", s5.line_comment(rnd)]))
        else:
            out.append(rnd.choice(["\n", "\n\n", " ", "\n// between definitions\n", "/* x */\n"]) if not p.endswith("\n") else rnd.choice(["", "\n", "/* y */\n"]))
    if rich and rnd.random() < 0.5:
        # a comment that ends the text (a line comment without a final newline)
        out.append(rnd.choice([s5.block_comment(rnd), s5.line_comment(rnd).rstrip("\n")]))
    return "".join(out)


def shown_name(T) -> str:
    """the display name of a type below the description depth; the name of an array type embeds the raw count text of its declarator
    (`int48[ cnt ]`): the blanks around a count are layout, not part of the name (observation, display only)"""
    import re
    return re.sub(r"\[\s*([^\]]*?)\s*\]", r"[\1]", T.__name__)


def describe_type(T, dc, depth=0):
    if isinstance(T, str):
        return ("alias-string", T)
    name = T.__name__
    if issubclass(T, dc.Structure):
        return ("struct" if not issubclass(T, dc.Union) else "union", name, T.size, T.alignment,
                tuple((f.name, describe_type(f.type, dc, depth + 1) if depth < 3 else shown_name(f.type), f.offset, f.bits) for f in T.__fields__))
    if issubclass(T, (dc.Enum, dc.Flag)):
        return ("flag" if issubclass(T, dc.Flag) else "enum", name, T.type.__name__, tuple((k, int(v.value)) for k, v in T.__members__.items()))
    if issubclass(T, dc.Pointer):
        return ("ptr", describe_type(T.type, dc, depth + 1) if depth < 3 else shown_name(T.type))
    from dissect.cstruct.types.base import BaseArray
    if issubclass(T, BaseArray):
        ne = T.num_entries
        # a member-sized count is an Expression: described by its text without the blanks around it (blanks inside the brackets of
        # a declarator are layout; the tokenizer of Expression skips them)
        return ("arr", describe_type(T.type, dc, depth + 1), ne if isinstance(ne, int) or ne is None else repr(ne).strip() if not hasattr(ne, "expression")
                else "Expression(" + str(ne.expression).strip() + ")")
    return ("scalar", name, T.size, getattr(T, "signed", None))


def normalise(sig):
    """anonymous type names are numbered in definition order: renumber by first occurrence"""
    import re
    text = repr(sig)
    seen = {}

    def sub(m):
        seen.setdefault(m.group(0), f"__anon{len(seen)}__")
        return seen[m.group(0)]
    return re.sub(r"__anonymous_\d+__", sub, text)


def signature(cs, names, probe, dc):
    sig = {}
    objs = {}
    for n in sorted(names):
        if n in cs.consts:
            sig[n] = ("const", cs.consts[n])
            continue
        try:
            T = cs.resolve(n)
        except Exception as e:  # noqa: BLE001
            sig[n] = ("unresolved", type(e).__name__)
            continue
        objs[n] = T
        d = describe_type(T, dc)
        try:
            v = ("ok", impl.canon(T(probe)))
        except Exception as e:  # noqa: BLE001
            v = ("err", type(e).__name__)
        sig[n] = (d, v)
    same = tuple(sorted((a, b) for a, b in itertools.combinations(sorted(objs), 2) if objs[a] is objs[b]))
    return normalise((sorted(sig.items()), same))


def user_names(cs, dc) -> tuple:
    """the names a text registered, exactly as they are spelt in the tables (type names without the built-in ones; constants)"""
    builtin = dc.cstruct().typedefs
    return tuple(sorted(k for k in cs.typedefs if k not in builtin)), tuple(sorted(cs.consts))


def toposort_variants(items, rnd, k):
    """dependency-respecting orderings: repeatedly pick any item all of whose uses are already defined"""
    outs = []
    for _ in range(k):
        remaining = list(items)
        defined = set()
        order = []
        while remaining:
            ready = [it for it in remaining if all(u in defined for u in it.uses)]
            if not ready:
                ready = remaining[:1]
            it = rnd.choice(ready)
            order.append(it)
            defined |= it.defines
            remaining.remove(it)
        outs.append(order)
    return outs


KINDS = ["layout", "layout", "layout", "order", "order+layout", "split", "one-comment", "one-comment", "layout-rich", "layout-rich", "order+layout-rich",
         "order+split", "order", "brackets", "layout+brackets", "comment-only", "comment-only"]


def twin_features(items) -> list[str]:
    """which name-twin shapes a definition set contains (evidence bookkeeping): local tags declared by several top-level definitions,
    how their members are declared, int48 next to uint48"""
    out = set()
    seen = {}
    scal = set()
    for k, it in enumerate(items):
        toks = [t[0] if isinstance(t, tuple) else t for t in it.tokens]
        for i, t in enumerate(toks):
            if t in TWIN_SCALARS and i + 1 < len(toks):
                scal.add(t)
                if "[" in toks[i + 1]:
                    out.add("twins:int48-array")
            if i >= 4 and t in ("struct", "union") and toks[i + 1] in LOCAL_TAGS and toks[i + 2] == "{":
                seen.setdefault(toks[i + 1], set()).add(k)
                d = toks[toks.index("}", i) + 1]
                out.add("twins:tagged-member:" + ("pointer" if d == "*" else "plain" if "[" not in d else "null-terminated" if d.endswith("[]") else
                                                  "dynamic-array" if "cnt" in d else "fixed-array"))
    if any(len(v) > 1 for v in seen.values()):
        out.add("twins:same-local-tag-in-several-definitions")
    if len(scal) == 2:
        out.add("twins:int48+uint48")
    return sorted(out)


def form_features(items) -> list[str]:
    """which struct/union declaration forms a definition set contains (evidence bookkeeping)"""
    out = set()
    for it in items:
        toks = [t[0] if isinstance(t, tuple) else t for t in it.tokens]
        if "{" not in toks or it.enum:
            continue
        head = toks[: toks.index("{")]
        if not head or head[-1] not in ("struct", "union") and (len(head) < 2 or head[-2] not in ("struct", "union")):
            continue
        last = len(toks) - 1 - toks[::-1].index("}")
        n = sum(1 for t in toks[last + 1:] if t not in (",", ";"))
        out.add("form:" + ("typedef-" if head[0] == "typedef" else "") + ("anonymous" if head[-1] in ("struct", "union") else "tagged") +
                ("-no-declarator" if n == 0 else "-one-declarator" if n == 1 else "-name-list"))
    return sorted(out)


def describe_norm(dc):
    return lambda T: normalise(describe_type(T, dc))


def redeclaration_probes(res, viol, dc, rnd, n):
    """environments that bind names through every declaration form, then one re-declaration of a bound name (see s5_c13)"""
    describe = describe_norm(dc)
    k = 0
    while k < n:
        env_decls = s5.gen_environment(rnd)
        env_names = [x for _, ns in env_decls for x in ns]
        names = env_names + s5.BUILTIN_NAMES
        # the environment in one text or over several load() calls with their own options
        cuts = sorted(rnd.sample(range(1, len(env_decls)), rnd.choice([0, 0, 1, 2])))
        env_loads = []
        for a, b in zip([0] + cuts, cuts + [len(env_decls)]):
            env_loads.append(["\n".join(t for t, _ in env_decls[a:b]), rnd.choice(s5.LOAD_OPTS)])
        holder = dc.cstruct()
        try:
            for text, opts in env_loads:
                holder.load(text, **opts)
        except Exception as e:  # noqa: BLE001
            res.feat("redeclare-env-rejected:" + type(e).__name__)
            k += 1
            continue
        for _ in range(6):
            k += 1
            text, form, X, expect, fresh = s5.gen_redeclaration(rnd, holder, dc, env_names, k)
            same_text = rnd.random() < 0.4 and form != "add_type"
            popts = rnd.choice(s5.LOAD_OPTS)
            new_names = ([X] + fresh) if form in ("tag-body", "body-name", "body-names") else []
            data = {"family": "redeclare", "environment": env_loads, "redeclaration": text, "redeclaration_options": popts, "expect": expect,
                    "names": names, "new_names": new_names, "same_text": same_text, "form": form, "name": X}
            res.count(("redeclare", tuple(t for t, _ in env_loads), text, same_text))
            res.feat(f"redeclare:{form}:{expect}" + (":same-text" if same_text else f":load#{len(env_loads) + 1}"))
            if X in s5.BUILTIN_NAMES:
                res.feat("redeclare:built-in-name")
            try:
                size = holder.resolve(X).size
                res.feat("redeclare:current-target:" + ("dynamic-size" if size is None else "zero-size" if size == 0 else "fixed-size") + ":" + expect)
            except Exception:  # noqa: BLE001
                pass
            problems, outcome = s5.eval_redeclaration(dc, describe, env_loads, text, popts, expect, names, new_names, same_text)
            res.feat("redeclare-outcome:" + outcome)
            for what in problems[:1]:
                viol(what, dict(data, outcome=outcome, problems=problems))


def option_history_probes(res, viol, dc, rnd, n):
    """several definition sets that do not refer to each other, each loaded with its own load() options (align=, compiled=) into one
    instance, in several orders and with failing load() calls in between (see s5_c13.eval_option_history)"""
    probe = rand_bytes(rnd, 256)
    for it in range(n):
        groups = []
        for gi in range(rnd.randint(2, 4)):
            for _attempt in range(5):
                items = gen_items(rnd, rnd.randint(1, 4), prefix=f"G{gi}_")
                if any(t in ("struct", "union") for i_ in items for t in i_.tokens):
                    break
            opts = dict(rnd.choice(s5.OPTION_SETS))
            if gi < 2 and rnd.random() < 0.7:
                # most histories mix aligned and packed loads
                opts["align"] = (gi == 0) == (it % 2 == 0)
            text = render(items)
            try:
                dc.cstruct().load(text, **opts)
            except Exception as e:  # noqa: BLE001
                res.feat("options-baseline-rejected:" + type(e).__name__)
                continue
            groups.append([text, opts, sorted(set().union(*[i_.defines for i_ in items]))])
        if len(groups) < 2:
            continue
        for _ in range(2):
            order = list(range(len(groups)))
            rnd.shuffle(order)
            if rnd.random() < 0.3:
                order.insert(rnd.randint(0, len(order)), rnd.choice(s5.FAILING_LOADS))
            res.count(("options", tuple((g[0], tuple(sorted(g[1].items()))) for g in groups), tuple(order)))
            res.feat("options-history:loads=" + str(len(order)))
            res.feat("options-history:distinct-options=" + str(len({tuple(sorted(g[1].items())) for g in groups})))
            if any(isinstance(o, str) for o in order):
                res.feat("options-history:with-failing-load")
            for gi, what, want, got in s5.eval_option_history(dc, signature, groups, order, probe)[:1]:
                viol(what, {"family": "options", "groups": groups, "history": order, "group": gi, "probe": probe.hex(),
                            "fresh_instance_sig": want, "history_sig": got})


def run(env) -> Result:
    res = Result()
    res.rule = ("seeded definition sets of 3..9 items (#define, enum/flag with explicit/implicit/expression members, typedef of scalars, "
                "pointers, arrays and earlier types, struct/union with scalar, multi-word, pointer, array, bit-field and inline nested members, "
                "typedef struct with alias); mutants: random comment/blank/newline separators at every token boundary (outside [...] and "
                "#define lines), dependency-respecting permutations, the text split over several load() calls; alias laws on built-in synonyms, "
                "typedef chains, re-declaration, unknown and cyclic aliases. distinct = (definition set, mutant text); non-trivial = >= 3 items. "
                "rich comment mutants (bodies with //, /*, */, quotes, stars, slashes, newlines, adjacent comments, comment at start/end of text, "
                "single-comment mutants); re-declaration probes (every declaration form x same/different target x same text / later load()); "
                "load() option histories (independent definition sets with their own align=/compiled= options, shuffled, vs. a fresh instance each); "
                "name twins in ~40 % of the sets: same local struct/union tag with different bodies in unrelated definitions (plain, pointer, fixed, "
                "null-terminated, member-sized array members), int48 next to uint48; permutations split over several load() calls; "
                "struct/union declarator forms (typedef or not, tagged or anonymous, one name or a name list) with separators between declarator "
                "name and ';' / ','; type __name__ and registered names compared exactly; re-declaration (text forms and cs.add_type) of names "
                "bound to zero-sized (empty struct/union, void, T[0]) and dynamically sized (member-sized / null-terminated arrays, LEB128) targets; "
                "name collisions across unrelated definitions: named enums / flags whose members (referred to by later members: B = A + 1) are "
                "named like #define constants / members of anonymous enums, with derived constants and consumer structures, loaded "
                "colliders-first / colliders-last / in random dependency-respecting orders x one text / one load() per definition / split / "
                "layout mutants x endianness x compiled x align: same observation as the reference text, same as without the colliders, "
                "member tables = C numbering with the enum's own members in scope; "
                "unknown / cyclic aliases in every position: names that do not resolve (unknown, defined later, dangling alias chains, add_type "
                "cycles, chains of more than 10 lookups) x positions (field type forms, typedef target, enum/flag base, sizeof in #define / enum "
                "value / array dimension / Expression, cs.resolve / cs.NAME / cs.read / cs.add_type) x entry points (load, load with deftype, "
                "loadfile, TokenParser.parse, legacy parser; one text / prelude apart / per definition) x options (compiled, align, endianness "
                "spelling, pointer width) x layout mutants: ResolveError at load where the library resolves at load (no text constant, nothing "
                "registered), ResolveError on every first read (bytes / bytearray / memoryview / streams / real file / cs.read; alone and inside "
                "other types) for array dimensions, never a value or a hang; after the name is defined the same text binds to that type; each "
                "scenario also with a resolving name (control: identity of the bound type, values by the harness's own size arithmetic); alias "
                "tables also to the model's resolve")
    dc = impl.dc()
    rnd = mkrng(env["seed"], "c13")
    tier = env["tier"]
    findings = {f["id"] for f in env["findings"]}
    lines, metas = [], []

    def viol(what, data, sig=None):
        if sig and sig in findings:
            res.known_seen[sig] = res.known_seen.get(sig, 0) + 1
        elif len(res.violations) < 40:
            res.violations.append(Case("property", what, data))

    probed = set()

    def probe_parser(text):
        """definition parser correspondence: the model's declaration list / token list vs. the real parser's (see v1_c13)"""
        if text in probed:
            return
        probed.add(text)
        real = v1.extract(dc, text)
        res.feat("parser-corr:" + ("accepted" if real[1] is None else "rejected:" + real[1][0]))
        lines.append(v1.request(text))
        metas.append(("decls", text, real))
        lines.append(v1.token_request(dc, text))
        metas.append(("toks", text, v1.real_tokens(dc, text)))

    if v1.live_table(dc) != v1.TABLE:
        diff = [(a, b) for a, b in itertools.zip_longest(v1.live_table(dc), v1.TABLE) if a != b]
        res.disagreements.append(Case("corr", f"the scanner's regex table differs from the one the Lean model mirrors: {diff[:2]!r}", {"diff": repr(diff)}))
    for text in v1.EDGE_TEXTS:
        res.count(("parser-edge", text))
        probe_parser(text)
    srnd = mkrng(env["seed"], "c13-scan")
    for i in range(1500 if tier == "quick" else 20000):
        text = v1.soup(srnd, srnd.randint(1, 14))
        if text in probed:
            continue
        res.count(("parser-soup", text), False)
        if i % 3 == 0:
            probe_parser(text)
        else:
            probed.add(text)
            lines.append(v1.token_request(dc, text))
            metas.append(("toks", text, v1.real_tokens(dc, text)))
    for _ in range(300 if tier == "quick" else 5000):
        its = gen_items(srnd, srnd.randint(1, 4))
        text = v1.char_mutant(srnd, render(its, srnd if srnd.random() < 0.7 else None, rich=srnd.random() < 0.3))
        res.count(("parser-char-mutant", text), False)
        probe_parser(text)
    probe = rand_bytes(rnd, 64)
    for _ in range(70 if tier == "quick" else 1000):   # (each cstruct object that defines a structure stays alive for the process: memory bounds the thorough tier)
        items = gen_items(rnd, rnd.randint(3, 9))
        names = set().union(*[it.defines for it in items])
        base_text = render(items)
        cs0 = dc.cstruct()
        try:
            cs0.load(base_text)
        except Exception as e:  # noqa: BLE001
            res.feat("baseline-rejected:" + type(e).__name__)
            continue
        base = signature(cs0, names, probe, dc)
        base_names = user_names(cs0, dc)
        res.feat("items:" + str(len(items)))
        for ft in form_features(items):
            res.feat(ft)
        for ft in twin_features(items):
            res.feat(ft)
        if any(it.enum and ":" in it.tokens and it.tokens.index("{") - it.tokens.index(":") > 2 for it in items):
            res.feat("enum-base:multi-word")
        # comment stripper correspondence (model)
        lines.append(sx([A("stripcomments"), base_text]))
        metas.append(("strip", base_text, dc.parser.TokenParser._remove_comments(base_text)))
        probe_parser(base_text)
        for mi in range(len(KINDS) if tier == "quick" else 2 * len(KINDS)):
            kind = KINDS[mi % len(KINDS)]
            its = items
            if kind.startswith("order"):
                its = toposort_variants(items, rnd, 1)[0]
            f20 = kind == "layout" and mi == 1 and any(it.enum for it in its)
            rich = kind.endswith("rich")
            hits = []
            if kind == "one-comment":
                text = render(its, rnd, one=True, hits=hits)
            elif kind == "comment-only":
                # block comments INSTEAD of the white space between two tokens (`uint8/**/a`): a comment is all that separates them
                text = render(its, rnd, hits=hits, sepgen=v1.comment_only_sep)
            else:
                text = render(its, rnd if "layout" in kind else None, f20=f20, rich=rich, hits=hits)
            if "brackets" in kind:
                # blanks (and comments without a newline) inside array brackets, around the count text
                text, nb = v1.pad_brackets(rnd, text)
                for ft in nb:
                    res.feat("brackets:" + ft)
            for ft in set(hits):
                res.feat("separator:" + ft)
            probe_parser(text)
            cd = {"family": "layout", "baseline": base_text, "mutant": text, "mutation": kind + ("+enum-newlines" if f20 else ""),
                  "names": sorted(names), "probe": probe.hex()}
            res.count((base_text, text), len(items) >= 3)
            res.feat("mutant:" + kind)
            if rich or kind == "one-comment":
                for ft in s5.comment_features(text):
                    res.feat("comment:" + ft)
            cs = dc.cstruct()
            try:
                if kind.endswith("split"):
                    cuts = sorted({rnd.randint(1, max(1, len(its) - 1)) for _ in range(1 if kind == "split" else rnd.randint(1, 3))})
                    cd["loads"] = [render(its[a:b]) for a, b in zip([0] + cuts, cuts + [len(its)])]
                    for t in cd["loads"]:
                        cs.load(t)
                else:
                    cs.load(text)
            except Exception as e:  # noqa: BLE001
                viol(f"the mutated text is rejected ({type(e).__name__}: {e}) although it only differs in layout/order", cd, "F20" if f20 else None)
                continue
            got = signature(cs, names, probe, dc)
            if got != base:
                i = next((j for j in range(min(len(base), len(got))) if base[j] != got[j]), 0)
                viol("inserting comments/whitespace or reordering independent definitions changed the resulting types",
                     dict(cd, baseline_sig=base[max(0, i - 150): i + 150], mutant_sig=got[max(0, i - 150): i + 150]), "F20" if f20 else None)
            elif user_names(cs, dc) != base_names:
                # the registered names, spelt exactly as in the tables (nothing is stripped on this side)
                viol("inserting comments/whitespace or reordering independent definitions changed the registered names",
                     dict(cd, baseline_names=base_names, mutant_names=user_names(cs, dc)), "F20" if f20 else None)
            if "layout" in kind or kind in ("one-comment", "comment-only"):
                lines.append(sx([A("stripcomments"), text]))
                metas.append(("strip", text, dc.parser.TokenParser._remove_comments(text)))
    for base_text, mutant in v1.BRACKET_PAIRS:
        res.count(("brackets-pair", base_text, mutant))
        res.feat("brackets:hand-written-pair")
        probe_parser(mutant)
        cd = {"family": "layout", "baseline": base_text, "mutant": mutant, "mutation": "brackets", "names": ["B"], "probe": probe.hex()}
        cs0, cs = dc.cstruct(), dc.cstruct()
        cs0.load(base_text)
        try:
            cs.load(mutant)
        except Exception as e:  # noqa: BLE001
            viol(f"the mutated text is rejected ({type(e).__name__}: {e}) although it only differs in blanks inside array brackets", cd)
            continue
        if signature(cs, {"B"}, probe, dc) != signature(cs0, {"B"}, probe, dc):
            viol("blanks inside array brackets changed the resulting types", cd)
    # comment stripper correspondence on texts with carriage returns (v1.STRIP_EDGE, v1.STRIP_SOUP; its own random stream): a `//` comment
    # closed by CR LF / by one CR at the end of the text is a comment (fix F73), one that runs into a lone CR is not
    strnd = mkrng(env["seed"], "c13-strip")
    stripped = set()
    for text in v1.STRIP_EDGE + [v1.strip_soup(strnd, strnd.randint(1, 10)) for _ in range(600 if tier == "quick" else 10000)]:
        if text in stripped:
            continue
        stripped.add(text)
        res.count(("strip-soup", text), False)
        if "\r" in text and "//" in text:
            res.feat("strip-soup:cr+line-comment")
        lines.append(sx([A("stripcomments"), text]))
        metas.append(("strip", text, dc.parser.TokenParser._remove_comments(text)))
    redeclaration_probes(res, viol, dc, mkrng(env["seed"], "c13-redeclare"), 240 if tier == "quick" else 3000)
    option_history_probes(res, viol, dc, mkrng(env["seed"], "c13-options"), 40 if tier == "quick" else 600)
    # name collisions across unrelated definitions: enum / flag members named like #define constants / anonymous-enum members (v8_c13)
    v8.collision_probes(res, viol, dc, mkrng(env["seed"], "c13-collision"), 36 if tier == "quick" else 300, tier, probe_parser)
    # unknown / cyclic aliases in every position where a type name can stand, through every load / read entry point (v9_c13); the alias
    # tables it builds also go to the model's `resolve`
    def probe_resolve(c, name, want):
        lines.append(sx([A("resolvein"), [[k, v if isinstance(v, str) else A("type")] for k, v in c.typedefs.items()], name]))
        metas.append(("resolvein", name, want))
    v9.unresolved_probes(res, viol, dc, mkrng(env["seed"], "c13-unresolved"), 260 if tier == "quick" else 3000, tier, probe_resolve)
    # ---- alias laws
    cs = dc.cstruct()
    for name, target in cs.typedefs.items():
        if isinstance(target, str):
            res.count(("builtin-alias", name))
            if cs.resolve(name) is not cs.resolve(target):
                viol(f"built-in synonym {name} does not resolve to the same type object as {target}", {"name": name})
    cs.load("typedef uint32 A1; typedef A1 A2; typedef A2 A3; struct S { A3 x; }; typedef S S2; typedef struct _Q { uint8 a; } Q, *PQ_unsupported_skip;"
            .replace(", *PQ_unsupported_skip", ""))
    res.count(("alias-chain",))
    if not (cs.A1 is cs.uint32 and cs.A3 is cs.uint32 and cs.S2 is cs.S and cs.Q is cs._Q and cs.S.fields["x"].type is cs.uint32):
        viol("typedef chain / struct typedef names do not resolve to the very same type", {"case": "alias-chain"})
    # re-declaring: accepted for the same target, refused for another
    # (also for names whose current target is zero-sized or dynamically sized)
    cs.load("struct ZE { }; typedef void VU; typedef uint8 PZ[0]; struct DY { uint8 n; char d[n]; }; typedef uleb128 LB; typedef ZE ZE2; typedef DY DY2;")
    for text, ok in (("typedef uint32 A1;", True), ("typedef DWORD A1;", True), ("typedef uint16 A1;", False), ("typedef S S2;", True),
                     ("typedef ZE ZE2;", True), ("typedef uint16 ZE2;", False), ("typedef void VU;", True), ("typedef uint8 VU;", False),
                     ("typedef S PZ;", False), ("typedef DY DY2;", True), ("typedef uint8 DY2;", False), ("typedef uleb128 LB;", True),
                     ("typedef uint8 LB;", False), ("struct ZE { uint8 a; };", False), ("typedef struct { uint8 a; } DY;", False)):
        res.count(("redeclare", text))
        try:
            cs.load(text)
            good = ok
        except ValueError:
            good = not ok
        except Exception:  # noqa: BLE001
            good = False
        if not good:
            viol(f"re-declaring an alias: {text!r} should be {'accepted' if ok else 'refused'}", {"case": text})
    # unknown and cyclic aliases are ResolveError, not a loop or a wrong binding
    from dissect.cstruct.exceptions import ResolveError
    cs.typedefs["cyc1"] = "cyc2"
    cs.typedefs["cyc2"] = "cyc1"
    chain = dc.cstruct()
    for i in range(14):
        chain.typedefs[f"c{i}"] = f"c{i+1}"
    chain.typedefs["c14"] = "uint8"
    for c, name in ((cs, "cyc1"), (cs, "nosuchtype"), (chain, "c0"), (chain, "c5")):
        res.count(("resolve-error", name))
        try:
            c.resolve(name)
            viol(f"resolving {name} (unknown / cyclic / over-long chain) returned a type", {"case": name})
        except ResolveError:
            pass
        except Exception as e:  # noqa: BLE001
            viol(f"resolving {name} raises {type(e).__name__}, not ResolveError", {"case": name})
        lines.append(sx([A("resolvein"), [[k, v if isinstance(v, str) else A("type")] for k, v in c.typedefs.items() ], name]))
        metas.append(("resolvein", name, "ResolveError"))
    for i in (6, 7, 10):
        res.count(("chain", i))
        ok = chain.resolve(f"c{i}") is chain.uint8
        lines.append(sx([A("resolvein"), [[k, v if isinstance(v, str) else A("type")] for k, v in chain.typedefs.items()], f"c{i}"]))
        metas.append(("resolvein", f"c{i}", "ok" if ok else "?"))
        if not ok:
            viol(f"alias chain of {15 - i} steps does not resolve", {"case": f"c{i}"})
    answers = run_driver(lines) if env["driver_ok"] else [None] * len(lines)
    for (kind, inp, want), ans in zip(metas, answers):
        if ans is None:
            continue
        s = parse_sexp(ans)
        if kind == "strip":
            if s[0] != "ok" or str(s[1]) != want:
                res.disagreements.append(Case("corr", f"comment stripper: model gives {ans[:200]!r}, implementation gives {want[:200]!r}", {"text": inp}))
        elif kind == "decls":
            try:
                diff = v1.compare(v1.model_events(ans), want)
            except Exception as e:  # noqa: BLE001
                diff = f"the model's answer could not be read ({type(e).__name__}: {e}): {ans[:200]!r}"
            if diff and len(res.disagreements) < 40:
                res.disagreements.append(Case("corr", "definition parser: " + diff[:600], {"text": inp, "model": ans[:2000], "implementation": repr(want)[:2000]}))
        elif kind == "toks":
            got = v1.model_tokens(ans)
            if got != want and len(res.disagreements) < 40:
                i = next((j for j in range(min(len(got), len(want))) if got[j] != want[j]), min(len(got), len(want)))
                res.disagreements.append(Case("corr", f"scanner: token #{i + 1}: model {got[i:i + 2]!r}, implementation {want[i:i + 2]!r}", {"text": inp}))
        else:
            got = "ok" if s[0] == "ok" else str(s[1])
            if got != want:
                res.disagreements.append(Case("corr", f"resolve {inp}: model {ans[:100]}, implementation {want}", {"name": inp}))
    res.sample({"baseline": metas[0][1][:400] if metas else ""})
    return res


def replay(body) -> int:
    """re-evaluate a recorded case of the layout / redeclare / options / collision / unresolved families on the current tree: 1 = it still fails"""
    print("replay:", body.get("what"))
    case = body.get("case") or {}
    dc = impl.dc()
    fam = case.get("family")
    if fam == "layout":
        probe = bytes.fromhex(case["probe"])
        names = set(case["names"])
        cs0 = dc.cstruct()
        cs0.load(case["baseline"])
        base = signature(cs0, names, probe, dc)
        cs = dc.cstruct()
        try:
            for t in case.get("loads") or [case["mutant"]]:
                cs.load(t)
        except Exception as e:  # noqa: BLE001
            print(f"still fails: the mutated text is rejected ({type(e).__name__}: {e})")
            return 1
        got = signature(cs, names, probe, dc)
        if got != base:
            print("still fails: the signatures differ")
            return 1
        if user_names(cs, dc) != user_names(cs0, dc):
            print("still fails: the registered names differ:", user_names(cs0, dc), "vs", user_names(cs, dc))
            return 1
    elif fam == "redeclare":
        problems, outcome = s5.eval_redeclaration(dc, describe_norm(dc), case["environment"], case["redeclaration"], case["redeclaration_options"],
                                                  case["expect"], case["names"], case["new_names"], case["same_text"])
        for p in problems:
            print("still fails:", p)
        if problems:
            return 1
    elif fam == "options":
        problems = s5.eval_option_history(dc, signature, case["groups"], case["history"], bytes.fromhex(case["probe"]))
        for p in problems:
            print("still fails:", p[1])
        if problems:
            return 1
    elif fam == "collision":
        problems = v8.eval_case(dc, __import__("sys").modules[__name__], case)
        for p in problems:
            print("still fails:", p)
        if problems:
            return 1
    elif fam == "unresolved":
        problems = v9.run_steps(dc, case)
        for p in problems:
            print("still fails:", p)
        if problems:
            return 1
    else:
        print(case)
        return 0
    print("the case passes on this tree")
    return 0
