"""C13 — definition parsing ignores comments, spacing and order of unrelated definitions; aliases resolve to the same type.

Definition sets are generated as token lists; the baseline text joins tokens with single blanks, the mutants insert
comments / blanks / newlines at token boundaries (outside `[...]` and `#define` lines), permute definitions that do not
refer to each other, and split the text over several load() calls.  Signature of a loaded set: for every user name the
resolved type's kind, size, alignment, fields (names, types, offsets, bit widths), enum members, a probe parse, and which
names denote the very same type object.  The Lean model covers the comment stripper and the alias table (`resolve`).
"""
from __future__ import annotations

import itertools

from .. import common, impl
from ..common import A, Case, Result, mkrng, parse_sexp, run_driver, sx
from ..structprops import rand_bytes

SCALARS = ["uint8", "int16", "uint32", "uint64", "char", "wchar", "int24", "unsigned int", "long long", "DWORD", "unsigned short", "float"]
SEPS_REQ = [" ", "  ", "\n", "\t", " /* c */ ", " /* multi\n line */ ", " // trailing\n", "\n\n", " /**/", "/* a */ /* b */ "]
SEPS_OPT = ["", "", "/**/", "/* tight */"] + SEPS_REQ


class Item:
    """a top-level definition: tokens (strings; a tuple marks an unbreakable token), names it defines, names it uses"""

    def __init__(self, tokens, defines, uses, line=False, enum=False):
        self.tokens, self.defines, self.uses, self.line, self.enum = tokens, defines, uses, line, enum


def gen_items(rnd, n):
    items = []
    types = []      # user type names usable by later items
    consts = []
    k = 0

    def tname():
        nonlocal k
        k += 1
        return f"T{k}"

    def field_tokens(fname, avail):
        r = rnd.random()
        toks, uses = [], set()
        if r < 0.55 or not avail:
            toks += rnd.choice(SCALARS).split(" ")
        else:
            t = rnd.choice(avail)
            toks.append(t)
            uses.add(t)
        stars = rnd.choice([0, 0, 0, 1, 2])
        toks += ["*"] * stars
        r2 = rnd.random()
        if r2 < 0.2:
            cnt = rnd.choice(["2", "3", "0x2", "1 + 1"] + ([rnd.choice(consts)] if consts else []))
            if cnt in consts:
                uses.add(cnt)
            toks.append((fname + "[" + cnt + "]",))
        elif r2 < 0.27:
            toks.append((fname + "[2][3]",))
        elif r2 < 0.37 and stars == 0 and toks[-1] in ("uint8", "uint32", "int16", "uint64"):
            toks += [fname, ":", str(rnd.randint(1, 7))]
        else:
            toks.append(fname)
        toks.append(";")
        return toks, uses

    for _ in range(n):
        r = rnd.random()
        if r < 0.12:
            nm = f"K{len(consts)}"
            items.append(Item([(f"#define {nm} {rnd.choice(['2', '0x3', '(1 + 2)', '4'])}\n",)], {nm}, set(), line=True))
            consts.append(nm)
        elif r < 0.3:
            nm = tname()
            kind = rnd.choice(["enum", "flag"])
            base = rnd.choice(["uint8", "uint16", "uint32", "int32"])
            mem = []
            for i in range(rnd.randint(1, 5)):
                mem.append(f"{nm}_M{i}")
                if rnd.random() < 0.5:
                    mem += ["=", rnd.choice(["1", "2", "0x10", "4", f"{nm}_M{i-1} + 1" if i else "7"])]
                mem.append(",")
            mem = mem[:-1] if rnd.random() < 0.5 else mem
            head = [kind, nm] + ([":", base] if rnd.random() < 0.7 else [])
            items.append(Item(head + ["{"] + mem + ["}", ";"], {nm}, set(), enum=True))
            types.append(nm)
        elif r < 0.45 and types:
            nm = tname()
            tgt = rnd.choice(types + ["uint32", "unsigned int"])
            uses = {tgt} if tgt in types else set()
            suffix = rnd.choice(["", "", "*", "[2]"])
            if suffix == "[2]":
                toks = ["typedef"] + tgt.split(" ") + [(nm + "[2]",), ";"]
            elif suffix == "*":
                toks = ["typedef"] + tgt.split(" ") + ["*", nm, ";"]
            else:
                toks = ["typedef"] + tgt.split(" ") + [nm, ";"]
            items.append(Item(toks, {nm}, uses))
            if suffix == "":
                types.append(nm)
        else:
            nm = tname()
            kind = rnd.choice(["struct", "struct", "union"])
            body, uses = [], set()
            for i in range(rnd.randint(1, 5)):
                if rnd.random() < 0.15:
                    inner, iu = field_tokens(f"g{i}", types)
                    uses |= iu
                    body += [rnd.choice(["struct", "union"]), "{"] + inner + ["}", f"n{i}", ";"]
                else:
                    ft, fu = field_tokens(f"f{i}", types)
                    body += ft
                    uses |= fu
            if rnd.random() < 0.3:
                alias = tname()
                extra = [alias] if rnd.random() < 0.5 else []
                toks = ["typedef", kind, nm, "{"] + body + ["}"] + [alias] + (([",", tname()]) if False else []) + [";"]
                items.append(Item(toks, {nm, alias}, uses))
                types += [nm, alias]
            else:
                items.append(Item([kind, nm, "{"] + body + ["}", ";"], {nm}, uses))
                types.append(nm)
    return items


def join(tokens, rnd=None, enum=False, allow_f20=False):
    """baseline (rnd None): single blanks; mutant: random separators from the lists above.
    Inside an enum body a newline between a member's name, '=' and value is finding F20: only produced when allow_f20."""
    out = []
    inbody = False
    for i, t in enumerate(tokens):
        s = t[0] if isinstance(t, tuple) else t
        out.append(s)
        if i + 1 < len(tokens):
            nxt = tokens[i + 1]
            if isinstance(t, tuple) and s.endswith("\n"):
                continue
            if rnd is None:
                out.append(" ")
            else:
                ns = nxt[0] if isinstance(nxt, tuple) else nxt
                need = (s[-1].isalnum() or s[-1] == "_") and (ns[0].isalnum() or ns[0] == "_")
                if s == "{":
                    inbody = True
                if ns == "}":
                    inbody = False
                choices = SEPS_REQ if need else SEPS_OPT
                if enum and inbody and not allow_f20 and s not in ("{", ",") and ns not in ("}", ","):
                    choices = [c for c in choices if "\n" not in c]
                out.append(rnd.choice(choices))
    return "".join(out)


def render(items, rnd=None, f20=False):
    parts = []
    for it in items:
        parts.append(join(it.tokens, rnd, enum=it.enum, allow_f20=f20))
    sep = "\n" if rnd is None else None
    if rnd is None:
        return "\n".join(parts) + "\n"
    out = []
    for p in parts:
        out.append(p)
        out.append(rnd.choice(["\n", "\n\n", " ", "\n// between definitions\n", "/* x */\n"]) if not p.endswith("\n") else rnd.choice(["", "\n", "/* y */\n"]))
    return "".join(out)


def describe_type(T, dc, depth=0):
    if isinstance(T, str):
        return ("alias-string", T)
    name = T.__name__
    if issubclass(T, dc.Structure):
        return ("struct" if not issubclass(T, dc.Union) else "union", T.size, T.alignment,
                tuple((f.name, describe_type(f.type, dc, depth + 1) if depth < 3 else f.type.__name__, f.offset, f.bits) for f in T.__fields__))
    if issubclass(T, (dc.Enum, dc.Flag)):
        return ("flag" if issubclass(T, dc.Flag) else "enum", T.type.__name__, tuple((k, int(v.value)) for k, v in T.__members__.items()))
    if issubclass(T, dc.Pointer):
        return ("ptr", describe_type(T.type, dc, depth + 1) if depth < 3 else T.type.__name__)
    from dissect.cstruct.types.base import BaseArray
    if issubclass(T, BaseArray):
        ne = T.num_entries
        return ("arr", describe_type(T.type, dc, depth + 1), ne if isinstance(ne, int) or ne is None else repr(ne))
    return ("scalar", name, T.size)


def normalise(sig):
    """anonymous type names are numbered in definition order: renumber by first occurrence"""
    import re
    text = repr(sig)
    seen = {}

    def sub(m):
        seen.setdefault(m.group(0), f"__anon{len(seen)}__")
        return seen[m.group(0)]
    return re.sub(r"__anonymous_\d+__", sub, text)


def signature(cs, names, probe, dc):
    sig = {}
    objs = {}
    for n in sorted(names):
        if n in cs.consts:
            sig[n] = ("const", cs.consts[n])
            continue
        try:
            T = cs.resolve(n)
        except Exception as e:  # noqa: BLE001
            sig[n] = ("unresolved", type(e).__name__)
            continue
        objs[n] = T
        d = describe_type(T, dc)
        try:
            v = ("ok", impl.canon(T(probe)))
        except Exception as e:  # noqa: BLE001
            v = ("err", type(e).__name__)
        sig[n] = (d, v)
    same = tuple(sorted((a, b) for a, b in itertools.combinations(sorted(objs), 2) if objs[a] is objs[b]))
    return normalise((sorted(sig.items()), same))


def toposort_variants(items, rnd, k):
    """dependency-respecting orderings: repeatedly pick any item all of whose uses are already defined"""
    outs = []
    for _ in range(k):
        remaining = list(items)
        defined = set()
        order = []
        while remaining:
            ready = [it for it in remaining if all(u in defined for u in it.uses)]
            if not ready:
                ready = remaining[:1]
            it = rnd.choice(ready)
            order.append(it)
            defined |= it.defines
            remaining.remove(it)
        outs.append(order)
    return outs


def run(env) -> Result:
    res = Result()
    res.rule = ("seeded definition sets of 3..9 items (#define, enum/flag with explicit/implicit/expression members, typedef of scalars, "
                "pointers, arrays and earlier types, struct/union with scalar, multi-word, pointer, array, bit-field and inline nested members, "
                "typedef struct with alias); mutants: random comment/blank/newline separators at every token boundary (outside [...] and "
                "#define lines), dependency-respecting permutations, the text split over several load() calls; alias laws on built-in synonyms, "
                "typedef chains, re-declaration, unknown and cyclic aliases. distinct = (definition set, mutant text); non-trivial = >= 3 items")
    dc = impl.dc()
    rnd = mkrng(env["seed"], "c13")
    tier = env["tier"]
    findings = {f["id"] for f in env["findings"]}
    lines, metas = [], []

    def viol(what, data, sig=None):
        if sig and sig in findings:
            res.known_seen[sig] = res.known_seen.get(sig, 0) + 1
        elif len(res.violations) < 40:
            res.violations.append(Case("property", what, data))

    probe = rand_bytes(rnd, 64)
    for _ in range(70 if tier == "quick" else 2500):
        items = gen_items(rnd, rnd.randint(3, 9))
        names = set().union(*[it.defines for it in items])
        base_text = render(items)
        cs0 = dc.cstruct()
        try:
            cs0.load(base_text)
        except Exception as e:  # noqa: BLE001
            res.feat("baseline-rejected:" + type(e).__name__)
            continue
        base = signature(cs0, names, probe, dc)
        res.feat("items:" + str(len(items)))
        # comment stripper correspondence (model)
        lines.append(sx([A("stripcomments"), base_text]))
        metas.append(("strip", base_text, dc.parser.TokenParser._remove_comments(base_text)))
        for mi in range(6 if tier == "quick" else 12):
            kind = ["layout", "layout", "layout", "order", "order+layout", "split"][mi % 6]
            its = items
            if kind.startswith("order"):
                its = toposort_variants(items, rnd, 1)[0]
            f20 = kind == "layout" and mi == 1 and any(it.enum for it in its)
            text = render(its, rnd if kind in ("layout", "order+layout") else None, f20=f20)
            cd = {"baseline": base_text, "mutant": text, "mutation": kind + ("+enum-newlines" if f20 else "")}
            res.count((base_text, text), len(items) >= 3)
            res.feat("mutant:" + kind)
            cs = dc.cstruct()
            try:
                if kind == "split":
                    cut = rnd.randint(1, max(1, len(its) - 1))
                    cs.load(render(its[:cut]))
                    cs.load(render(its[cut:]))
                else:
                    cs.load(text)
            except Exception as e:  # noqa: BLE001
                viol(f"the mutated text is rejected ({type(e).__name__}: {e}) although it only differs in layout/order", cd, "F20" if f20 else None)
                continue
            got = signature(cs, names, probe, dc)
            if got != base:
                i = next((j for j in range(min(len(base), len(got))) if base[j] != got[j]), 0)
                viol("inserting comments/whitespace or reordering independent definitions changed the resulting types",
                     dict(cd, baseline_sig=base[max(0, i - 150): i + 150], mutant_sig=got[max(0, i - 150): i + 150]), "F20" if f20 else None)
            if kind in ("layout", "order+layout"):
                lines.append(sx([A("stripcomments"), text]))
                metas.append(("strip", text, dc.parser.TokenParser._remove_comments(text)))
    # ---- alias laws
    cs = dc.cstruct()
    for name, target in cs.typedefs.items():
        if isinstance(target, str):
            res.count(("builtin-alias", name))
            if cs.resolve(name) is not cs.resolve(target):
                viol(f"built-in synonym {name} does not resolve to the same type object as {target}", {"name": name})
    cs.load("typedef uint32 A1; typedef A1 A2; typedef A2 A3; struct S { A3 x; }; typedef S S2; typedef struct _Q { uint8 a; } Q, *PQ_unsupported_skip;"
            .replace(", *PQ_unsupported_skip", ""))
    res.count(("alias-chain",))
    if not (cs.A1 is cs.uint32 and cs.A3 is cs.uint32 and cs.S2 is cs.S and cs.Q is cs._Q and cs.S.fields["x"].type is cs.uint32):
        viol("typedef chain / struct typedef names do not resolve to the very same type", {"case": "alias-chain"})
    # re-declaring: accepted for the same target, refused for another
    for text, ok in (("typedef uint32 A1;", True), ("typedef DWORD A1;", True), ("typedef uint16 A1;", False), ("typedef S S2;", True)):
        res.count(("redeclare", text))
        try:
            cs.load(text)
            good = ok
        except ValueError:
            good = not ok
        except Exception:  # noqa: BLE001
            good = False
        if not good:
            viol(f"re-declaring an alias: {text!r} should be {'accepted' if ok else 'refused'}", {"case": text})
    # unknown and cyclic aliases are ResolveError, not a loop or a wrong binding
    from dissect.cstruct.exceptions import ResolveError
    cs.typedefs["cyc1"] = "cyc2"
    cs.typedefs["cyc2"] = "cyc1"
    chain = dc.cstruct()
    for i in range(14):
        chain.typedefs[f"c{i}"] = f"c{i+1}"
    chain.typedefs["c14"] = "uint8"
    for c, name in ((cs, "cyc1"), (cs, "nosuchtype"), (chain, "c0"), (chain, "c5")):
        res.count(("resolve-error", name))
        try:
            c.resolve(name)
            viol(f"resolving {name} (unknown / cyclic / over-long chain) returned a type", {"case": name})
        except ResolveError:
            pass
        except Exception as e:  # noqa: BLE001
            viol(f"resolving {name} raises {type(e).__name__}, not ResolveError", {"case": name})
        lines.append(sx([A("resolvein"), [[k, v if isinstance(v, str) else A("type")] for k, v in c.typedefs.items() ], name]))
        metas.append(("resolvein", name, "ResolveError"))
    for i in (6, 7, 10):
        res.count(("chain", i))
        ok = chain.resolve(f"c{i}") is chain.uint8
        lines.append(sx([A("resolvein"), [[k, v if isinstance(v, str) else A("type")] for k, v in chain.typedefs.items()], f"c{i}"]))
        metas.append(("resolvein", f"c{i}", "ok" if ok else "?"))
        if not ok:
            viol(f"alias chain of {15 - i} steps does not resolve", {"case": f"c{i}"})
    answers = run_driver(lines) if env["driver_ok"] else [None] * len(lines)
    for (kind, inp, want), ans in zip(metas, answers):
        if ans is None:
            continue
        s = parse_sexp(ans)
        if kind == "strip":
            if s[0] != "ok" or str(s[1]) != want:
                res.disagreements.append(Case("corr", f"comment stripper: model gives {ans[:200]!r}, implementation gives {want[:200]!r}", {"text": inp}))
        else:
            got = "ok" if s[0] == "ok" else str(s[1])
            if got != want:
                res.disagreements.append(Case("corr", f"resolve {inp}: model {ans[:100]}, implementation {want}", {"name": inp}))
    res.sample({"baseline": metas[0][1][:400] if metas else ""})
    return res


def replay(body) -> int:
    print("replay:", body.get("what"), body.get("case"))
    return 0
