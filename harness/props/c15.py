"""C15 — concurrent parsing with shared types is equivalent to sequential parsing.

Two or three threads parse (or dump) independent streams with the same type objects under a controlled scheduler that can
switch threads at every source line of the library.  Schedules: all with at most two pre-emptions on a grid of switch
points, plus seeded random ones.  Every thread's result is compared with what it obtains running alone.

Round 10 (harness/v10_c15.py): BY-NAME RESOLUTION UNDER INTERLEAVING.  The parses above never ask the shared cstruct object for a
type by name (fields hold resolved classes); this family walks the entry points that do - sizeof(<name>) in array dimensions
(parsed by class call on bytes / bytearray / memoryview / file, .read, .reads, then dumped), cs.read(name, ...), cs.<name>,
cs.resolve(name) - with <name> the top of a chain of 1..9 string references (cs.add_type('b', 'a')) over scalars, built-in
aliases, structures, enums and array typedefs, chain lengths biased to the documented limit of 10, plus names that do not resolve
(chain too deep, dangling reference: the same error under every schedule).  The sequential reference is itself checked against
harness-computed values (array length from the table of base sizes, value equal to the one read through the base class).
The write footprint extracted by harness/translate.py (Lean theorem c15_footprint) now also covers cstruct.py: a write to an
attribute of the cstruct object inside resolve / read / __getattr__ / _make_* (anything but the definition-time methods) is shared.
"""
from __future__ import annotations

import itertools

from .. import common, defs, impl, v10_c15
from ..common import Case, Result, mkrng
from ..sched import Scheduler, count_steps

DEFS = [
    ("expr-array", "struct T { uint8 n; uint8 m; uint8 a[n * 2 + m]; uint16 tail; };"),
    ("expr-minus", "struct T { uint8 n; uint8 a[-n + 9]; uint8 b[n - -1]; };"),
    ("nested-expr", "struct I { uint8 k; uint16 v[k & 3]; }; struct T { uint8 n; I items[n % 3]; char s[]; };"),
    ("bitfields", "struct T { uint16 a:3; uint16 b:9; uint16 c:4; uint8 d:5; uint8 e:3; uint32 f; };"),
    ("union", "struct T { uint8 t; union { uint32 x; struct { uint8 p; uint8 q; uint16 r; } s; } u; uint8 z; };"),
    ("pointer", "struct T { uint8 a; uint8 *p; uint8 n; char name[n]; };"),
    ("enum-wchar", "enum E : uint8 { A, B, C }; struct T { E e; wchar w[2]; E es[3]; uleb128 v; };"),
    ("sizeof-const", "#define K 3\nstruct S { uint16 q; }; struct T { uint8 n; uint8 a[sizeof(S) + K - n % 2]; };"),
]


def run(env) -> Result:
    res = Result()
    res.rule = ("8 definition families (expression-sized arrays incl. unary minus and sizeof, nested expression arrays, bit-fields, unions, "
                "pointers with dereference, enums/wchar/LEB128) x {interpreted, compiled}; 2 threads (3 in thorough) parse and dump different "
                "inputs with the same types; schedules: every pair of switch points on a grid (<= 2 pre-emptions) plus seeded random "
                "schedules switching at source-line granularity inside the library. distinct = (definition, mode, schedule); non-trivial = "
                "at least one pre-emption inside a parse. "
                "By-name family (v10_c15): per mode 4 (thorough 14) scenarios on a fresh cstruct object (random endianness) whose threads resolve "
                "names at run time - sizeof(name) in an array dimension x 6 calling conventions of the structure, cs.read(name, file|bytes), "
                "cs.<name>, cs.resolve(name) - name = top of a chain of 1..9 add_type string references (edge-biased; first scenario exactly at "
                "the 10-lookup limit) over scalar / built-in alias / struct / enum / array-typedef bases, or a name that does not resolve "
                "(11..14 references, dangling); schedules: every single pre-emption on a grid in both directions, two pre-emptions on a coarser "
                "grid, random, bursts; each thread = its result alone, and the result alone = the harness-computed array length / value")
    dc = impl.dc()
    rnd = mkrng(env["seed"], "c15")
    tier = env["tier"]
    prefix = str(common.REPO / "dissect" / "cstruct")
    findings = {f["id"] for f in env["findings"]}

    def viol(what, data, sig=None):
        if sig and sig in findings:
            res.known_seen[sig] = res.known_seen.get(sig, 0) + 1
        elif len(res.violations) < 30:
            res.violations.append(Case("property", what, data))

    for (fam, text), compiled in itertools.product(DEFS, (False, True)):
        cs = dc.cstruct()
        cs.load(text, compiled=compiled)
        T = cs.T
        nthreads = 2 if tier == "quick" else 3
        inputs = []
        for t in range(nthreads):
            for _ in range(20):
                d = bytes([rnd.randint(1, 4), rnd.randint(0, 3)]) + bytes(rnd.randrange(1, 255) for _ in range(40)) + b"\x00" * 8
                if impl.parse(T, d)[0] == "ok":
                    inputs.append(d)
                    break
        if len(inputs) < nthreads:
            continue

        def job(d):
            def f():
                o = T(d)
                extra = None
                if fam == "pointer":
                    try:
                        extra = int(o.p.dereference())
                    except Exception as e:  # noqa: BLE001
                        extra = type(e).__name__
                return (impl.canon(o), o.dumps(), extra)
            return f

        jobs = [job(d) for d in inputs]
        alone = []
        lens = []
        for j in jobs:
            n, r = count_steps(j, prefix)
            lens.append(n)
            alone.append(r)
        # schedules
        scheds = []
        grid0 = sorted(set(range(0, lens[0], max(1, lens[0] // (10 if tier == "quick" else 40)))))
        grid1 = sorted(set(range(1, lens[1], max(1, lens[1] // (6 if tier == "quick" else 30)))))
        for a in grid0:
            for b in grid1:
                scheds.append(("grid", [0] * a + [1] * b + [0] * lens[0]))
        for _ in range(30 if tier == "quick" else 400):
            L = sum(lens)
            scheds.append(("random", [rnd.randrange(nthreads) for _ in range(L)]))
        for _ in range(10 if tier == "quick" else 100):
            # bursts
            s, cur = [], 0
            while len(s) < sum(lens):
                s += [cur] * rnd.randint(1, 12)
                cur = rnd.randrange(nthreads)
            scheds.append(("bursts", s))
        for kind, sch in scheds:
            sc = Scheduler(nthreads, sch, prefix)
            got, steps = sc.run(jobs)
            res.count((fam, compiled, tuple(sch[:200])), True)
            res.feat(f"{fam}:{kind}")
            for t in range(nthreads):
                if got[t] != alone[t]:
                    viol(f"thread {t} obtains {str(got[t])[:160]} under an interleaving, {str(alone[t])[:160]} alone",
                         {"definition": text, "compiled": compiled, "inputs": [d.hex() for d in inputs], "schedule": "".join(map(str, sch[:300]))},
                         "F1" if "[" in text and any(c in text for c in "+-*%&") else None)
                    break
        res.sample({"definition": text, "compiled": compiled, "line_steps_alone": lens, "schedules": len(scheds)}, 4)
    v10_c15.run(env, res, viol)
    return res


def replay(body) -> int:
    print("replay:", body.get("what"), body.get("case"))
    return 0
