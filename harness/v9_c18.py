"""C18 probes (round 9): the type is USED BETWEEN THE STEPS, and the final type is entered through EVERY CALL FORM.

Both families run histories that build a type T - a structure OR a union - step by step on one cstruct instance and compare it,
at check points between the steps and at the end, with the declaration in one piece (on a fresh cstruct instance) of exactly the
fields T has at that moment.  What is compared (`check_point`): everything harness/props/c18.py compares (layout, the reader
itself, parses at stream positions 0/1/3, as member and array element, default dump, ==/hash/bool/repr/positional construction)
plus the two blocks below.  For unions the reader/writer signature is "the union's own `_read` / `_write`" instead of the
compiled / interpreted structure reader.

    call forms   T(b) with a real `bytes` object of EVERY length 0 .. size+1; at the lengths {0, size of the first field,
    (`call_forms`)  size-1, size, size+1, one random length}: T(bytearray), T(memoryview), T(BytesIO), T(real file object),
                 T.read(bytes / bytearray / memoryview / BytesIO / file), T.reads(bytes / bytearray / memoryview),
                 cs.read("T", bytes / BytesIO), T._read(BytesIO); construction: T(), T(*all values), T(first value) (a char
                 value makes this the bytes entry point), T(**all), T(name=value) per field, T(first, last=...), T(None), T(5).
                 Each result: value, dumps, _sizes, _values, the union's buffer, stream position afterwards - or the error class.
    writer forms for a parsed instance, the default instance, a keyword-built one and one modified by attribute assignment:
    (`writer_forms`)  v.dumps(), bytes(v), T.dumps(v), v.write(stream), T.write(stream at position 2, v), len(v), v as member of
                 an outer structure (API-made or cs.load'ed, compiled or not) that is dumped, [v, w] dumped through T[2],
                 ==, != and hash-equality against an equal and a different instance.

Family "observed" (PRNG stream c18-observed) - OBSERVATIONS BETWEEN THE STEPS.  kind in {struct, union}; 1..6 fields (scalars
incl. odd widths, char/int arrays of 0..9 entries, bit fields (structures), enum, pointer, nested structure, an anonymous nested
structure, rarely a null-terminated array); the fields are added in ascending size order (every step brings a member larger than
all earlier ones), random or descending order; T is created through the API or by cs.load with its first 0..2 fields, then
extended by add_field (commit per field), `with T.start_update()` batches or extend-__fields__-and-commit.  After the creation
and after every step the intermediate T is used: instantiated, parsed, dumped (dumps / bytes / write), compared, hashed, repr'd,
bool, len, keyword / positional construction, called with bytes of every length, through read / reads / file objects, as member
of another structure and as array element that is dumped, attribute assignment, inspect.signature of __init__; at some points
the full comparison with the one-shot declaration of the present fields is made (which itself uses T in every way).

Family "callforms" (PRNG stream c18-callforms) - EVERY CALL FORM ON THE FINAL TYPE.  Histories that pass through a committed
SINGLE-FIELD state (first field char, char[N], uint8, uint8[N] or anything) - created with that one field, or created empty
(the empty state is used too) and the field added by its own add_field / one-field batch / extend+commit - or, as control, get
everything in one batch from empty; then 1..4 more fields in 1..2 steps.  The single-field state is entered through all call
forms (with the comparison against the one-shot single-field type at about half of them); the grown type must answer every
call form exactly like the one-shot declaration - in particular T(bytes of exactly the first field's size).

Oracle: the property - the step-by-step type and the one-shot declaration of the same field list agree on every observation
above; every observation is an independent evaluation of both classes on the same inputs.  Exceptions inside the library are
observations ("err", class), exceptions of add_field / commit / creation where the one-shot declaration is accepted are
violations.  Uses between the steps are not judged themselves (T is compared at check points only).
"""
from __future__ import annotations

import ast
import atexit
import inspect
import io
import itertools
import os
import random
import re
import tempfile

from . import impl
from . import s7_c18 as s7
from .structprops import rand_bytes

USES = ["default", "parse", "dumps", "bytes", "write", "eq", "hash", "repr", "bool", "len", "kw", "positional", "call-lengths",
        "forms", "member", "array", "setattr", "signature"]
WRITING_USES = {"default", "dumps", "bytes", "write", "eq", "member", "array", "setattr", "len"}
UNION_SCALARS = ["uint8", "uint16", "uint32", "uint64", "int24", "char", "int8", "uint48", "int16", "int32"]


# ------------------------------------------------------------------------------------------------ ingredients

_made: list = []


def fresh(h, dc, endian, align, compiled):
    """h.fresh_cs (enum E8, struct Inner) plus an anonymous-flagged structure type `Anon` for nameless members"""
    from dissect.cstruct.types.structure import Field

    cs = h.fresh_cs(dc, endian, align, compiled)
    _made.append(cs)
    cs.add_type("Anon", cs._make_struct("Anon", [Field("ax", cs.uint8), Field("ay", cs.uint16)], align=align, anonymous=True))
    return cs


def dispose():
    """memory hygiene of the harness: a cstruct instance on which a structure with fields was defined is never freed by the
    interpreter (class -> generated __init__ -> code object (not seen by the collector) -> default values -> their type classes ->
    the instance -> its type table -> class), ~300 kB each.  Emptying the type tables of the instances of a finished history breaks
    the cycle."""
    for cs in _made:
        try:
            cs.typedefs.clear()
        except Exception:  # noqa: BLE001
            pass
    _made.clear()


def mk_type(h, cs, spec):
    if spec[0] == "anon":
        return cs.resolve("Anon")
    return h.mk_type(cs, spec)


def mk_field(h, cs, s):
    from dissect.cstruct.types.structure import Field

    return Field(s[0], mk_type(h, cs, s[1]), bits=s[2], offset=s[3])


def make_type(h, cs, kind, specs, align, compiled):
    """the declaration in one piece through the factories"""
    from dissect.cstruct import compiler

    fields = [mk_field(h, cs, s) for s in specs]
    T = (cs._make_union if kind == "union" else cs._make_struct)("T", fields, align=align)
    return compiler.compile(T) if compiled else T


def renderable(spec) -> bool:
    return spec[1][0] != "anon" and not (spec[1][0] == "arr" and spec[1][2] == 0) and spec[3] is None


def render(spec) -> str:
    nm, sp, bits, _ = spec
    k = sp[0]
    if k == "sc":
        return f"{sp[1]} {nm}" + (f" : {bits}" if bits else "") + ";"
    if k == "enum":
        return f"{sp[1]} {nm};"
    if k == "arr":
        return f"{sp[1][1]} {nm}[{sp[2]}];"
    if k == "ptr":
        return f"{sp[1][1]} *{nm};"
    if k == "dyn":
        return f"{sp[1]} {nm}[];"
    if k == "nested":
        return f"Inner {nm};"
    raise ValueError(k)


def size_of(h, cs, spec):
    try:
        return len(mk_type(h, cs, spec[1]))
    except TypeError:
        return 1 << 20
    except Exception:  # noqa: BLE001
        return 0


def union_specs(rnd, n):
    out = []
    for i in range(n):
        r = rnd.random()
        if r < 0.42:
            out.append((f"f{i}", ("sc", rnd.choice(UNION_SCALARS)), None, None))
        elif r < 0.7:
            out.append((f"f{i}", ("arr", ("sc", rnd.choice(["uint8", "uint16", "char", "uint32", "char"])), rnd.randint(0, 9)), None, None))
        elif r < 0.78:
            out.append((f"f{i}", ("enum", "E8"), None, None))
        elif r < 0.85:
            out.append((f"f{i}", ("ptr", ("sc", "uint8")), None, None))
        elif r < 0.96:
            out.append((f"f{i}", ("nested",), None, None))
        else:
            out.append((f"f{i}", ("dyn", rnd.choice(["uint8", "char"])), None, None))
    return out


def gen_specs(h, rnd, cs, kind, n):
    specs = union_specs(rnd, n) if kind == "union" else [tuple(s) for s in h.field_specs(rnd, cs, n)]
    if rnd.random() < 0.15:
        specs.insert(rnd.randint(0, len(specs)), (None, ("anon",), None, None))
    return specs


FIRST_MENU = [(0.3, lambda r: ("sc", "char")), (0.3, lambda r: ("arr", ("sc", "char"), r.randint(1, 5))), (0.15, lambda r: ("sc", "uint8")),
              (0.1, lambda r: ("arr", ("sc", "uint8"), r.randint(1, 4))), (0.05, lambda r: ("sc", r.choice(["int8", "uint16", "uint32"])))]


def first_spec(rnd):
    x = rnd.random()
    for p, f in FIRST_MENU:
        if x < p:
            return ("f0", f(rnd), None, None)
        x -= p
    return None


def gen_uses(rnd, lo=1, hi=4):
    return rnd.sample(USES, rnd.randint(lo, hi))


def gen_steps(rnd, todo, p_use, p_check):
    steps = []
    while todo:
        k = rnd.randint(1, min(len(todo), 3))
        batch, todo = todo[:k], todo[k:]
        steps.append({"mode": rnd.choice(["each", "each", "update", "update", "extend"]), "add": batch,
                      "uses": gen_uses(rnd) if rnd.random() < p_use else [], "check": rnd.random() < p_check})
    return steps


# ------------------------------------------------------------------------------------------------ observations

_tmp = {"path": None}


def real_file(data: bytes):
    """a real file object (io.BufferedReader over a file descriptor) holding `data`, positioned at 0"""
    if _tmp["path"] is None:
        fd, p = tempfile.mkstemp(prefix="verif-c18-")
        os.close(fd)
        _tmp["path"] = p
        atexit.register(lambda: os.path.exists(p) and os.unlink(p))
    with open(_tmp["path"], "wb") as f:
        f.write(data)
    return open(_tmp["path"], "rb")  # noqa: SIM115 - closed by the caller


def clean(x):
    return re.sub(r" (object )?at 0x[0-9a-fA-F]+", "", x) if isinstance(x, str) else x


def inst_summ(v, pos=None):
    """an instance handed out by some entry point -> comparable summary"""
    c = impl.canon(v)
    try:
        d = v.dumps() if hasattr(v, "dumps") else None
    except Exception as e:  # noqa: BLE001
        d = "dumps raises " + impl.err_class(e)
    sizes = getattr(v, "_sizes", None)
    values = getattr(v, "_values", None)
    if isinstance(sizes, dict):
        sizes = sorted((str(k), s) for k, s in sizes.items())
    if isinstance(values, dict):
        values = sorted((str(k), repr(impl.canon(x))) for k, x in values.items())
    return ("ok", repr(c), pos, d, clean(repr(sizes)), clean(repr(values)))


def attempt(out, label, f, stream=None):
    try:
        v = f()
    except Exception as e:  # noqa: BLE001
        out.append((label, ("err", impl.err_class(e))))
        return None
    pos = None
    if stream is not None:
        try:
            pos = stream.tell()
        except Exception as e:  # noqa: BLE001
            pos = "tell raises " + type(e).__name__
    out.append((label, inst_summ(v, pos)))
    return v


def some_lengths(T, size, extra):
    first = 0
    if T.__fields__:
        try:
            first = len(T.__fields__[0].type)
        except Exception:  # noqa: BLE001
            first = 1
    return sorted({0, first, max(size - 1, 0), size, size + 1, extra})


def call_forms(cs, T, data: bytes, size: int, extra: int, every=True):
    """-> [(label, summary)].  `size`: the length the one-shot type has (a stand-in for dynamic types); `data` has >= size + 2 bytes"""
    out = []
    if every:
        for n in range(size + 2):
            attempt(out, f"T(bytes object of {n} byte(s))", lambda n=n: T(bytes(data[:n])))
    for n in some_lengths(T, size, extra):
        b = bytes(data[:n])
        attempt(out, f"T(bytearray of {n})", lambda: T(bytearray(b)))
        attempt(out, f"T(memoryview of {n})", lambda: T(memoryview(b)))
        s = io.BytesIO(b)
        attempt(out, f"T(BytesIO of {n})", lambda: T(s), s)
        for label, fn in ((f"T(file object of {n})", lambda f: T(f)), (f"T.read(file object of {n})", lambda f: T.read(f))):
            f = real_file(b)
            try:
                attempt(out, label, lambda: fn(f), f)
            finally:
                f.close()
        attempt(out, f"T.read(bytes of {n})", lambda: T.read(b))
        attempt(out, f"T.read(bytearray of {n})", lambda: T.read(bytearray(b)))
        attempt(out, f"T.read(memoryview of {n})", lambda: T.read(memoryview(b)))
        s = io.BytesIO(b)
        attempt(out, f"T.read(BytesIO of {n})", lambda: T.read(s), s)
        attempt(out, f"T.reads(bytes of {n})", lambda: T.reads(b))
        attempt(out, f"T.reads(bytearray of {n})", lambda: T.reads(bytearray(b)))
        attempt(out, f"T.reads(memoryview of {n})", lambda: T.reads(memoryview(b)))
        attempt(out, f"cs.read('T', bytes of {n})", lambda: cs.read("T", b))
        s = io.BytesIO(b)
        attempt(out, f"cs.read('T', BytesIO of {n})", lambda: cs.read("T", s), s)
        s = io.BytesIO(b)
        attempt(out, f"T._read(BytesIO of {n})", lambda: T._read(s), s)
    # construction from values
    attempt(out, "T()", lambda: T())
    try:
        a = T._read(io.BytesIO(data))
        names = [f._name for f in T.__fields__]
        vals = [getattr(a, nm) for nm in names]
    except Exception as e:  # noqa: BLE001
        out.append(("values for construction", ("err", impl.err_class(e))))
        return out
    attempt(out, "T(*all values)", lambda: T(*vals))
    attempt(out, "T(**all values)", lambda: T(**dict(zip(names, vals))))
    if vals:
        attempt(out, "T(first value)", lambda: T(vals[0]))
        attempt(out, "T(first value, last=value)", lambda: T(vals[0], **{names[-1]: vals[-1]}))
        for nm, x in list(zip(names, vals))[:4]:
            attempt(out, f"T({nm}=value)", lambda nm=nm, x=x: T(**{nm: x}))
    attempt(out, "T(None)", lambda: T(None))
    attempt(out, "T(5)", lambda: T(5))
    return out


_serial = itertools.count()


def outer_types(cs, T, compiled):
    """structures that have T as a member: made from Field objects, and loaded by name (T is registered as "T")"""
    from dissect.cstruct import compiler
    from dissect.cstruct.types.structure import Field

    out = []
    try:
        O = cs._make_struct(f"OuterA{next(_serial)}", [Field("pad", cs.uint8), Field("t", T), Field("tail", cs.uint8)], align=False)
        out.append(("member of an API-made structure", compiler.compile(O) if compiled else O))
    except Exception as e:  # noqa: BLE001
        out.append(("member of an API-made structure", "raises " + impl.err_class(e)))
    name = f"OuterL{next(_serial)}"
    try:
        cs.load(f"struct {name} {{ uint16 pad; T t; T u[2]; uint8 tail; }};", compiled=compiled)
        out.append(("member of a loaded structure", getattr(cs, name)))
    except Exception as e:  # noqa: BLE001
        out.append(("member of a loaded structure", "raises " + impl.err_class(e)))
    return out


def writer_forms(cs, T, data: bytes, data2: bytes, compiled: bool):
    out = []

    def tryit(f):
        try:
            return clean(f())
        except Exception as e:  # noqa: BLE001
            return "raises " + impl.err_class(e)

    def get(f):
        try:
            return f()
        except Exception as e:  # noqa: BLE001
            return e

    def written(f, pos):
        s = io.BytesIO(b"\xaa" * pos)
        s.seek(pos)
        return (f(s), s.getvalue(), s.tell())

    names = [f._name for f in T.__fields__]
    a, a_same, b, dflt = get(lambda: T(data)), get(lambda: T(data)), get(lambda: T(data2)), get(lambda: T())
    insts = [("parsed", a), ("default", dflt)]
    if not isinstance(b, Exception) and names:
        insts.append(("keyword-built", get(lambda: T(**{names[-1]: getattr(b, names[-1])}))))
        m = get(lambda: T(data))
        if not isinstance(m, Exception):
            for nm in names[:3]:
                r = tryit(lambda nm=nm: setattr(m, nm, getattr(b, nm)))
                if r is not None:
                    out.append((f"assigning .{nm}", r))
            insts.append(("modified by attribute assignment", m))
    outers = outer_types(cs, T, compiled)
    AT = get(lambda: T[2])
    for how, v in insts:
        if isinstance(v, Exception):
            out.append((f"{how} instance", "raises " + impl.err_class(v)))
            continue
        out.append((f"{how}: v.dumps()", tryit(lambda: v.dumps())))
        out.append((f"{how}: bytes(v)", tryit(lambda: bytes(v))))
        out.append((f"{how}: T.dumps(v)", tryit(lambda: T.dumps(v))))
        out.append((f"{how}: v.write(stream)", tryit(lambda: written(lambda s: v.write(s), 0))))
        out.append((f"{how}: T.write(stream at position 2, v)", tryit(lambda: written(lambda s: T.write(s, v), 2))))
        out.append((f"{how}: len(v)", tryit(lambda: len(v))))
        for label, O in outers:
            if isinstance(O, str):
                out.append((f"{how}: {label}", O))
            elif "loaded" in label:
                out.append((f"{how}: {label}, dumped", tryit(lambda: O(pad=0x1234, t=v, u=[v, v], tail=0x5A).dumps())))
            else:
                out.append((f"{how}: {label}, dumped", tryit(lambda: O(pad=7, t=v, tail=0x5A).dumps())))
        if isinstance(AT, Exception):
            out.append((f"{how}: T[2]", "raises " + impl.err_class(AT)))
        else:
            out.append((f"{how}: T[2].dumps([v, v])", tryit(lambda: AT.dumps([v, v]))))
            out.append((f"{how}: T[2]([v, v]).dumps()", tryit(lambda: AT([v, v]).dumps())))
        for oname, o in (("an equal instance", a_same), ("a different instance", b), ("the default instance", dflt)):
            if isinstance(o, Exception):
                continue
            hv, ho = get(lambda: hash(v)), get(lambda: hash(o))
            heq = (hv == ho) if isinstance(hv, int) and isinstance(ho, int) else (type(hv).__name__, type(ho).__name__)
            out.append((f"{how}: ==, != and hash-equality against {oname}", (tryit(lambda: v == o), tryit(lambda: v != o), heq)))
    for label, O in outers:
        if not isinstance(O, str):
            pre = b"\x01\x02" if "loaded" in label else b"\x01"
            rep = 3 if "loaded" in label else 1
            r = impl.parse(O, pre + data * rep + b"\x5a" + data2)
            out.append((f"{label}: parsed and dumped again", s7.summ(r, inner="t")))
    return out


def union_sig(T):
    from dissect.cstruct.types.structure import StructureMetaType, UnionMetaType

    def owner(name):
        fn = getattr(getattr(T, name), "__func__", None)
        for M in (UnionMetaType, StructureMetaType):
            if fn is M.__dict__.get(name):
                return M.__name__
        return "other:" + getattr(fn, "__qualname__", repr(fn))

    return {"compiled": bool(T.__compiled__), "_read": owner("_read"), "_write": owner("_write"), "_read_fields": owner("_read_fields")}


def class_sig(T):
    """the generated methods and tables, by their parameters / keys"""
    def params(name):
        try:
            return list(inspect.signature(getattr(T, name)).parameters)
        except Exception as e:  # noqa: BLE001
            return "raises " + type(e).__name__

    from dissect.cstruct.types.structure import StructureMetaType

    wr = getattr(T._write, "__func__", None)
    return {"__init__": params("__init__"), "fields": list(T.fields), "lookup": list(T.lookup), "updating": bool(T.__updating__),
            "align": bool(T.__align__), "name": T.__name__,
            "writer": next((M.__name__ for M in type(T).__mro__ if M.__dict__.get("_write") is wr), "other"),
            "is-structure-metatype": isinstance(T, StructureMetaType)}


def use(cs, T, what, drnd, compiled, feat):
    """use the intermediate type; nothing is judged here"""
    try:
        size = T.size if T.size is not None else 12
        data = nonzero_bytes(drnd, size + 4)
        if what == "default":
            T().dumps()
        elif what == "parse":
            T(data)
            T(io.BytesIO(data))
        elif what == "dumps":
            T(data).dumps()
        elif what == "bytes":
            bytes(T(data))
        elif what == "write":
            T(data).write(io.BytesIO())
            T.write(io.BytesIO(), T())
        elif what == "eq":
            _ = T(data) == T(data), T(data) != T(nonzero_bytes(drnd, size + 4))
        elif what == "hash":
            hash(T(data))
        elif what == "repr":
            repr(T(data))
            repr(T)
        elif what == "bool":
            bool(T(data))
            bool(T())
        elif what == "len":
            _ = len(T(data)), len(T)
        elif what == "kw":
            a = T(data)
            for f in T.__fields__[:2]:
                T(**{f._name: getattr(a, f._name)}).dumps()
        elif what == "positional":
            a = T(data)
            T(*[getattr(a, f._name) for f in T.__fields__]).dumps()
        elif what == "call-lengths":
            for n in range(size + 2):
                try:
                    T(bytes(data[:n]))
                except Exception:  # noqa: BLE001
                    pass
        elif what == "forms":
            call_forms(cs, T, data, size, drnd.randint(0, size + 1), every=False)
        elif what == "member":
            for label, O in outer_types(cs, T, compiled):
                if not isinstance(O, str):
                    O().dumps()
                    r = impl.parse(O, b"\x01\x02" + data * 3 + b"\x00" * 8)
                    if r[0] == "ok":
                        r[1].dumps()
        elif what == "array":
            AT = T[2]
            AT.dumps([T(data), T()])
            AT(data + data).dumps()
        elif what == "setattr":
            a, b = T(data), T(nonzero_bytes(drnd, size + 4))
            for f in T.__fields__[:3]:
                setattr(a, f._name, getattr(b, f._name))
            a.dumps()
        elif what == "signature":
            inspect.signature(T.__init__)
            _ = T.size, T.alignment, T.dynamic, list(T.fields), list(T.lookup)
        else:
            raise ValueError(what)
    except Exception as e:  # noqa: BLE001
        feat("between-steps:use-raises:" + type(e).__name__)


def nonzero_bytes(drnd, n):
    """mostly distinct non-zero bytes: a writer that drops or truncates a member shows in the dump"""
    if drnd.random() < 0.25:
        return rand_bytes(drnd, n)
    start = drnd.randrange(1, 200)
    return bytes(((start + 7 * i) % 255) + 1 for i in range(n))


# ------------------------------------------------------------------------------------------------ comparison with the one-shot type

def check_point(h, kind, cs0, one, cs, T, compiled, drnd, who, cd, extra, viol, res, sig):
    """-> True if T (on cs) and the one-shot declaration `one` (on cs0) agree on everything"""
    size = one.size if one.size is not None else 14
    inputs = [nonzero_bytes(drnd, (one.size if one.size is not None else 40) + 6) for _ in range(2)]
    prefix = bytes(drnd.randrange(1, 256) for _ in range(8))
    flips = sorted({size - 1, drnd.randrange(size)}) if size else []
    extra_len = drnd.randint(0, size + 1)
    cdn = dict(cd, data=[d.hex() for d in inputs], prefix=prefix.hex(), flips=flips, **extra)

    def feat(k):
        if res:
            res.feat(k)

    if [f._name for f in T.__fields__] != [f._name for f in one.__fields__]:
        viol(f"the field list of the {who} is {[f._name for f in T.__fields__]}, the fields added were {[f._name for f in one.__fields__]}",
             cdn, sig)
        return False
    try:
        dw, dg = h.describe(one), h.describe(T)
        cw, cg = class_sig(one), class_sig(T)
    except Exception as e:  # noqa: BLE001
        viol(f"the {who} cannot be described: {type(e).__name__}: {e}", cdn, sig)
        return False
    if dw != dg:
        viol(f"layout / compiled flag of the {who} differ from the one-shot declaration: {dg} vs one-shot {dw}", cdn, sig)
        return False
    if cw != cg:
        k = next(k for k in cw if cw[k] != cg[k])
        viol(f"generated methods / tables of the {who} differ from the one-shot declaration: {k}: {cg[k]} vs one-shot {cw[k]}", cdn, sig)
        return False
    ok = True
    # every call form
    try:
        fw = call_forms(cs0, one, inputs[0], size, extra_len)
        fg = call_forms(cs, T, inputs[0], size, extra_len)
    except Exception as e:  # noqa: BLE001
        viol(f"the call forms of the {who} cannot be observed: {type(e).__name__}: {e}", cdn, sig)
        return False
    feat("probe:call-forms")
    for (lw, w), (lg, g) in zip(fw, fg):
        if lw != lg or w != g:
            viol(f"{who} answers a call form differently from the one-shot declaration: {lg}: {str(g)[:260]}, one-shot {str(w)[:260]}",
                 dict(cdn, call=lg), sig)
            ok = False
            break
    if len(fw) != len(fg):
        viol(f"{who} offers {len(fg)} observable call forms, the one-shot declaration {len(fw)}", cdn, sig)
        ok = False
    # every writer form
    try:
        ww = writer_forms(cs0, one, inputs[0], inputs[1], compiled)
        wg = writer_forms(cs, T, inputs[0], inputs[1], compiled)
    except Exception as e:  # noqa: BLE001
        viol(f"the writer of the {who} cannot be observed: {type(e).__name__}: {e}", cdn, sig)
        return False
    feat("probe:writer-forms")
    for (lw, w), (lg, g) in zip(ww, wg):
        same = s7.same_summ(w, g) if isinstance(w, tuple) and w and w[0] in ("ok", "err") and isinstance(g, tuple) and g else w == g
        if lw != lg or not same:
            viol(f"{who} writes / compares differently from the one-shot declaration: {lg}: {str(g)[:240]}, one-shot {str(w)[:240]}",
                 dict(cdn, write=lg), sig)
            ok = False
            break
    if len(ww) != len(wg):
        viol(f"{who} yields {len(wg)} writer observations, the one-shot declaration {len(ww)}", cdn, sig)
        ok = False
    # everything the base check compares
    try:
        if kind == "struct":
            want, got = h.full(cs0, one, inputs, prefix, compiled, flips), h.full(cs, T, inputs, prefix, compiled, flips)
        else:
            want = (dw, union_sig(one), *h.observe(cs0, one, inputs, prefix, compiled, flips))
            got = (dg, union_sig(T), *h.observe(cs, T, inputs, prefix, compiled, flips))
    except Exception as e:  # noqa: BLE001
        viol(f"the {who} cannot be observed: {type(e).__name__}: {e}", cdn, sig)
        return False
    if kind == "struct":
        return h.compare(viol, res, cdn, sig, want, got, compiled, inputs, prefix, who=who) and ok
    if got[1] != want[1]:
        viol(f"the reader / writer of the {who} is not the one of the one-shot union: {got[1]} vs one-shot {want[1]}", cdn, sig)
        ok = False
    for (lw, w), (lg, g) in zip(want[2], got[2]):
        if not s7.same_summ(w, g):
            viol(f"{who} parses/dumps differently ({lg}): {str(g)[:220]}, one-shot {str(w)[:220]}", dict(cdn, read=lg), sig)
            ok = False
            break
    if got[3] != want[3]:
        viol(f"default instance of the {who} dumps differently: {got[3]!r}, one-shot {want[3]!r}", cdn, sig)
        ok = False
    if got[4] != want[4]:
        d = next(((a, b) for a, b in zip(got[4], want[4]) if a != b), (got[4], want[4]))
        viol(f"instances of the {who} behave differently (==, hash, bool, repr, positional construction, write into a stream at "
             f"position 1/3): {str(d[0])[:200]}, one-shot {str(d[1])[:200]}", cdn, sig)
        ok = False
    return ok


# ------------------------------------------------------------------------------------------------ one history

def run_case(h, dc, cd, viol, res=None, sig=None):
    """cd: kind, fields, align, compiled, endian, data_seed, create ("api" | "load"), first (number of fields T is created with),
    initial_uses, initial_check, obs_steps [{"mode", "add", "uses", "check"}].  -> number of check points passed through"""
    from dissect.cstruct import compiler
    from dissect.cstruct.types.structure import Field

    specs = [ast.literal_eval(x) if isinstance(x, str) else tuple(x) for x in cd["fields"]]
    kind, align, compiled, endian = cd["kind"], cd["align"], cd["compiled"], cd["endian"]
    steps, first = cd["obs_steps"], cd["first"]
    noun = "union" if kind == "union" else "structure"
    points = 0

    def feat(k):
        if res:
            res.feat(k)

    cs = fresh(h, dc, endian, align, compiled)
    try:
        if cd["create"] == "load":
            body = " ".join(render(s) for s in specs[:first])
            cs.load(f"{'union' if kind == 'union' else 'struct'} T {{ {body} }};", compiled=compiled, align=align)
            T = cs.resolve("T")
        else:
            T = make_type(h, cs, kind, specs[:first], align, compiled)
            cs.add_type("T", T)
    except Exception as e:  # noqa: BLE001
        # is the same field list accepted when built by the factories on a fresh instance?  (then the creation path is at fault)
        try:
            make_type(h, fresh(h, dc, endian, align, compiled), kind, specs[:first], align, compiled)
        except Exception:  # noqa: BLE001
            feat("observed:initial-fields-rejected:" + type(e).__name__)
            return 0
        viol(f"creating the {noun} with its first {first} field(s) through {cd['create']} raises {type(e).__name__}: {e}", cd, sig)
        return 0
    present = list(range(first))

    def reference():
        cs0 = fresh(h, dc, endian, align, compiled)
        try:
            one = make_type(h, cs0, kind, [specs[i] for i in present], align, compiled)
            cs0.add_type("T", one)
        except Exception as e:  # noqa: BLE001
            feat("observed:one-shot-of-present-fields-rejected:" + type(e).__name__)
            return None
        return cs0, one

    def point(uses, check, where, stepno):
        nonlocal points
        drnd = random.Random(f"{cd['data_seed']}:{stepno}")
        for u in uses:
            feat("between-steps:use:" + u)
            use(cs, T, u, drnd, compiled, feat)
        if not check:
            return True
        ref = reference()
        if ref is None:
            return True
        points += 1
        who = f"{noun} built step by step and used between the steps ({where}; {len(present)} field(s) present)"
        return check_point(h, kind, ref[0], ref[1], cs, T, compiled, drnd, who, cd,
                           {"at_step": stepno, "present": [specs[i][0] for i in present]}, viol, res, sig)

    if not point(cd.get("initial_uses", []), cd.get("initial_check", False),
                 f"right after its creation through {cd['create']} with {first} field(s)", -1):
        return points
    for no, step in enumerate(steps):
        mode, batch = step["mode"], step["add"]
        try:
            if mode == "each":
                for i in batch:
                    nm, sp, b, o = specs[i]
                    T.add_field(nm, mk_type(h, cs, sp), bits=b, offset=o)
            elif mode == "update":
                with T.start_update():
                    for i in batch:
                        nm, sp, b, o = specs[i]
                        T.add_field(nm, mk_type(h, cs, sp), bits=b, offset=o)
            elif mode == "extend":
                T.__fields__.extend(mk_field(h, cs, specs[i]) for i in batch)
                T.commit()
            else:
                raise ValueError(mode)
        except Exception as e:  # noqa: BLE001
            present += batch
            if reference() is None:
                return points       # the field list is not accepted in one piece either
            viol(f"extending the {noun} that was used between the steps raises where the one-shot declaration is accepted: "
                 f"step {no} ({mode}): {type(e).__name__}: {e}", dict(cd, at_step=no), sig)
            return points
        present += batch
        last = no == len(steps) - 1
        if not point(step.get("uses", []), step.get("check", False) or last, f"behind step {no} ({mode}, {len(batch)} field(s))", no):
            return points
    return points


# ------------------------------------------------------------------------------------------------ the families

def configs(rnd):
    return rnd.random() < 0.5, rnd.random() < 0.5, rnd.choice("<>")


def run_observed(env, res, viol, rnd, h):
    """OBSERVATIONS BETWEEN THE STEPS"""
    dc = impl.dc()
    for _ in range(75 if env["tier"] == "quick" else 900):
        align, compiled, endian = configs(rnd)
        kind = "union" if rnd.random() < 0.55 else "struct"
        cs0 = fresh(h, dc, endian, align, compiled)
        specs = gen_specs(h, rnd, cs0, kind, rnd.randint(1, 6))
        order = rnd.choice(["ascending", "ascending", "random", "random", "descending"])
        if order != "random":
            specs.sort(key=lambda s: size_of(h, cs0, s), reverse=order == "descending")
        specs = [((None if s[0] is None else f"f{i}"), s[1], s[2], s[3]) for i, s in enumerate(specs)]
        first = min(len(specs), rnd.choice([0, 0, 0, 0, 1, 1, 2]))
        create = "load" if rnd.random() < 0.25 and all(renderable(s) for s in specs[:first]) else "api"
        steps = gen_steps(rnd, list(range(first, len(specs))), 0.85, 0.35)
        cd = {"kind": kind, "fields": [str(s) for s in specs], "align": align, "compiled": compiled, "endian": endian,
              "data_seed": rnd.randrange(1 << 30), "create": create, "first": first,
              "initial_uses": gen_uses(rnd) if rnd.random() < 0.75 else [], "initial_check": rnd.random() < 0.2, "obs_steps": steps}
        used_before_growth = bool(steps) and (bool(cd["initial_uses"]) or cd["initial_check"] or
                                              any(s["uses"] or s["check"] for s in steps[:-1]))
        points = run_case(h, dc, cd, viol, res)
        dispose()
        res.count(("observed", str(cd)), used_before_growth)
        res.feat("observed:history")
        res.feat(f"observed:{kind}:{order}")
        res.feat(f"observed:create:{create}:{first}")
        res.feat("observed:check-points", points)
        wrote = set(cd["initial_uses"]) & WRITING_USES or cd["initial_check"] or \
            any((set(s["uses"]) & WRITING_USES) or s["check"] for s in steps[:-1])
        if wrote and len(steps) >= 1:
            res.feat(f"observed:{kind}:written-before-a-later-extension")
        for s in steps:
            res.feat("observed:mode:" + s["mode"])


def run_callforms(env, res, viol, rnd, h):
    """EVERY CALL FORM ON THE FINAL TYPE, for histories through a committed single-field (and the empty) state"""
    dc = impl.dc()
    for _ in range(95 if env["tier"] == "quick" else 1100):
        align, compiled, endian = configs(rnd)
        kind = "union" if rnd.random() < 0.4 else "struct"
        cs0 = fresh(h, dc, endian, align, compiled)
        rest = gen_specs(h, rnd, cs0, kind, rnd.randint(1, 4))
        f0 = first_spec(rnd)
        specs = ([f0] if f0 else []) + rest
        specs = [((None if s[0] is None else f"f{i}"), s[1], s[2], s[3]) for i, s in enumerate(specs)]
        path = rnd.choice(["created-with-one", "created-with-one", "own-add_field", "own-add_field", "own-batch", "own-extend", "one-batch-from-empty"])
        light = ["parse", "call-lengths", "forms", "signature", "default", "hash", "repr"]
        if path == "created-with-one":
            first, steps = 1, []
        elif path == "one-batch-from-empty":
            first = 0
            steps = [{"mode": rnd.choice(["update", "extend"]), "add": list(range(len(specs))), "uses": [], "check": True}]
        else:
            first = 0
            steps = [{"mode": {"own-add_field": "each", "own-batch": "update", "own-extend": "extend"}[path], "add": [0], "uses": [], "check": False}]
        if path != "one-batch-from-empty":
            # the single-field state is entered through the call forms (and compared with its one-shot twin at some)
            single = steps[0] if steps else None
            uses = rnd.sample(light, rnd.randint(0, 3))
            check = rnd.random() < 0.5
            if single is None:
                init_uses, init_check = uses, check
            else:
                single["uses"], single["check"] = uses, check
                init_uses, init_check = (rnd.sample(light, rnd.randint(0, 2)), rnd.random() < 0.3)
            todo = list(range(1, len(specs)))
            k = rnd.randint(1, max(len(todo), 1))
            more = ([todo[:k]] if todo else []) + ([todo[k:]] if todo[k:] else [])
            for bi, b in enumerate(more):
                steps.append({"mode": rnd.choice(["each", "update", "extend"]), "add": b,
                              "uses": rnd.sample(light, rnd.randint(0, 2)) if bi < len(more) - 1 else [], "check": bi == len(more) - 1})
        else:
            init_uses, init_check = (rnd.sample(light, rnd.randint(0, 2)), rnd.random() < 0.3)
        create = "load" if rnd.random() < 0.25 and all(renderable(s) for s in specs[:first]) else "api"
        cd = {"kind": kind, "fields": [str(s) for s in specs], "align": align, "compiled": compiled, "endian": endian,
              "data_seed": rnd.randrange(1 << 30), "create": create, "first": first, "initial_uses": init_uses,
              "initial_check": init_check or not steps, "obs_steps": steps}
        points = run_case(h, dc, cd, viol, res)
        dispose()
        res.count(("callforms", str(cd)), path != "one-batch-from-empty")
        res.feat("callforms:history")
        res.feat(f"callforms:{kind}:path:{path}")
        res.feat("callforms:first-field:" + (str(specs[0][1][1] if specs[0][1][0] == "sc" else specs[0][1][0]) if specs else "-"))
        res.feat("callforms:check-points", points)


def run(env, res, viol, h):
    from .common import mkrng

    run_observed(env, res, viol, mkrng(env["seed"], "c18-observed"), h)
    run_callforms(env, res, viol, mkrng(env["seed"], "c18-callforms"), h)


def replay_case(h, case, viol) -> None:
    run_case(h, impl.dc(), case, viol, None)
