"""C09 / C11 / C18 correspondence (v9): the ROUTE of the class call `T(*args, **kwargs)` against the model `CstructModel/Call.lean`.

The call forms of the property agree only because the metaclass dispatch (`MetaType.__call__`, `StructureMetaType.__call__`,
`UnionMetaType.__call__`) sends a readable to `_read`, a buffer to `reads`, and takes its two "single char/bytes" shortcuts only
where they are a parse in disguise.  Three seeded regressions of round 8 changed one condition of that dispatch each.  The model
states the dispatch as decision logic (theorems in `Proofs/C09Call.lean`); this family ties it to the code.

Classes (per configuration compiled / interpreted):
  structures and unions with the field lists  [], [char], [char[n]], [char : 8], [uint8], [uint8[n]], [char[n], uint8],
  [uint8, char[n]], [char[n], char[m]], [wchar[n]], a nested structure first, a single member placed at an explicit offset
  through the API (`Field(.., offset=k)`); built by one `load`, or incrementally (created
  with the first field - or empty - and extended by add_field / start_update, so that the class passed through the one-field
  state); the scalar and array classes cs.char, cs.char[n], cs.uint8, cs.uint8[n], cs.wchar, cs.wchar[n] (enum and flag
  classes have a dispatch of their own, `EnumMetaType.__call__`, which is not part of this model).
Calls:
  one positional argument: bytes of length 0, first-field size, class size, class size + 1, 3; a bytes subclass; bytearray;
  memoryview; io.BytesIO; an object with only read/seek/tell; an instance of the class itself; an int; a list; None -
  two positional arguments; no argument; each with and without a keyword.
Observation (no change to /repo): for the duration of ONE call the class attribute `_read` is replaced by a spy that records
whether it received the very argument (route read) or a fresh BytesIO over the argument's bytes (route reads) and returns a
recording stand-in; for unions `_rebuild` / `_proxify` are replaced the same way.  When the spy was not called the result tells:
`_values == {}` default, `_values == {first field: argument}` the structure shortcut, otherwise the value constructor (an
exception raised without the spy having been called is compatible with the value constructor and with the shortcuts, which
all end in `type.__call__`).  For classes that are not structures "shortcut" and "value
constructor" are the same call (`type.__call__`) and are not distinguished.
Oracle: none of its own - model route == observed route (a disagreement is a broken tie; the property-level oracles of
v8_c09 / v9_c11 / v9_c18 look for the failing input).
"""
from __future__ import annotations

import io

from .common import A, Case, run_driver, sx


class _Stand:
    """what the spied `_read` returns: records what a union does with it afterwards"""

    def __init__(self, log):
        object.__setattr__(self, "_log", log)

    def _rebuild(self, attr):
        self._log.append("rebuild")

    def _proxify(self):
        self._log.append("proxify")

    def __setattr__(self, k, v):
        pass


class _Reader:
    def __init__(self, data):
        self._b = io.BytesIO(data)

    def read(self, n=-1):
        return self._b.read(n)

    def seek(self, *a):
        return self._b.seek(*a)

    def tell(self):
        return self._b.tell()


class _B(bytes):
    pass


STRUCT_SHAPES = [
    [], ["char a"], ["char a[4]"], ["char a[1]"], ["char a : 8"], ["uint8 a"], ["uint8 a[4]"], ["char a[4]", "uint8 b"],
    ["uint8 a", "char b[4]"], ["char a[2]", "char b[2]"], ["wchar a[2]"], ["In a"], ["char a[4]", "uint32 b", "uint16 c"],
]


def _describe(cls):
    fs = getattr(cls, "__fields__", None)
    fields = []
    if fs is not None:
        for f in fs:
            t = f.type
            fields.append([1 if (isinstance(t, type) and issubclass(t, bytes)) else 0, 1 if f.bits else 0,
                           A("none") if getattr(t, "size", None) is None else int(t.size), 1 if f.offset else 0])
    size = getattr(cls, "size", None)
    return [A("cls"), 1 if issubclass(cls, bytes) else 0, A("none") if size is None else int(size), fields], fs is not None


def _args_for(cls, rnd):
    size = getattr(cls, "size", None) or 0
    fs = getattr(cls, "__fields__", None) or []
    first = (getattr(fs[0].type, "size", None) or 0) if fs else 0
    lens = sorted({0, first, size, size + 1, 3})
    out = []
    for n in lens:
        data = bytes((i * 37 + 1) & 0xFF for i in range(n))
        out.append((f"bytes({n})", [A("bytes"), n], data))
    data = bytes((i * 11 + 3) & 0xFF for i in range(size or 2))
    out.append(("bytes subclass", [A("bytes"), len(data)], _B(data)))
    out.append(("bytearray", A("buffer"), bytearray(data)))
    out.append(("memoryview", A("buffer"), memoryview(data)))
    out.append(("BytesIO", A("readable"), io.BytesIO(data)))
    out.append(("reader object", A("readable"), _Reader(data)))
    out.append(("int", A("value"), 5))
    out.append(("list", A("value"), [1, 2]))
    out.append(("None", A("value"), None))
    return out


def _observe(m, cls, is_struct, is_union, args, kwargs):
    log = []
    saved = {}

    def spy(c, stream, context=None):
        a0 = args[0] if args else None
        log.append("read" if stream is a0 else "reads")
        return _Stand(log)

    def put(name, value):
        saved[name] = cls.__dict__.get(name, _MISSING)
        setattr(cls, name, value)

    put("_read", classmethod(spy))
    if is_union:
        put("_rebuild", lambda self, attr: log.append("rebuild"))
        put("_proxify", lambda self: log.append("proxify"))
    try:
        try:
            r = cls(*args, **kwargs)
        except Exception as e:  # noqa: BLE001 - the constructor refusing the values is still the value constructor
            r = e
    finally:
        for k, v in saved.items():
            if v is _MISSING:
                try:
                    delattr(cls, k)
                except Exception:  # noqa: BLE001
                    pass
            else:
                setattr(cls, k, v)
    route = next((x for x in log if x in ("read", "reads")), None)
    if route is None and isinstance(r, Exception):
        route = "raised"   # the constructor refused the values: the value constructor or a shortcut (both end in type.__call__)
    if route is None:
        if is_struct and not isinstance(r, Exception):
            vals = getattr(r, "_values", _MISSING)
            fs = cls.__fields__
            if vals is not _MISSING and vals == {} and not args and not kwargs:
                route = "default"
            elif vals is not _MISSING and len(fs) >= 1 and len(args) == 1 and isinstance(vals, dict) and list(vals) == [fs[0]._name] \
                    and vals[fs[0]._name] is args[0]:
                route = "shortcut-struct"
            else:
                route = "init"
        else:
            route = "init"
    post = "rebuild" if "rebuild" in log else ("proxify" if "proxify" in log else "as-parsed")
    return route, post


_MISSING = object()


def run(env, res, rnd):
    from . import impl
    m = impl.dc()
    quick = env["tier"] == "quick"
    lines, meta = [], []
    classes = []
    for compiled in (False, True):
        for kind in ("struct", "union"):
            for shape in STRUCT_SHAPES:
                for how in ("load", "grow") if shape else ("load",):
                    if quick and rnd.random() < 0.45:
                        continue
                    cs = m.cstruct()
                    try:
                        cs.load("struct In { uint8 x; uint8 y; };", compiled=compiled)
                        if how == "load" or kind == "union" and any(":" in f for f in shape):
                            cs.load(f"{kind} T {{ " + " ".join(f + ";" for f in shape) + " };", compiled=compiled)
                        else:
                            k = rnd.choice([0, 1])
                            cs.load(f"{kind} T {{ " + " ".join(f + ";" for f in shape[:k]) + " };", compiled=compiled)
                            cs.load(f"{kind} Whole {{ " + " ".join(f + ";" for f in shape) + " };", compiled=compiled)
                            rest = cs.Whole.__fields__[k:]
                            if rnd.random() < 0.5:
                                for f in rest:
                                    cs.T.add_field(f._name, f.type, f.bits)
                            else:
                                with cs.T.start_update():
                                    for f in rest:
                                        cs.T.add_field(f._name, f.type, f.bits)
                        classes.append((f"{kind} {{{'; '.join(shape)}}} [{how}, compiled={compiled}]", cs.T, kind == "union"))
                    except Exception as e:  # noqa: BLE001 - a shape the library refuses (bit-fields in unions are accepted; report anything else)
                        res.violations.append(Case("property", f"definition rejected: {type(e).__name__}: {e}",
                                                   {"kind": kind, "shape": shape, "how": how, "compiled": compiled}))
    # members placed at an explicit offset through the API (fix F86: the shortcut is not taken for a placed member)
    for compiled in (False, True):
        for off in (0, 2):
            for ft in ("char[4]", "char", "uint8"):
                cs = m.cstruct()
                try:
                    from dissect.cstruct.types.structure import Field
                    base = cs.char if ft.startswith("char") else cs.uint8
                    t = base[4] if ft.endswith("]") else base
                    T = cs._make_struct("T", [Field("a", t, offset=off)])
                    if compiled:
                        import importlib
                        T = importlib.import_module("dissect.cstruct.compiler").compile(T)
                    classes.append((f"_make_struct T {{{ft} a @ offset {off}}} [compiled={compiled}]", T, False))
                except Exception as e:  # noqa: BLE001
                    res.violations.append(Case("property", f"API construction rejected: {type(e).__name__}: {e}", {"field": ft, "offset": off}))
    cs = m.cstruct()
    for name, t in (("char", cs.char), ("char[4]", cs.char[4]), ("uint8", cs.uint8), ("uint8[4]", cs.uint8[4]), ("wchar", cs.wchar),
                    ("wchar[2]", cs.wchar[2]), ("uint32", cs.uint32)):
        classes.append((name, t, False))
    for label, cls, is_union in classes:
        desc, is_struct = _describe(cls)
        cases = [(lab, [sexp], [val]) for lab, sexp, val in _args_for(cls, rnd)]
        try:
            inst = cls()
            cases.append(("own instance", [A("self")], [inst]))
        except Exception:  # noqa: BLE001
            pass
        cases.append(("no argument", [], []))
        cases.append(("two values", [A("value"), A("value")], [1, 2]))
        cases.append(("bytes and a value", [[A("bytes"), 2], A("value")], [b"ab", 1]))
        for lab, sexps, vals in cases:
            for nkw in (0, 1):
                if nkw and (not is_struct or not cls.__fields__):
                    continue
                if quick and nkw and rnd.random() < 0.5:
                    continue
                kwargs = {cls.__fields__[-1]._name: 0} if nkw else {}
                # a stream argument is consumed by a call: make a fresh one per call
                vals2 = [io.BytesIO(v.getvalue()) if isinstance(v, io.BytesIO) else v for v in vals]
                try:
                    route, post = _observe(m, cls, is_struct, is_union, vals2, kwargs)
                except Exception as e:  # noqa: BLE001
                    res.disagreements.append(Case("corr", f"class call route: observing {label} called with {lab} raised {type(e).__name__}: {e}",
                                                  {"class": label, "call": lab, "keywords": nkw}))
                    continue
                lines.append(sx([A("callroute"), desc, sexps, nkw]))
                meta.append((label, lab, nkw, is_struct, is_union, route, post))
                res.count(("callroute", label, lab, nkw), True)
                res.feat("callroute:" + route + ("+" + post if is_union else ""))
    answers = run_driver(lines)
    from .common import parse_sexp
    for ans, (label, lab, nkw, is_struct, is_union, route, post) in zip(answers, meta):
        s = parse_sexp(ans)
        if not (isinstance(s, list) and s and str(s[0]) == "ok"):
            res.disagreements.append(Case("corr", f"class call route: the model refuses the request ({ans})", {"class": label, "call": lab}))
            continue
        want = str(s[1]) if is_struct else {"shortcut-scalar": "init"}.get(str(s[2]), str(s[2]))
        wpost = str(s[3])
        if route == "raised" and want in ("init", "shortcut-struct", "default"):
            continue
        if want != route or (is_union and route in ("read", "reads", "init", "default", "shortcut-struct") and wpost != post):
            if len(res.disagreements) < 40:
                res.disagreements.append(Case("corr", f"class call route: {label} called with {lab}" + (" and a keyword" if nkw else "") +
                                              f": the library takes route {route}" + (f" / {post}" if is_union else "") +
                                              f", the model (CstructModel/Call.lean) says {want}" + (f" / {wpost}" if is_union else ""),
                                              {"class": label, "call": lab, "keywords": nkw}))
