"""Object identity of mutable members (helper of props/c14.py, round 10).

"Mutating one structure instance (including the arrays and nested structures of a default-constructed one) never changes another instance
or what a later default construction returns ... the result [of a parse] does not depend on what was parsed, dumped, constructed or failed
before."  The earlier families compare VALUES after histories; two instances whose values are equal may still hold the very same list /
nested structure object, and then the first in-place change of one (`a.raw[0] = 7`, `a.p.x = 9`) shows up in the other.  This family walks
the ways an instance can be OBTAINED and looks at the objects themselves.

A session (one descriptor, plain data; `evaluate(dc, desc)` executes it, the replay re-executes the recorded descriptor):
  * one cstruct object made through a constructor spelling (cstruct(), cstruct('>'), cstruct(endian=...), all five byte-order codes, or
    `cs.endian = ...` before the load), one definition reaching it through load() (compiled / interpreted, aligned or not), loadfile() of a
    real file, the legacy parser (structures without unions / bit fields / anonymous members) or API construction (`cs._make_struct` /
    `cs._make_union` of Field lists + add_type).
  * the definition: an enum, 1-2 nested aggregates (structure N: scalars, an int array, now and then a structure of its own; union IU), the type
    under test T - a STRUCTURE or a fixed-size UNION (half of the sessions) of 2-5 members: scalars of 1-8 bytes, bit-field pairs, char[n], an enum,
    int arrays `t a[n]`, two-dimensional arrays, arrays of enums / char blocks, a nested structure, an array of nested structures, a nested union,
    an inline anonymous structure, for structures a parse-time sized array `uint8 d[k & 3]` - and the holders `struct W { uint8 pre; T m; T arr[2]; }`,
    `union WU { T m; uint8 raw[sizeof(T)]; }` (T of fixed size) .
  * 2-5 SOURCES, each an object obtained through one route, from which T instances are taken (the source itself, `W.m`, `W.arr[k]`, `WU.m`, the
    elements of `T[n]`):
      - parse of T / W / WU / T[n] through every entry point: X(bytes), X(bytearray), X(memoryview), X(io.BytesIO), X.read(stream), X.read(bytes),
        X.reads(bytes), cs.read(name, data), a stream positioned behind a prefix, a REAL file object; X taken as cs.T, cs.resolve('T') or
        cs.typedefs['T']; the bytes are all zero (= the type's default value, half of the parses), random, or zero with a random stretch; two sources
        often parse the very same bytes;
      - default construction X(); keyword construction X(member=value, ...) with scalar and / or freshly made container values, positional
        construction X(v0, ...); for unions these rebuild every member from the buffer;
      - now and then a parse that fails (truncated input) between two sources.
Oracles:
  1. IDENTITY.  Every list and every structure / union object reachable from a T instance (union proxies unwrapped, the instance itself included)
     is collected with its access path.  No object may be reachable from two distinct instances, nor from an instance and a LATER default
     construction T().  Known finding F8 is exactly the case that BOTH places were filled in by default construction (the instance default-constructed,
     taken from a default-constructed holder, or the top-level member left out of a keyword / positional construction of a STRUCTURE): classified F8.
     Anything that involves a parsed instance, a user-given value or a union rebuilt from keyword values is a violation.
  2. MUTATION.  1-3 rounds: one instance is changed in place through its public access path - `i.a[k] = v`, `i.a[k][l] = v`, `i.n.p = v`,
     `i.n.q[k] = v`, `i.sa[k].p = v`, `i.u.b[k] = v`, `i.a[:] = [...]`, now and then a plain `i.x = v` - (the path resolved on the live object, so
     through the proxies a union hands out).  Every OTHER instance (value by member, dumps, bytes()), the dumps of every holder that does not
     contain the changed instance, and a later default construction (value and dumps, compared with a new universe that only loaded the
     definition) must be what they were.  A change is F8 only if the changed member of the mutated instance AND every changed member of the
     bystander were filled in by default construction; a changed default construction is F8 only after a default-filled member was mutated.
  3. PURITY OF PARSING.  At the end every parsing source is parsed again through its own entry point from its own bytes (after the constructions,
     the failing parse and the mutations): the T instances taken from it show the values of the first parse; one of them is also parsed in a new
     universe that performed only the load.
  4. Every construction / parse / mutation the generator writes as valid must succeed; an exception is reported, it never trips the harness.
Nothing is excluded.  The case data is the descriptor; `replay` re-evaluates it on the current tree and prints the failing observation.
"""
from __future__ import annotations

import io
import os
import shutil
import tempfile

from . import impl

INTS = [("uint8", 1), ("int8", 1), ("uint16", 2), ("int16", 2), ("uint32", 4), ("int32", 4), ("uint64", 8), ("int64", 8)]
ENTRIES = ["call-bytes", "call-bytearray", "call-memoryview", "call-stream", "read-stream", "read-bytes", "reads", "cs.read", "read-offset", "file"]
ENDIANS = ["<", ">", "!", "@", "="]


# ------------------------------------------------------------------------------------------------ generator (schema -> text / Field lists)

def _int(rnd, small=False):
    return ("int",) + rnd.choice(INTS[:4] if small else INTS)


def gen_nested(rnd, name, allow_sub):
    """structure N: scalars, an int array, now and then a structure member of its own"""
    mem = [("p", _int(rnd)), ("q", ("arr", _int(rnd, True), rnd.randint(1, 3)))]
    if rnd.random() < 0.5:
        mem.insert(rnd.randrange(3), ("r", _int(rnd)))
    if allow_sub and rnd.random() < 0.35:
        mem.append(("sub", ("agg", {"kind": "struct", "name": name + "S", "members": [("z", _int(rnd)), ("zz", ("arr", _int(rnd, True), 2))]})))
    return {"kind": "struct", "name": name, "members": mem}


def gen_inner_union(rnd, name, N):
    mem = [("v", ("int", "uint32", 4)), ("b", ("arr", ("int", "uint8", 1), 4))]
    if rnd.random() < 0.5:
        mem.append(("n", ("agg", N)))
    rnd.shuffle(mem)
    return {"kind": "union", "name": name, "members": mem}


def gen_T(rnd, kind, N, IU, simple):
    """the type under test; `simple`: only what the legacy parser reads (no unions, bit fields, anonymous members, 2-D arrays)"""
    menu = ["int", "int", "char", "arr", "arr", "agg", "aggarr", "enum"]
    if not simple:
        menu += ["arr2", "enumarr", "chararr", "iu", "anon"] + (["bits", "dyn"] if kind == "struct" else [])
    n = rnd.randint(2, 5)
    picks = [rnd.choice(menu) for _ in range(n)]
    # at least one container-valued member, most of the time two
    if not any(p in ("arr", "arr2", "agg", "aggarr", "iu", "enumarr", "chararr") for p in picks):
        picks[rnd.randrange(n)] = rnd.choice(["arr", "agg"])
    if rnd.random() < 0.6 and "arr" not in picks:
        picks.append("arr")
    if rnd.random() < 0.5 and "agg" not in picks:
        picks.append("agg")
    mem, used = [], set()
    for i, p in enumerate(picks):
        m = f"m{i}"
        if p == "int":
            mem.append((m, _int(rnd)))
        elif p == "char":
            mem.append((m, ("char", rnd.randint(1, 4))))
        elif p == "enum":
            mem.append((m, ("enum", "E")))
        elif p == "arr":
            mem.append((m, ("arr", _int(rnd), rnd.randint(1, 4))))
        elif p == "arr2":
            mem.append((m, ("arr", ("arr", _int(rnd, True), 2), rnd.randint(1, 2))))
        elif p == "enumarr":
            mem.append((m, ("arr", ("enum", "E"), 2)))
        elif p == "chararr":
            mem.append((m, ("arr", ("char", 2), 2)))
        elif p == "agg":
            mem.append((m, ("agg", N)))
        elif p == "aggarr":
            mem.append((m, ("arr", ("agg", N), 2)))
        elif p == "iu":
            mem.append((m, ("agg", IU)))
        elif p == "anon" and "anon" not in used:
            mem.append((None, ("anon", {"kind": "struct", "name": None, "members": [(f"an{i}", _int(rnd)), (f"aa{i}", ("arr", _int(rnd, True), 2))]})))
        elif p == "bits" and "bits" not in used:
            t = rnd.choice(["uint8", "uint16", "uint32"])
            w = {"uint8": 8, "uint16": 16, "uint32": 32}[t]
            a = rnd.randint(2, w - 2)
            mem.append((f"{m}a", ("bits", t, a)))
            mem.append((f"{m}b", ("bits", t, w - a)))
        elif p == "dyn" and "dyn" not in used:
            mem.append((f"{m}k", ("int", "uint8", 1)))
            mem.append((m, ("dyn", f"{m}k")))
        else:
            mem.append((m, _int(rnd)))
            continue
        used.add(p)
    return {"kind": kind, "name": "T", "members": mem}


def upper_bound(schema):
    """an upper bound of the unaligned encoded size"""
    def ub(t):
        k = t[0]
        if k == "int":
            return t[2]
        if k in ("bits", "enum"):
            return 4
        if k == "char":
            return t[1]
        if k == "dyn":
            return 3
        if k == "arr":
            return t[2] * ub(t[1])
        return upper_bound(t[1])
    return sum(ub(t) for _, t in schema["members"])


def is_dynamic(schema):
    return any(t[0] == "dyn" for _, t in schema["members"])


def _decl(name, t, sep):
    k = t[0]
    if k == "int":
        return f"{t[1]} {name};"
    if k == "bits":
        return f"{t[1]} {name} : {t[2]};"
    if k == "char":
        return f"char {name}[{t[1]}];"
    if k == "enum":
        return f"{t[1]} {name};"
    if k == "agg":
        return f"{t[1]['name']} {name};"
    if k == "dyn":
        return f"uint8 {name}[{t[1]} & 3];"
    if k == "anon":
        return "struct {" + sep + sep.join(_decl(n, x, sep) for n, x in t[1]["members"]) + sep + "};"
    if k == "arr":
        dims, e = [], t
        while e[0] == "arr":
            dims.append(e[2])
            e = e[1]
        if e[0] == "char":
            dims.append(e[1])
            base = "char"
        else:
            base = e[1] if e[0] in ("int", "enum") else e[1]["name"]
        return f"{base} {name}" + "".join(f"[{d}]" for d in dims) + ";"
    raise ValueError(k)


def render(schema, sep):
    return f"{schema['kind']} {schema['name']} {{" + sep + sep.join(_decl(n, t, sep) for n, t in schema["members"]) + "\n};\n"


def nested_schemas(schema, out=None):
    """named aggregates a schema refers to, innermost first"""
    out = [] if out is None else out

    def visit(t):
        if t[0] == "arr":
            visit(t[1])
        elif t[0] == "agg":
            nested_schemas(t[1], out)
            if all(o["name"] != t[1]["name"] for o in out):
                out.append(t[1])
        elif t[0] == "anon":
            for _, x in t[1]["members"]:
                visit(x)
    for _, t in schema["members"]:
        visit(t)
    return out


def int_leaves(schema, prefix=()):
    """access paths (from an instance of `schema`) of plain integer leaves, with the byte size of the leaf"""
    out = []

    def visit(t, path):
        k = t[0]
        if k == "int":
            out.append((path, t[2]))
        elif k == "arr":
            for i in range(t[2]):
                visit(t[1], path + (i,))
        elif k == "dyn":
            for i in range(3):
                out.append((path + (i,), 1))
        elif k == "agg":
            out.extend(int_leaves(t[1], path))
    for n, t in schema["members"]:
        if t[0] == "anon":
            for n2, t2 in t[1]["members"]:
                visit(t2, prefix + (n2,))
        else:
            visit(t, prefix + (n,))
    return out


def member_names(schema):
    """top-level attribute names of an instance (the members of an inline anonymous structure are attributes of the parent)"""
    out = []
    for n, t in schema["members"]:
        if t[0] == "anon":
            out += [n2 for n2, _ in t[1]["members"]]
        else:
            out.append(n)
    return out


# ------------------------------------------------------------------------------------------------ descriptor -> universe

def _api_type(cs, dc, t):
    k = t[0]
    if k in ("int",):
        return getattr(cs, t[1])
    if k == "enum":
        return cs.resolve(t[1])
    if k == "char":
        return cs.char[t[1]]
    if k == "agg":
        return cs.resolve(t[1]["name"])
    if k == "arr":
        return _api_type(cs, dc, t[1])[t[2]]
    raise ValueError(k)


def build(dc, desc, scratch=None):
    """-> cstruct object with the session's types"""
    c = desc["ctor"]
    if c["how"] == "plain":
        cs = dc.cstruct()
    elif c["how"] == "pos":
        cs = dc.cstruct(c["endian"])
    elif c["how"] == "kw":
        cs = dc.cstruct(endian=c["endian"])
    else:
        cs = dc.cstruct()
        cs.endian = c["endian"]
    ld = desc["load"]
    if ld["how"] == "api":
        from dissect.cstruct.types.structure import Field  # (the tree under test: impl.dc() put it first on sys.path)
        cs.load(desc["enum_text"])
        for s in desc["schemas"]:
            fields = [Field(n, _api_type(cs, dc, t)) for n, t in s["members"]]
            make = cs._make_union if s["kind"] == "union" else cs._make_struct
            cs.add_type(s["name"], make(s["name"], fields, align=ld["align"]))
    elif ld["how"] == "loadfile":
        d = scratch or tempfile.mkdtemp(prefix="v10c14-")
        try:
            p = os.path.join(d, "v10def.h")
            with open(p, "w") as f:
                f.write(desc["text"])
            cs.loadfile(p, compiled=ld["compiled"], align=ld["align"])
        finally:
            if scratch is None:
                shutil.rmtree(d, ignore_errors=True)
    elif ld["how"] == "legacy":
        cs.load(desc["text"], deftype=2)
    elif ld["how"] == "load-default":
        cs.load(desc["text"])
    else:
        cs.load(desc["text"], compiled=ld["compiled"], align=ld["align"])
    return cs


def get_type(cs, name, spelling, n=None):
    if spelling == "resolve":
        X = cs.resolve(name)
    elif spelling == "typedefs":
        X = cs.typedefs[name]
    else:
        X = getattr(cs, name)
    return X[n] if n is not None else X


def unwrap(v):
    return object.__getattribute__(v, "__target__") if type(v).__name__ == "UnionProxy" else v


def navigate(root, path):
    v = root
    for p in path:
        v = v[p] if isinstance(p, int) else getattr(v, p)
    return v


def obtain(dc, cs, src, scratch):
    """the object of one source"""
    X = get_type(cs, src["type"], src.get("spelling", "attr"), src.get("n"))
    how = src["how"]
    if how == "default":
        return X()
    if how == "kw":
        return X(**{k: _value(cs, v) for k, v in src["values"].items()})
    if how == "pos":
        return X(*[_value(cs, v) for v in src["values"]])
    data = bytes.fromhex(src["data"])
    e = src["entry"]
    if e == "call-bytes":
        return X(data)
    if e == "call-bytearray":
        return X(bytearray(data))
    if e == "call-memoryview":
        return X(memoryview(data))
    if e == "call-stream":
        return X(io.BytesIO(data))
    if e == "read-stream":
        return X.read(io.BytesIO(data))
    if e == "read-bytes":
        return X.read(data)
    if e == "reads":
        return X.reads(data)
    if e == "cs.read":
        return cs.read(src["type"] if src.get("n") is None else X, bytearray(data) if src.get("n") is None else io.BytesIO(data))
    if e == "read-offset":
        s = io.BytesIO(b"\xa5" * 3 + data)
        s.seek(3)
        return X.read(s)
    if e == "file":
        d = scratch or tempfile.gettempdir()
        p = os.path.join(d, f"v10data-{os.getpid()}.bin")
        with open(p, "wb") as f:
            f.write(data)
        try:
            with open(p, "rb") as f:
                return X(f) if src.get("filecall") else X.read(f)
        finally:
            try:
                os.unlink(p)
            except OSError:
                pass
    raise ValueError(e)


def _value(cs, v):
    """a freshly made value of a keyword / positional construction: int | ["list", ...] | ["bytes", hex] | ["parse", type, hex]"""
    if isinstance(v, list):
        if v[0] == "list":
            return [_value(cs, x) for x in v[1:]]
        if v[0] == "bytes":
            return bytes.fromhex(v[1])
        if v[0] == "parse":
            return getattr(cs, v[1])(bytes.fromhex(v[2]))
    return v


# ------------------------------------------------------------------------------------------------ observation

def containers(dc, root):
    """[(path, object)] of every list / structure / union object reachable from `root` (itself included, proxies unwrapped)"""
    out, seen = [], set()

    def walk(v, path, depth):
        v = unwrap(v)
        if depth > 8:
            return
        if isinstance(v, list):
            if id(v) in seen:
                return
            seen.add(id(v))
            out.append((path, v))
            for i, x in enumerate(v[:8]):
                walk(x, path + (i,), depth + 1)
        elif isinstance(v, dc.Structure):
            if id(v) in seen:
                return
            seen.add(id(v))
            out.append((path, v))
            for f in v.__class__.__fields__:
                try:
                    x = v.__dict__[f._name] if f._name in getattr(v, "__dict__", {}) else getattr(v, f._name)
                except Exception:  # noqa: BLE001
                    continue
                walk(x, path + (f._name,), depth + 1)
    walk(root, (), 0)
    return out


def observe(inst, names):
    """value by member, dumps, bytes() of one instance (exceptions are part of the observation)"""
    inst = unwrap(inst)
    out = {}
    for n in names:
        try:
            out[n] = repr(impl.canon(getattr(inst, n)))
        except Exception as e:  # noqa: BLE001
            out[n] = f"raises {type(e).__name__}"
    try:
        out["<dumps>"] = inst.dumps().hex()
    except Exception as e:  # noqa: BLE001
        out["<dumps>"] = f"raises {type(e).__name__}"
    try:
        out["<bytes>"] = bytes(inst).hex()
    except Exception as e:  # noqa: BLE001
        out["<bytes>"] = f"raises {type(e).__name__}"
    return out


def pstr(path):
    return "".join(f"[{p}]" if isinstance(p, int) else f".{p}" for p in path)


def src_str(src):
    X = {"attr": f"cs.{src['type']}", "resolve": f"cs.resolve({src['type']!r})", "typedefs": f"cs.typedefs[{src['type']!r}]"}[src.get("spelling", "attr")]
    if src.get("n") is not None:
        X += f"[{src['n']}]"
    if src["how"] == "default":
        return f"{X}()"
    if src["how"] == "kw":
        return f"{X}(" + ", ".join(f"{k}={v!r}" for k, v in src["values"].items()) + ")"
    if src["how"] == "pos":
        return f"{X}(" + ", ".join(repr(v) for v in src["values"]) + ")"
    return f"{X} parsed via {src['entry']} from {src['data'][:64]}{'..' if len(src['data']) > 64 else ''}"


# ------------------------------------------------------------------------------------------------ one session

def evaluate(dc, desc, res=None, scratch=None):
    """-> [(what, signature-or-None)] : the observations of this session that contradict the property"""
    out = []
    feat = res.feat if res is not None else (lambda *a, **k: None)

    def bad(what, sig=None):
        if len(out) < 6:
            out.append((f"identity [{desc['label']}] {what}", sig))

    try:
        cs = build(dc, desc, scratch)
        names = member_names(desc["T"])
        T = cs.T
    except Exception as e:  # noqa: BLE001
        bad(f"loading the definition raises {type(e).__name__}: {str(e)[:200]}")
        return out
    try:
        ref = build(dc, desc, scratch)
        ref_default = observe(ref.T(), names)
        del ref
    except Exception as e:  # noqa: BLE001
        bad(f"default construction of T in a new universe raises {type(e).__name__}: {str(e)[:200]}")
        return out

    # ---- sources and instances
    insts = []      # dict(root, src index, where, alldef, defmem)
    holders = []    # (src index, object)
    first_obs = {}  # src index -> [observation of each instance taken from it] (parse sources)
    for si, src in enumerate(desc["sources"]):
        if src["how"] == "badparse":
            try:
                get_type(cs, src["type"], "attr")(bytes.fromhex(src["data"]))
            except Exception:  # noqa: BLE001 - a truncated input fails; what it leaves behind is the point
                pass
            feat("v10:identity:failing-parse-between-sources")
            continue
        try:
            obj = obtain(dc, cs, src, scratch)
            taken = [(tuple(w), navigate(obj, w)) for w in src["take"]]
        except Exception as e:  # noqa: BLE001
            bad(f"source {si} ({src_str(src)}) raises {type(e).__name__}: {str(e)[:160]}")
            continue
        holders.append((si, obj))
        T_is_union = desc["T"]["kind"] == "union"
        for w, v in taken:
            alldef = src["how"] == "default" or (src["type"] != "T" and src["how"] in ("kw", "pos") and not src.get("rebuilds"))
            # `given`: the top-level members a keyword / positional construction of a STRUCTURE was handed; every other top-level field (an
            # inline anonymous structure included) was filled in by default.  None: nothing of this instance is default-filled (unless alldef)
            given = None
            if src["type"] == "T" and src["how"] in ("kw", "pos") and not T_is_union:
                given = set(src["values"]) if src["how"] == "kw" else {n for n, _ in desc["T"]["members"][:len(src["values"])]}
            insts.append({"root": unwrap(v), "src": si, "where": f"source{si}{pstr(w)} = {src_str(src)}", "alldef": alldef, "given": given,
                          "access": (obj, w)})
        if src["how"] == "parse":
            first_obs[si] = [observe(v, names) for _, v in taken]
        feat(f"v10:identity:source:{src['type'] if src.get('n') is None else 'T[n]'}:{src['how']}" + (f":{src['entry']}" if src["how"] == "parse" else ""))
        if src["how"] == "parse" and not src["data"].strip("0"):
            feat("v10:identity:parse-of-all-zero-bytes")

    top_fields = {n for n, _ in desc["T"]["members"] if n is not None}

    def is_def(inst, path):
        return inst["alldef"] or (inst["given"] is not None and len(path) > 0 and path[0] not in inst["given"])

    # ---- 1. identity
    def identity(tag, extra=None):
        pool = list(insts) + ([extra] if extra else [])
        maps = []
        for it in pool:
            try:
                maps.append({id(o): (p, o) for p, o in containers(dc, it["root"])})
            except Exception as e:  # noqa: BLE001
                bad(f"walking {it['where']} raises {type(e).__name__}")
                maps.append({})
        for a in range(len(pool)):
            for b in range(a + 1, len(pool)):
                if pool[a]["root"] is pool[b]["root"] and pool[a]["src"] == pool[b]["src"] and pool[a]["access"][1] == pool[b]["access"][1]:
                    continue
                for k in maps[a].keys() & maps[b].keys():
                    pa, pb = maps[a][k][0], maps[b][k][0]
                    f8 = is_def(pool[a], pa) and is_def(pool[b], pb)
                    kind = "list" if isinstance(maps[a][k][1], list) else type(maps[a][k][1]).__name__ + " object"
                    bad(f"{tag}: two distinct instances hold the very same {kind}: ({pool[a]['where']}){pstr(pa)} is ({pool[b]['where']}){pstr(pb)}",
                        "F8" if f8 else None)
                    if not f8:
                        return
    identity("after obtaining the instances")
    try:
        later = {"root": T(), "src": -1, "where": "a later default construction cs.T()", "alldef": True, "given": None, "access": (None, ("later",))}
        identity("later default construction", later)
    except Exception as e:  # noqa: BLE001
        bad(f"default construction cs.T() raises {type(e).__name__}: {str(e)[:160]}")

    # ---- 2. mutation rounds
    tainted = False
    for mu in desc["mutations"]:
        if not insts:
            break
        it = insts[mu["inst"] % len(insts)]
        # the first candidate leaf that exists on the live object (parse-time sized arrays may be shorter)
        leaf = None
        for path in mu["paths"]:
            path = tuple(path)
            try:
                cur = navigate(it["root"], path)
            except Exception:  # noqa: BLE001
                continue
            if isinstance(cur, int) and not isinstance(cur, bool):
                leaf = path
                break
        if leaf is None:
            continue
        others = [x for x in insts if x is not it and x["root"] is not it["root"]]
        before = [observe(x["root"], names) for x in others]
        hold_before = [(si, observe(h, [])) for si, h in holders if si != it["src"]]
        new = mu["value"] if mu["value"] != cur else mu["value"] + 1
        try:
            # through the public access path of the source object, so through whatever proxies a union hands out
            obj, w = it["access"]
            target = navigate(obj, w + leaf[:-1]) if obj is not None else navigate(it["root"], leaf[:-1])
            if mu["form"] == "slice" and isinstance(unwrap(target), list) and all(isinstance(x, int) for x in target):
                target[:] = [(new + i) % 100 for i in range(len(target))]
                done = f"{pstr(leaf[:-1])}[:] = {list(target)}"
            elif isinstance(leaf[-1], int):
                target[leaf[-1]] = new
                done = f"{pstr(leaf)} = {new}"
            else:
                setattr(target, leaf[-1], new)
                done = f"{pstr(leaf)} = {new}"
        except Exception as e:  # noqa: BLE001
            bad(f"in-place change ({it['where']}){pstr(leaf)} = {new} raises {type(e).__name__}: {str(e)[:160]}")
            continue
        # (a plain `i.x = v` on an instance that is its own source replaces a member, it changes no shared default object)
        # (`i.an = v` with `an` a member of an inline anonymous structure changes that - default-filled, shared - structure in place)
        mut_def = is_def(it, leaf) and (len(it["access"][1]) + len(leaf) >= 2 or leaf[0] not in top_fields)
        feat("v10:identity:mutation:" + ("default-filled" if mut_def else "parsed-or-given") + (":plain-assign" if len(leaf) == 1 else ":in-place"))
        tainted = tainted or mut_def
        for x, b in zip(others, before):
            a = observe(x["root"], names)
            if a != b:
                ch = [k for k in a if a[k] != b.get(k)]
                chm = [k for k in ch if not k.startswith("<")]
                f8 = mut_def and (x["alldef"] or (x["given"] is not None and all(k not in x["given"] for k in chm)))
                k = ch[0]
                bad(f"after ({it['where']}){done} another instance changed: ({x['where']}) {k}: {b.get(k)[:120]} -> {a[k][:120]}", "F8" if f8 else None)
        for (si, b), (sj, h) in zip(hold_before, [(si, h) for si, h in holders if si != it["src"]]):
            a = observe(h, [])
            if a != b:
                hd = desc["sources"][si]
                f8 = mut_def and hd["how"] in ("default", "kw", "pos") and not (hd["type"] == "T" and desc["T"]["kind"] == "union" and hd["how"] != "default")
                bad(f"after ({it['where']}){done} the dump of source{si} ({src_str(hd)}) changed: {b['<dumps>'][:80]} -> {a['<dumps>'][:80]}", "F8" if f8 else None)
        try:
            d = observe(T(), names)
            if d != ref_default:
                k = next(k for k in d if d[k] != ref_default.get(k))
                bad(f"after ({it['where']}){done} a default construction cs.T() gives {k}: {d[k][:120]}; in a new universe {ref_default[k][:120]}",
                    "F8" if tainted else None)
        except Exception as e:  # noqa: BLE001
            bad(f"default construction cs.T() raises {type(e).__name__} after a mutation")

    # ---- 3. parsing again
    for si, obs in first_obs.items():
        src = desc["sources"][si]
        try:
            obj = obtain(dc, cs, src, scratch)
            again = [observe(navigate(obj, tuple(w)), names) for w in src["take"]]
        except Exception as e:  # noqa: BLE001
            bad(f"parsing source {si} again ({src_str(src)}) raises {type(e).__name__}: {str(e)[:160]}")
            continue
        for w, a, b in zip(src["take"], again, obs):
            if a != b:
                k = next(k for k in a if a[k] != b.get(k))
                bad(f"parsing is not pure: {src_str(src)} parsed again after the session gives{pstr(w)} {k}: {a[k][:120]}, the first parse gave {b[k][:120]}")
                break
    if first_obs:
        si = sorted(first_obs)[desc.get("fresh_pick", 0) % len(first_obs)]
        src = desc["sources"][si]
        try:
            ref = build(dc, desc, scratch)
            obj = obtain(dc, ref, src, scratch)
            fresh = [observe(navigate(obj, tuple(w)), names) for w in src["take"]]
            if fresh != first_obs[si]:
                bad(f"parsing is not pure: {src_str(src)} gives another value in a new universe that performed only the load than in the session")
        except Exception as e:  # noqa: BLE001
            bad(f"parsing {src_str(src)} in a new universe raises {type(e).__name__}: {str(e)[:160]}")
    return out


# ------------------------------------------------------------------------------------------------ session generator

def _data(rnd, size, zero_bias=0.5):
    r = rnd.random()
    if r < zero_bias:
        return bytes(size)
    if r < zero_bias + 0.25:
        return bytes(rnd.randrange(256) for _ in range(size))
    b = bytearray(size)
    if size:
        a = rnd.randrange(size)
        for i in range(a, min(size, a + rnd.randint(1, 6))):
            b[i] = rnd.randrange(1, 256)
    return bytes(b)


def _kw_value(rnd, t, sizes):
    """a value spec for a keyword / positional argument of member type t (None: leave it out)"""
    k = t[0]
    if k == "int":
        return rnd.randint(0, 100)
    if k == "bits":
        return rnd.randint(0, 3)
    if k == "char":
        return ["bytes", bytes(rnd.randrange(256) for _ in range(t[1])).hex()]
    if k == "arr" and t[1][0] == "int":
        return ["list"] + [rnd.randint(0, 100) for _ in range(t[2])]
    if k == "arr" and t[1][0] == "arr" and t[1][1][0] == "int":
        return ["list"] + [["list"] + [rnd.randint(0, 100) for _ in range(t[1][2])] for _ in range(t[2])]
    if k == "agg" and t[1]["name"] in sizes:
        return ["parse", t[1]["name"], _data(rnd, sizes[t[1]["name"]]).hex()]
    if k == "arr" and t[1][0] == "agg" and t[1][1]["name"] in sizes:
        return ["list"] + [["parse", t[1][1]["name"], _data(rnd, sizes[t[1][1]["name"]]).hex()] for _ in range(t[2])]
    return None


def make_session(rnd, dc, scratch):
    """-> descriptor | (None, error text)"""
    how = rnd.choice(["load", "load", "load", "load", "load-default", "loadfile", "legacy", "api"])
    kind = rnd.choice(["struct", "union"]) if how != "legacy" else "struct"
    simple = how in ("legacy", "api")
    N = gen_nested(rnd, "N", allow_sub=True)
    IU = gen_inner_union(rnd, "IU", N)
    T = gen_T(rnd, kind, N, IU, simple)
    if how == "api" and kind == "union" and rnd.random() < 0.6 and not any(n == "iu" for n, _ in T["members"]):
        T["members"].append(("iu", ("agg", IU)))
    dyn = is_dynamic(T)
    W = {"kind": "struct", "name": "W", "members": [("pre", ("int", "uint8", 1)), ("m", ("agg", T)), ("arr", ("arr", ("agg", T), 2))]}
    schemas = nested_schemas(W) + [W]
    sep = "\n  " if how == "legacy" or rnd.random() < 0.5 else " "
    ebase = rnd.choice(["uint8", "uint16", "uint32"])
    enum_text = f"enum E : {ebase} {{\n  A = 0,\n  B = 1,\n  C = 2\n}};\n"
    text = enum_text + "".join(render(s, sep) for s in schemas)
    endian = rnd.choice(ENDIANS)
    desc = {
        "family": "v10:identity",
        "ctor": {"how": rnd.choice(["plain", "pos", "kw", "set"]), "endian": endian},
        "load": {"how": how, "compiled": rnd.random() < 0.5, "align": rnd.random() < 0.35 and how != "legacy"},
        "enum_text": enum_text, "T": T, "schemas": schemas, "text": text, "sources": [], "mutations": [],
    }
    # sizes from the library (the oracle does not depend on them: they only decide how many bytes a parse is given)
    try:
        cs0 = build(dc, desc, scratch)
        sizes = {}
        for s in schemas:
            sz = getattr(cs0, s["name"]).size
            if sz is not None:
                sizes[s["name"]] = int(sz)
        tsize = sizes.get("T")
    except Exception as e:  # noqa: BLE001
        return None, f"{type(e).__name__}: {str(e)[:200]} - definition {text!r} via {how}"
    if tsize is not None and how not in ("legacy",):
        WU = {"kind": "union", "name": "WU", "members": [("m", ("agg", T)), ("raw", ("arr", ("int", "uint8", 1), tsize))]}
        if rnd.random() < 0.5:
            WU["members"].reverse()
        desc["schemas"] = schemas = schemas + [WU]
        desc["text"] = text = text + render(WU, sep)
        sizes["WU"] = tsize   # (aligned unions may be larger: extra bytes are harmless, see below)
    desc["label"] = (f"{kind} T via {how}" + (f" compiled={desc['load']['compiled']} align={desc['load']['align']}" if how in ("load", "loadfile") else "")
                     + f" endian {desc['ctor']['how']}:{endian}")

    def nbytes(name, n=None):
        base = sizes.get(name)
        if base is None:   # parse-time sized: more than the longest possible encoding (with any padding)
            base = 2 * upper_bound(T) + 8 if name == "T" else 6 * upper_bound(T) + 32
        # (slack: an aligned type read from a stream that does not start at a multiple of its alignment skips padding first)
        return (base + 8) * (n or 1)

    shared = {}

    def parse_source(tname, n=None):
        key = (tname, n)
        if key in shared and rnd.random() < 0.6:
            data = shared[key]
        else:
            data = _data(rnd, nbytes(tname, n))
            shared[key] = data
        entry = rnd.choice(ENTRIES)
        if entry == "cs.read" and n is not None:
            entry = "call-bytes"
        return {"how": "parse", "type": tname, "n": n, "entry": entry, "data": data.hex(), "spelling": rnd.choice(["attr", "attr", "resolve", "typedefs"]),
                "filecall": rnd.random() < 0.5}

    tmembers = [(n, t) for n, t in T["members"] if n is not None]
    menu = ["T-parse"] * 5 + ["T-default", "T-kw", "T-kw", "T-pos", "W-parse", "W-parse", "W-default", "W-kw", "arr-parse", "arr-parse"]
    if "WU" in sizes:
        menu += ["WU-parse", "WU-parse", "WU-kw", "WU-default"]
    nsrc = rnd.randint(2, 5)
    for k in range(nsrc):
        c = rnd.choice(menu) if k else rnd.choice(["T-parse", "T-parse", "W-parse", "arr-parse", "WU-parse" if "WU" in sizes else "T-parse", "T-kw"])
        if c == "T-parse":
            s = parse_source("T")
            s["take"] = [[]]
        elif c == "T-default":
            s = {"how": "default", "type": "T", "take": [[]]}
        elif c in ("T-kw", "T-pos"):
            if kind == "union":
                # one member decides a union (the first one given rebuilds it): give exactly one
                n, t = rnd.choice(tmembers)
                v = _kw_value(rnd, t, sizes)
                if v is None or t[0] == "agg" and align_sensitive(desc):
                    n, t = next(((n, t) for n, t in tmembers if t[0] == "int"), (None, None))
                    v = 0 if rnd.random() < 0.6 else rnd.randint(1, 100)
                    if n is None:
                        continue
                elif rnd.random() < 0.5:
                    v = _zero_like(v)
                s = {"how": "kw", "type": "T", "values": {n: v}, "take": [[]], "rebuilds": True}
            elif c == "T-kw" or dyn or any(t[0] == "anon" for _, t in T["members"]):
                vals = {}
                for n, t in tmembers:
                    if rnd.random() < 0.5 and t[0] != "dyn":
                        v = _kw_value(rnd, t, sizes)
                        if v is not None:
                            vals[n] = v
                if not vals:
                    continue
                s = {"how": "kw", "type": "T", "values": vals, "take": [[]]}
            else:
                vals = []
                for n, t in T["members"][:rnd.randint(1, len(T["members"]))]:
                    v = _kw_value(rnd, t, sizes)
                    if v is None:
                        break
                    vals.append(v)
                if not vals or (len(vals) == 1 and isinstance(vals[0], list) and vals[0][0] == "bytes"):
                    continue      # (T(b"...") with one bytes argument is the parse spelling, not a construction)
                s = {"how": "pos", "type": "T", "values": vals, "take": [[]]}
        elif c == "W-parse":
            s = parse_source("W")
            s["take"] = rnd.choice([[["m"], ["arr", 0], ["arr", 1]], [["m"], ["arr", 1]], [["arr", 0], ["arr", 1]]])
        elif c == "W-default":
            s = {"how": "default", "type": "W", "take": [["m"], ["arr", 0]]}
        elif c == "W-kw":
            s = {"how": "kw", "type": "W", "values": {"pre": rnd.randint(0, 100)}, "take": [["m"], ["arr", 1]]}
        elif c == "arr-parse":
            n = rnd.randint(2, 3)
            s = parse_source("T", n)
            s["take"] = [[i] for i in range(n)]
        elif c == "WU-parse":
            s = parse_source("WU")
            s["take"] = [["m"]]
        elif c == "WU-default":
            s = {"how": "default", "type": "WU", "take": [["m"]]}
        else:  # WU-kw: the union is rebuilt from `raw`, its member m is read from the buffer
            raw = _data(rnd, tsize)
            s = {"how": "kw", "type": "WU", "values": {"raw": ["list", *raw]}, "take": [["m"]], "rebuilds": True}
        desc["sources"].append(s)
        if rnd.random() < 0.15:
            desc["sources"].append({"how": "badparse", "type": rnd.choice(["T", "W"]), "data": bytes(rnd.randint(0, 2)).hex()})
    leaves = int_leaves(T)
    deep = [p for p, _ in leaves if len(p) >= 2]
    flat = [p for p, _ in leaves if len(p) == 1]
    for _ in range(rnd.randint(1, 3)):
        pool = deep if (deep and rnd.random() < 0.9) or not flat else flat
        if not pool:
            break
        paths = [list(rnd.choice(pool)) for _ in range(4)]
        desc["mutations"].append({"inst": rnd.randrange(64), "paths": paths, "value": rnd.randint(1, 100), "form": rnd.choice(["set", "set", "set", "slice"])})
    desc["fresh_pick"] = rnd.randrange(8)
    return desc, None


def align_sensitive(desc):
    return bool(desc["load"]["align"])


def _zero_like(v):
    if isinstance(v, list):
        if v[0] == "list":
            return ["list"] + [_zero_like(x) for x in v[1:]]
        if v[0] in ("bytes", "parse"):
            return [*v[:-1], "00" * (len(v[-1]) // 2)]
    return 0


# ------------------------------------------------------------------------------------------------ entry points

def run(env, res, viol, rnd, n):
    dc = impl.dc()
    scratch = tempfile.mkdtemp(prefix="v10c14-")
    reported = 0
    try:
        for _ in range(n):
            if reported >= 6:     # (a shared object fails most sessions: a few reports are enough)
                break
            try:
                desc, err = make_session(rnd, dc, scratch)
            except Exception as e:  # noqa: BLE001
                desc, err = None, f"{type(e).__name__}: {str(e)[:200]}"
            if desc is None:
                viol(f"identity: a definition the generator writes as valid cannot be loaded / measured: {err}", {"family": "v10:identity-harness"})
                reported += 1
                continue
            try:
                found = evaluate(dc, desc, res, scratch)
            except Exception as e:  # noqa: BLE001 - the library must not trip the harness
                found = [(f"identity [{desc['label']}] the session raised {type(e).__name__}: {str(e)[:200]} while observing the instances", None)]
            nm = len(desc["mutations"])
            res.count(("v10:identity", desc["label"], desc["text"], repr(desc["sources"]), repr(desc["mutations"])), len(desc["sources"]) >= 2 and nm >= 1)
            res.feat(f"v10:identity:T-is-{desc['T']['kind']}")
            res.feat(f"v10:identity:load:{desc['load']['how']}")
            seen = set()
            for what, sig in found:
                if sig in seen:
                    continue
                seen.add(sig)
                viol(what, dict(desc), sig)
                if sig is None:
                    reported += 1
    finally:
        shutil.rmtree(scratch, ignore_errors=True)


def replay(case) -> int:
    """re-evaluate the recorded descriptor on the current tree: 1 = still fails"""
    if "sources" not in case:
        return 0
    dc = impl.dc()
    print("definition:", case.get("text"))
    for i, s in enumerate(case["sources"]):
        if s["how"] != "badparse":
            print(f"source{i}:", src_str(s), " take", [pstr(w) or "(itself)" for w in s["take"]])
    try:
        found = [(w, s) for w, s in evaluate(dc, case) if s is None]
    except Exception as e:  # noqa: BLE001
        found = [(f"the session raises {type(e).__name__}: {e}", None)]
    if found:
        for w, _ in found[:3]:
            print("still fails:", w[:900])
        return 1
    print("the case passes on this tree")
    return 0
