"""C04 family (round 8, v9_c04): sizeof OVER EVERY NAME - "sizeof(T) inside expressions" for every name a cstruct instance
knows, through every place an expression can be written.

"For every fixed-size type, len(T), sizeof(T) inside expressions, the number of bytes consumed by parsing and the number of
bytes produced by dumping all agree."  The other families take sizeof() only of the structure they have just defined (a
class registered under its own name).  A cstruct instance knows types under many more names, and they are stored in
different ways: classes (uint32, user structures), STRING references to another name (every built-in synonym: short, int,
DWORD, uint32_t, u4, _BYTE, ...; `cs.add_type(name, "other")`; `typedef` read by the legacy parser), chains of those,
classes made by a typedef (arrays, pointers, anonymous structures with several names), enums and flags.

A case is ONE cstruct instance (endianness x pointer width x {packed, aligned} x {compiled, interpreted}) that is either
FRESH or LOADED by a random history (recorded as a script, so a failing case is a program):

    struct / union definitions (defs.Gen: fixed-size members of every kind), also as `typedef struct {..} A, B;` and
    `typedef struct Tag {..} A;`; enums / flags over integer names; `typedef X N;`, `typedef X N[k];`, `N[k][j]`,
    `typedef X *N;`, `typedef X *N[k];` with X any name known so far (also multi-word: unsigned int);
    `cs.add_type(N, "X")` (string reference, chains of up to 7 hops), `cs.add_type(N, cs.resolve("X"))`,
    `cs.add_type(N, cs.resolve("X")[k])` (classes through the API); `typedef X N;` through the legacy parser (DEF_LEGACY
    registers a string reference); definitions loaded by cs.load or cs.loadfile.

Then EVERY name of cs.typedefs is visited (the quick tier visits every name with the cheap routes and a random half of the
built-in names with the routes that load a definition; user names always with all).  Independent reference: the C size and
alignment of the name - a table of the built-in names (what the C / Windows / GNU / IDA spelling means, sizes from
refimpl.SC), the C rule (refimpl) on the generator's tree for structures and unions, element count x element size for
array typedefs, the configured pointer width for pointers, the base type for enums.  Routes:

    type     len(cs.resolve(N)) = C size; parsing through a random public entry point (class call / .read / .reads /
             cs.read(name, ..) on bytes, bytearray, memoryview, BytesIO, a real file object) consumes exactly that many
             bytes (stream position; an exact-length buffer has to be enough) and dumping the value gives that many
    expr     Expression(cs, e).evaluate() for e = sizeof(N) inside random arithmetic (spacing variants, * + << | & ~ / %
             with constants, sizeof(N) op sizeof(M)) = the same arithmetic on the C sizes
    define   `#define K e` through cs.load: cs.consts[K] (and cs.K) = the value
    static   `struct S { uint8 pre; EL raw[e]; N v; uint16 post; }` (also `[k][e]`, a union instead of a struct, a
             #define'd constant as the dimension) loaded by cs.load / cs.loadfile / the legacy parser: len(S), sizeof(S),
             member offsets = the C layout computed from the C sizes (packed: back to back; aligned: natural alignment, tail
             padding); bytes consumed by parsing = len(dumps()) = len(S); the parsed raw member has e elements
    runtime  `struct D { uint8|uint16 n; EL raw[e(n)]; uint8 tail; }` with sizeof(N) and the member n in the dimension:
             parsing input built for the expected element count consumes exactly 1|2 + count*len(EL) + 1 bytes, raw has
             `count` elements, tail is the byte at the expected position, dumps() has the same length
    enum     `enum E : uint16 { A = e, B };` (token and legacy parser): A = value, B = value + 1
    api      cs.resolve(EL)[Expression(cs, e)] (array type made through the API): bytes consumed / dumped = value*len(EL)

Everything asked of the library here is valid, so an exception anywhere is a reported violation, not a harness crash.

Excluded, precisely (documented, not silenced):
  * names that are not one identifier (unsigned int, long long, signed char, unsigned __int64, ...): `sizeof(unsigned int)`
    is C, but the library's expression tokenizer splits it into two identifiers and raises ExpressionParserError('Invalid
    sizeof operation') - on the unmodified library; reported to the maintainer of this check, probed only by route `type`
    and as the X of typedefs / aliases (whose new one-word name is then probed by every route);
  * dynamically sized names (uleb128, ileb128): the size clause speaks about fixed-size types;
  * aligned-mode definitions with bit-fields on int24/uint24/int48/uint48 units (known finding F23: the generator draws
    another tree);  `long` is 4 bytes (the library's documented data model, same as harness/refimpl.ALIAS), not the LP64 8;
  * the legacy parser knows neither `align=` nor multi-dimensional arrays nor unions: legacy definitions are packed
    structures with one dimension; on an aligned instance they do not embed N (an aligned structure at a misaligned
    offset is finding F43);
  * route `runtime` in aligned mode uses 1-byte elements only (no C declaration has a run-time dimension; with 1-byte
    elements the C rule still says where `tail` is and where the structure ends: on a multiple of len(n)).
"""
from __future__ import annotations

import io
import os
import re
import tempfile

from . import defs, impl, refimpl
from .structprops import rand_bytes, small_unit_bits

# ------------------------------------------------------------------------------------------------ the C side
# what the built-in spellings mean (C, <stdint.h>, Windows, GNU, IDA, the library's short forms) -> internal scalar
_U = {8: "uint8", 16: "uint16", 32: "uint32", 64: "uint64", 128: "uint128"}
_I = {8: "int8", 16: "int16", 32: "int32", 64: "int64", 128: "int128"}
BUILTIN = {n: n for n in refimpl.SC}
BUILTIN.update({
    "signed char": "int8", "unsigned char": "char", "short": "int16", "signed short": "int16", "unsigned short": "uint16",
    "int": "int32", "signed int": "int32", "unsigned int": "uint32", "long": "int32", "signed long": "int32", "unsigned long": "uint32",
    "long long": "int64", "signed long long": "int64", "unsigned long long": "uint64",
    "BYTE": "uint8", "CHAR": "char", "SHORT": "int16", "WORD": "uint16", "DWORD": "uint32", "LONG": "int32", "LONG32": "int32",
    "LONG64": "int64", "LONGLONG": "int64", "QWORD": "uint64", "OWORD": "uint128", "WCHAR": "wchar",
    "UCHAR": "uint8", "USHORT": "uint16", "ULONG": "uint32", "ULONG64": "uint64", "ULONGLONG": "uint64",
    "INT": "int32", "UINT": "uint32", "wchar_t": "wchar",
    "_BYTE": "uint8", "_WORD": "uint16", "_DWORD": "uint32", "_QWORD": "uint64", "_OWORD": "uint128",
    "u1": "uint8", "u2": "uint16", "u4": "uint32", "u8": "uint64", "u16": "uint128",
    "uchar": "uint8", "ushort": "uint16", "uint": "uint32", "ulong": "uint32",
})
for _b in (8, 16, 32, 64, 128):
    BUILTIN.update({f"INT{_b}": _I[_b], f"UINT{_b}": _U[_b], f"__int{_b}": _I[_b], f"unsigned __int{_b}": _U[_b],
                    f"int{_b}_t": _I[_b], f"uint{_b}_t": _U[_b]})
for _b in (8, 16, 32, 64):
    BUILTIN[f"__u{_b}"] = _U[_b]

INT_NAMES = [n for n, b in BUILTIN.items() if refimpl.SC[b][0] == "int" and refimpl.SC[b][1] in (1, 2, 4, 8)]
IDENT = re.compile(r"[A-Za-z_][A-Za-z0-9_]*\Z")
SAFE = bytes([0, 0, 1, 0x41, 0x7F, 2])  # input alphabet that is well-formed for every element type (no UTF-16 surrogates)


def c_size_align(name):
    """(size, alignment) of a built-in name by the table, or None"""
    b = BUILTIN.get(name)
    if b is None:
        return None
    _, size, _, al = refimpl.SC[b]
    return size, al


def roundup(o, a):
    return (o + a - 1) // a * a if a > 1 else o


def c_layout(kind, members, align):
    """C rule on [(size, alignment)] -> (size, [offsets])"""
    off, offs, maxal, top = 0, [], 1, 0
    for size, al in members:
        maxal = max(maxal, al or 1)
        if kind == "union":
            offs.append(0)
            top = max(top, size)
            continue
        if align:
            off = roundup(off, al or 1)
        offs.append(off)
        off += size
    total = top if kind == "union" else off
    return (roundup(total, maxal) if align else total), offs


# ------------------------------------------------------------------------------------------------ expressions around sizeof

def sizeof_expr(rnd, name, a, others, limit=160):
    """-> (text, value): an expression around sizeof(name) and the same arithmetic on the C size `a`; value in 0..limit"""
    sp = rnd.choice(["sizeof({})", "sizeof({})", "sizeof({})", "sizeof( {} )", "sizeof ({})", "sizeof({} )"])
    s = sp.format(name)
    k, c = rnd.randint(2, 4), rnd.randint(1, 7)
    forms = [(s, a), (s, a), (s, a), (f"{s} * {k} + {c}", a * k + c), (f"{k}*{s}", k * a), (f"({c} + {s}) * {k}", (c + a) * k),
             (f"{s} << {k - 1}", a << (k - 1)), (f"{s} | 0x10", a | 16), (f"({s} + 3) & ~3", (a + 3) & ~3), (f"({s} + {c}) / 2", (a + c) // 2),
             (f"{c} + {s} % {k}", c + a % k), (f"{s}+0x{c:x}", a + c), (f"{100 + a} - {s}", 100), (f"-{s} + {a + c}", c), (f"{s} ^ 1", a ^ 1)]
    if others:
        m, b = rnd.choice(others)
        forms += [(f"{s} + sizeof({m})", a + b), (f"sizeof({m}) + {s}", a + b), (f"{s} * sizeof({m})", a * b), (f"sizeof({m})*{k} + {s}", b * k + a)]
    for _ in range(8):
        t, v = rnd.choice(forms)
        if 0 <= v <= limit:
            return t, v
    return s, a


# ------------------------------------------------------------------------------------------------ one instance

class Inst:
    """one cstruct instance with its recorded history and the C side of every name registered on the way"""

    def __init__(self, rnd, endian, ptr, align, compiled):
        self.rnd, self.endian, self.ptr, self.align, self.compiled = rnd, endian, ptr, align, compiled
        self.cfg = refimpl.Cfg(endian, align, ptr, impl.CONSTS)
        self.sess = impl.Session(endian=endian, pointer=ptr, preamble=False)
        self.cs = self.sess.cs
        self.user: dict[str, tuple] = {}  # name -> (size, alignment, how registered)
        self.depth: dict[str, int] = {}  # user string references: number of name -> name hops before a class is reached
        self.n = 0
        self.tmp: list[str] = []

    def fresh(self, stem):
        self.n += 1
        return f"{stem}{self.n}"

    def known(self, name):
        """C (size, alignment, origin) of a name, or None"""
        if name in self.user:
            return self.user[name]
        t = c_size_align(name)
        return None if t is None else (t[0], t[1], "built-in")

    def hops(self, name):
        return self.depth.get(name, 0 if (name in self.user or BUILTIN.get(name) == name) else 1)

    def pick(self, pred=lambda n, k: True):
        pool = [n for n in list(self.user) + list(BUILTIN) if (k := self.known(n))[0] is not None and pred(n, k)]
        r = self.rnd.random()
        if self.user and r < 0.45:
            mine = [n for n in pool if n in self.user]
            if mine:
                return self.rnd.choice(mine)
        return self.rnd.choice(pool)

    # -- ways a definition reaches the instance ----------------------------------------------------------------------
    def load(self, text, how=None, align=None, compiled=None):
        how = how or self.rnd.choice(["load", "load", "loadfile"])
        align = self.align if align is None else align
        compiled = self.compiled if compiled is None else compiled
        if how == "load":
            self.sess.load_text(text, compiled=compiled, align=align)
        elif how == "loadfile":
            fd, path = tempfile.mkstemp(prefix="v9c04-", suffix=".h", dir="/tmp")
            self.tmp.append(path)
            with os.fdopen(fd, "w") as fh:
                fh.write(text)
            self.sess.note(f"open({path!r}, 'w').write({text!r}); cs.loadfile({path!r}, compiled={compiled}, align={align})")
            self.cs.loadfile(path, compiled=compiled, align=align)
        else:  # the legacy parser: no align keyword, packed
            self.sess.note(f"cs.load({text!r}, deftype=cstruct.DEF_LEGACY, compiled={compiled})")
            self.cs.load(text, deftype=self.cs.DEF_LEGACY, compiled=compiled)
        return how

    def cleanup(self):
        for p in self.tmp:
            try:
                os.unlink(p)
            except OSError:
                pass
        self.tmp = []

    # -- the loading history -----------------------------------------------------------------------------------------
    def step(self, res):
        rnd = self.rnd
        r = rnd.random()
        if r < 0.22:
            self.step_aggregate(res)
        elif r < 0.30:
            base = rnd.choice(INT_NAMES)
            if rnd.random() < 0.3 and self.user:
                mine = [n for n, k in self.user.items() if k[2] == "int-alias"]
                base = rnd.choice(mine) if mine else base
            kind = rnd.choice(["enum", "enum", "flag"])
            nm = self.fresh("Ue")
            self.load(f"{kind} {nm} : {base} {{ {nm}_A = 1, {nm}_B, {nm}_C = 4 }};\n", how=rnd.choice(["load", "loadfile"]))
            s, a, _ = self.known(base)
            self.user[nm] = (s, a, kind)
            res.feat(f"sizeof-names:setup:{kind}")
        elif r < 0.55:
            x = self.pick()
            s, a, _ = self.known(x)
            nm = self.fresh("Ut")
            form = rnd.choice(["plain", "plain", "array", "array2", "ptr", "ptr2", "ptr-array"]) if x != "void" else rnd.choice(["plain", "ptr"])
            ps, pa = refimpl.size_align(("sc", self.ptr), self.cfg)
            k, j = rnd.randint(0, 4) if rnd.random() < 0.2 else rnd.randint(1, 4), rnd.randint(1, 3)
            decl, sz = {"plain": (nm, (s, a)), "array": (f"{nm}[{k}]", (k * s, a)), "array2": (f"{nm}[{j}][{k}]", (j * k * s, a)),
                        "ptr": (f"*{nm}", (ps, pa)), "ptr2": (f"* *{nm}", (ps, pa)), "ptr-array": (f"*{nm}[{k}]", (k * ps, pa))}[form]
            self.load(f"typedef {x} {decl};\n", how=rnd.choice(["load", "load", "loadfile"]))
            self.user[nm] = (*sz, "int-alias" if (form == "plain" and x in INT_NAMES) else "typedef:" + form)
            res.feat(f"sizeof-names:setup:typedef:{form}")
        elif r < 0.80:
            # string reference through the API (chains: the target may itself be a reference)
            x = self.pick(lambda n, k: self.hops(n) < 6)  # (cs.resolve follows at most 10 references)
            nm = self.fresh(rnd.choice(["Ua", "Ualias_with_a_long_name_", "A"]))
            self.sess.note(f"cs.add_type({nm!r}, {x!r})")
            self.cs.add_type(nm, x)
            self.depth[nm] = self.hops(x) + 1
            res.feat(f"sizeof-names:setup:string-reference:hops={self.depth[nm]}")
            s, a, o = self.known(x)
            self.user[nm] = (s, a, "int-alias" if (x in INT_NAMES or o == "int-alias") else "string-reference")
            res.feat("sizeof-names:setup:add_type(name, 'other name')")
        elif r < 0.90:
            x = self.pick(lambda n, k: n != "void")
            s, a, _ = self.known(x)
            nm = self.fresh("Uc")
            if rnd.random() < 0.5:
                self.sess.note(f"cs.add_type({nm!r}, cs.resolve({x!r}))")
                self.cs.add_type(nm, self.cs.resolve(x))
                self.user[nm] = (s, a, "class")
            else:
                k = rnd.randint(1, 4)
                self.sess.note(f"cs.add_type({nm!r}, cs.resolve({x!r})[{k}])")
                self.cs.add_type(nm, self.cs.resolve(x)[k])
                self.user[nm] = (k * s, a, "class:array")
            res.feat("sizeof-names:setup:add_type(name, class)")
        else:
            x = self.pick(lambda n, k: IDENT.match(n) and self.hops(n) < 6)
            nm = self.fresh("Ul")
            self.load(f"typedef {x} {nm};\n", how="legacy")
            self.depth[nm] = self.hops(x) + 1
            s, a, _ = self.known(x)
            self.user[nm] = (s, a, "legacy-typedef")
            res.feat("sizeof-names:setup:legacy typedef (string reference)")

    def step_aggregate(self, res):
        rnd = self.rnd
        for _ in range(20):
            kind = "union" if rnd.random() < 0.25 else "struct"
            g = defs.Gen(rnd, allow_dynamic=False, allow_eof=False, max_depth=rnd.choice([0, 1, 2]), max_fields=rnd.choice([2, 4, 6]))
            tree = (kind, g.fields(g.max_depth, dyn=False, top=True, in_union=(kind == "union")))
            if self.align and small_unit_bits(tree):  # F23 territory
                res.feat("sizeof-names:setup:tree-redrawn (F23 territory)")
                continue
            try:
                s, a = refimpl.size_align(tree, self.cfg)
            except refimpl.Bad:
                continue
            if s is not None and s <= 400:
                break
        else:
            return
        if "E8" not in self.user:
            self.load(defs.PREAMBLE + "#define K2 2\n#define K0 0\n", how="load")
            for e, (kd, base, _) in defs.ENUMS.items():
                self.user[e] = (*refimpl.size_align(("sc", base), self.cfg), kd)
        body = " ".join(defs.render_field(f, None) for f in tree[1])
        form = rnd.choice(["tag", "tag", "typedef-anon", "typedef-anon2", "typedef-tag"])
        a1, a2 = self.fresh("Us"), self.fresh("Us")
        text, names = {"tag": (f"{kind} {a1} {{ {body} }};\n", [a1]), "typedef-anon": (f"typedef {kind} {{ {body} }} {a1};\n", [a1]),
                       "typedef-anon2": (f"typedef {kind} {{ {body} }} {a1}, {a2};\n", [a1, a2]),
                       "typedef-tag": (f"typedef {kind} {a1} {{ {body} }} {a2};\n", [a1, a2])}[form]
        self.load(text)
        for nm in names:
            self.user[nm] = (s, a, kind)
        res.feat(f"sizeof-names:setup:{kind}:{form}")


# ------------------------------------------------------------------------------------------------ parsing entry points

STREAMS = ["call(BytesIO)", "read(BytesIO)", "cs.read(name, BytesIO)", "call(file)", "read(file)"]
BUFFERS = ["call(bytes)", "read(bytes)", "reads(bytes)", "call(bytearray)", "read(bytearray)", "reads(memoryview)", "call(memoryview)",
           "cs.read(name, bytes)"]


def parse_via(cs, T, name, how, data, want):
    """-> ('ok', value, consumed or None) | ('err', text).  Streams get the whole data (position tells what was consumed);
    buffers get exactly `want` bytes (enough if the type consumes what it declares)"""
    try:
        if how in STREAMS:
            if "file" in how:
                s = tempfile.TemporaryFile()
                s.write(data)
                s.seek(0)
            else:
                s = io.BytesIO(data)
            try:
                v = T(s) if how.startswith("call") else (T.read(s) if how.startswith("read") else cs.read(name, s))
                return ("ok", v, s.tell())
            finally:
                s.close()
        b = data[:want]
        b = bytearray(b) if "bytearray" in how else (memoryview(b) if "memoryview" in how else b)
        v = T(b) if how.startswith("call") else (T.reads(b) if how.startswith("reads") else (T.read(b) if how.startswith("read") else cs.read(name, b)))
        return ("ok", v, None)
    except Exception as e:  # noqa: BLE001
        return ("err", f"{type(e).__name__}: {e}"[:160])


def sizes_via(rnd, cs, T, name, want, registered=True):
    """bytes consumed by parsing (random entry point, random then zero input) and bytes dumped -> (dict, entry, input)"""
    pool = STREAMS + BUFFERS if rnd.random() < 0.5 else STREAMS
    if not registered:
        pool = [h for h in pool if not h.startswith("cs.read")]
    how = rnd.choice(pool)
    data = rand_bytes(rnd, want + 5)
    r = parse_via(cs, T, name, how, data, want)
    if r[0] != "ok":  # ill-formed UTF-16, an enum... : zero bytes parse everywhere
        data = bytes(want + 5)
        r = parse_via(cs, T, name, how, data, want)
    got = {}
    if r[0] != "ok":
        got[f"parsed by {how}"] = r[1]
        return got, how, data
    if r[2] is not None:
        got[f"parsed by {how}"] = r[2]
    d = impl.dump(T, r[1])
    got["dumped"] = len(d[1]) if d[0] == "ok" else d
    return got, how, data


# ------------------------------------------------------------------------------------------------ the routes

class Probe:
    def __init__(self, eng, res, inst: Inst):
        self.eng, self.res, self.inst, self.rnd = eng, res, inst, inst.rnd
        self.setup = list(inst.sess.steps)  # the instance's history; probes are independent of each other
        self.n = 0

    def uniq(self, stem):
        self.n += 1
        return f"Z{stem}{self.n}"

    def viol(self, what, name, lines, **kw):
        i = self.inst
        data = {"name": name, "registered_as": repr(i.cs.typedefs.get(name))[:80], "endian": i.endian, "pointer": i.ptr, "align": i.align,
                "compiled": i.compiled, "history": self.setup + list(lines), "repro": "\n".join(self.setup + list(lines))}
        data.update(kw)
        self.eng.report(what, data, [])

    def loaded(self, text, how, align, compiled):
        """script line of a definition load"""
        if how == "legacy":
            return f"cs.load({text!r}, deftype=cstruct.DEF_LEGACY, compiled={compiled})"
        if how == "loadfile":
            return f"open('/tmp/d.h', 'w').write({text!r}); cs.loadfile('/tmp/d.h', compiled={compiled}, align={align})"
        return f"cs.load({text!r}, compiled={compiled}, align={align})"

    def do_load(self, text, how):
        """load a probe definition without recording it in the instance's history -> script line"""
        i = self.inst
        mark = len(i.sess.steps)
        try:
            i.load(text, how=how)
        finally:
            del i.sess.steps[mark:]
        return self.loaded(text, how, i.align, i.compiled)

    # -- type ---------------------------------------------------------------------------------------------------------
    def r_type(self, name, size, origin):
        cs, rnd = self.inst.cs, self.rnd
        self.res.count((tuple(self.setup), name, "type"), True)
        lines = [f"T = cs.resolve({name!r})"]
        try:
            T = cs.resolve(name)
            got = {"len": len(T)}
            if IDENT.match(name):
                U = getattr(cs, name)
                if U is not T:
                    got["cs.<name> is cs.resolve(name)"] = False
        except Exception as e:  # noqa: BLE001
            self.viol(f"{name} ({origin}): resolving / sizing raises {type(e).__name__}: {e}", name, lines)
            return None
        more, how, data = sizes_via(rnd, cs, T, name, size)
        got.update(more)
        self.res.feat(f"sizeof-names:type:entry:{how}")
        if any(v != size for v in got.values()):
            self.viol(f"{name} ({origin}, C size {size}): " + ", ".join(f"{a}={b}" for a, b in got.items()) + ": these must agree with the C size",
                      name, lines + [f"# entry point {how}, input {data.hex()}"], input=data.hex(), entry=how)
        return T

    # -- expr ---------------------------------------------------------------------------------------------------------
    def r_expr(self, name, size, others, origin):
        cs = self.inst.cs
        text, want = sizeof_expr(self.rnd, name, size, others, limit=10 ** 6)
        for t, w in ((f"sizeof({name})", size), (text, want)):
            self.res.count((tuple(self.setup), t, "expr"), True)
            try:
                got = impl.dc().expression.Expression(cs, t).evaluate()
            except Exception as e:  # noqa: BLE001
                got = f"{type(e).__name__}: {e}"
            if got != w:
                self.viol(f"Expression {t!r} evaluates to {got}; the C size of {name} ({origin}) is {size}, so it has to be {w}"
                          + self.lenof(name, t), name, [f"from dissect.cstruct.expression import Expression; print(Expression(cs, {t!r}).evaluate())"],
                          expression=t)
                return

    def lenof(self, name, text=""):
        """what len() says about the name (and about the other sizeof operands of the expression `text`)"""
        out = []
        for m in [name] + [m for m in re.findall(r"sizeof\s*\(\s*(\w+)\s*\)", text) if m != name]:
            k = self.inst.known(m)
            c = "" if (m == name or k is None) else f", C size {k[0]}"
            try:
                out.append(f"len(cs.resolve({m!r})) = {len(self.inst.cs.resolve(m))}{c}")
            except Exception as e:  # noqa: BLE001
                out.append(f"len(cs.resolve({m!r})) raises {type(e).__name__}{c}")
        return " (" + "; ".join(out) + ")"

    # -- define -------------------------------------------------------------------------------------------------------
    def r_define(self, name, size, others, origin):
        cs = self.inst.cs
        text, want = sizeof_expr(self.rnd, name, size, others, limit=10 ** 6)
        k = self.uniq("K")
        src = f"#define {k} {text}\n"
        self.res.count((tuple(self.setup), src, "define"), True)
        try:
            line = self.do_load(src, self.rnd.choice(["load", "load", "load", "loadfile"]))
            got = cs.consts.get(k, "no such constant")
            if got == want and getattr(cs, k) != want:
                got = f"cs.consts has {got}, cs.{k} is {getattr(cs, k)!r}"
        except Exception as e:  # noqa: BLE001
            line, got = self.loaded(src, "load", self.inst.align, self.inst.compiled), f"{type(e).__name__}: {e}"
        if got != want:
            self.viol(f"#define {k} {text} gives {got!r}; the C size of {name} ({origin}) is {size}, so the constant has to be {want}" + self.lenof(name, text),
                      name, [line, f"print(cs.{k})"], expression=text)
        return k, want

    # -- static -------------------------------------------------------------------------------------------------------
    def r_static(self, name, size, al, others, origin):
        i, rnd, cs = self.inst, self.rnd, self.inst.cs
        how = rnd.choice(["load", "load", "loadfile", "legacy"])
        align = i.align and how != "legacy"
        text, n = sizeof_expr(rnd, name, size, others)
        if rnd.random() < 0.15:  # the dimension is a constant defined from the expression
            try:
                k = self.uniq("K")
                pre_line = [self.do_load(f"#define {k} {text}\n", "load")]
                text = k
            except Exception:  # noqa: BLE001 - (route `define` reports it)
                return
        else:
            pre_line = []
        els = [("char", 1, 1), ("uint8", 1, 1), ("BYTE", 1, 1), ("uint16", 2, 2), ("wchar", 2, 2), ("int24", 3, 4), ("uint32", 4, 4)]
        if 0 < size <= 12 and not (i.align and how == "legacy"):
            els.append((name, size, al))
        el, es, ea = rnd.choice(els[:3] if rnd.random() < 0.5 else els)
        outer = rnd.choice([2, 3]) if (how != "legacy" and rnd.random() < 0.2) else None
        kind = "union" if (how != "legacy" and rnd.random() < 0.15) else "struct"
        members = [("pre", "uint8", "", (1, 1)), ("raw", el, f"[{outer}][{text}]" if outer else f"[{text}]", ((outer or 1) * n * es, ea))]
        embed = not (i.align and how == "legacy")
        if embed:
            members.append(("v", name, "", (size, al)))
        members.append(("post", "uint16", "", (2, 2)))
        if rnd.random() < 0.3:
            members = members[1:]
        S = self.uniq("S")
        src = f"{kind} {S} {{ " + " ".join(f"{t} {m}{d};" for m, t, d, _ in members) + " };\n"
        want, offs = c_layout(kind, [m[3] for m in members], align)
        self.res.count((tuple(self.setup), src, how, align), True)
        self.res.feat(f"sizeof-names:static:{how}:{kind}:{'aligned' if align else 'packed'}" + (":2-dim" if outer else ""))
        lines = pre_line + [self.loaded(src, how, i.align, i.compiled), f"T = cs.{S}; print(len(T), [f.offset for f in T.__fields__])"]
        try:
            self.do_load(src, how)
            T = getattr(cs, S)
            got = {"len": len(T), "offsets": [f.offset for f in T.__fields__]}
            if kind == "union":  # (the library gives the members of a union the offset None or 0)
                got["offsets"] = [o or 0 for o in got["offsets"]]
        except Exception as e:  # noqa: BLE001
            self.viol(f"{src.strip()} ({how}): rejected or not sized: {type(e).__name__}: {e}", name, lines, definition=src)
            return
        exp = {"len": want, "offsets": offs}
        try:
            got["sizeof"] = impl.dc().expression.Expression(cs, f"sizeof({S})").evaluate()
        except Exception as e:  # noqa: BLE001
            got["sizeof"] = f"{type(e).__name__}: {e}"
        exp["sizeof"] = want
        more, entry, data = sizes_via(rnd, cs, T, S, want)
        for a, b in more.items():
            got[a], exp[a] = b, want
        if got == exp:  # the raw member has the declared number of elements
            r = parse_via(cs, T, S, "call(BytesIO)", bytes(want), want)
            try:
                raw = r[1].raw
                cnt = len(raw) if outer is None else [len(x) for x in raw]
            except Exception as e:  # noqa: BLE001
                cnt = f"{type(e).__name__}: {e}"
            got["elements of raw"], exp["elements of raw"] = cnt, (n if outer is None else [n] * outer)
        if got != exp:
            bad = ", ".join(f"{a}={got[a]} (C: {exp[a]})" for a in got if got[a] != exp[a])
            self.viol(f"{src.strip()} ({how}, {'aligned' if align else 'packed'}; C size of {name} ({origin}) is {size}, the dimension is {n}): {bad}"
                      + self.lenof(name, src), name, lines + [f"# entry point {entry}, input {data.hex()}"], definition=src, input=data.hex(), entry=entry)

    # -- runtime ------------------------------------------------------------------------------------------------------
    def r_runtime(self, name, size, others, origin):
        i, rnd, cs = self.inst, self.rnd, self.inst.cs
        how = rnd.choice(["load", "load", "loadfile", "legacy"])
        align = i.align and how != "legacy"
        nv = rnd.randint(0, 5)
        s = rnd.choice(["sizeof({})", "sizeof( {} )"]).format(name)
        k = rnd.randint(2, 3)
        forms = [(f"n * {s}", nv * size), (f"{s} * n", size * nv), (f"{s} + n", size + nv), (f"n + {s}", nv + size), (f"n + {s} * {k}", nv + size * k),
                 (f"({s} + n) * {k}", (size + nv) * k), (f"{s} + n - n", size), (f"(n & 1) + {s}", (nv & 1) + size), (f"{s} << (n & 1)", size << (nv & 1))]
        if others:
            m, b = rnd.choice(others)
            forms += [(f"{s} + n * sizeof({m})", size + nv * b), (f"sizeof({m}) * n + {s}", b * nv + size)]
        text, cnt = rnd.choice(forms)
        if cnt > 300:
            text, cnt = f"{s} + n", size + nv
        el, es = rnd.choice([("char", 1), ("uint8", 1), ("BYTE", 1), ("int8", 1)] if (align or rnd.random() < 0.5) else
                            [("uint16", 2), ("wchar", 2), ("uint24", 3), ("uint32", 4), ("WORD", 2)])
        nt, ns = rnd.choice([("uint8", 1), ("uint8", 1), ("uint16", 2)])
        D = self.uniq("D")
        src = f"struct {D} {{ {nt} n; {el} raw[{text}]; uint8 tail; }};\n"
        total = ns + cnt * es + 1
        padded = roundup(total, ns) if align else total  # aligned: the structure ends on a multiple of its largest member alignment
        tail = rnd.choice([0x5A, 0xA5, 0x33])
        data = nv.to_bytes(ns, "little" if i.endian == "<" else "big") + bytes(rnd.choice(SAFE) for _ in range(cnt * es)) + bytes([tail]) + b"\xee" * 4
        self.res.count((tuple(self.setup), src, how, data), True)
        self.res.feat(f"sizeof-names:runtime:{how}:{'aligned' if align else 'packed'}")
        lines = [self.loaded(src, how, i.align, i.compiled), f"import io; s = io.BytesIO(bytes.fromhex({data.hex()!r})); v = cs.{D}(s); print(s.tell(), len(v.raw), v.tail, len(v.dumps()))"]
        try:
            self.do_load(src, how)
            T = getattr(cs, D)
        except Exception as e:  # noqa: BLE001
            self.viol(f"{src.strip()} ({how}): rejected: {type(e).__name__}: {e}", name, lines, definition=src)
            return
        entry = rnd.choice(STREAMS)
        r = parse_via(cs, T, D, entry, data, total)
        got, exp = {}, {"consumed": padded, "n": nv, "elements of raw": cnt, "tail": tail, "dumped": padded}
        if r[0] != "ok":
            got = {"consumed": r[1]}
        else:
            try:
                v = r[1]
                got = {"consumed": r[2], "n": int(v.n), "elements of raw": len(v.raw), "tail": int(v.tail)}
                d = impl.dump(T, v)
                got["dumped"] = len(d[1]) if d[0] == "ok" else d
            except Exception as e:  # noqa: BLE001
                got["value"] = f"{type(e).__name__}: {e}"
        if any(got.get(a) != exp[a] for a in exp) or "value" in got:
            bad = ", ".join(f"{a}={got.get(a)} (expected {exp.get(a)})" for a in list(exp) + ["value"] if got.get(a) != exp.get(a))
            self.viol(f"{src.strip()} ({how}) parsing n={nv} by {entry}: C size of {name} ({origin}) is {size}, so raw has {cnt} elements and the "
                      f"structure {padded} bytes: {bad}" + self.lenof(name, src), name, lines, definition=src, input=data.hex(), entry=entry)

    # -- enum ---------------------------------------------------------------------------------------------------------
    def r_enum(self, name, size, others, origin):
        rnd, cs = self.rnd, self.inst.cs
        how = rnd.choice(["load", "load", "loadfile", "legacy"])
        text, want = sizeof_expr(rnd, name, size, others, limit=60000)
        E = self.uniq("E")
        kind = "enum"
        src = f"{kind} {E} : uint16 {{ {E}_P = 1, {E}_A = {text}, {E}_B }};\n"
        self.res.count((tuple(self.setup), src, how), True)
        self.res.feat(f"sizeof-names:enum:{how}")
        lines = [self.loaded(src, how, self.inst.align, self.inst.compiled), f"print(cs.{E}.{E}_A.value, cs.{E}.{E}_B.value)"]
        try:
            self.do_load(src, how)
            T = getattr(cs, E)
            got = (int(getattr(T, f"{E}_A").value), int(getattr(T, f"{E}_B").value), len(T))
        except Exception as e:  # noqa: BLE001
            got = f"{type(e).__name__}: {e}"
        if got != (want, want + 1, 2):
            self.viol(f"{src.strip()} ({how}): (A, B, len) = {got}; the C size of {name} ({origin}) is {size}, so it has to be {(want, want + 1, 2)}"
                      + self.lenof(name, src), name, lines, definition=src)

    # -- api ----------------------------------------------------------------------------------------------------------
    def r_api(self, name, size, others, origin):
        rnd, cs = self.rnd, self.inst.cs
        text, n = sizeof_expr(rnd, name, size, others)
        el, es = rnd.choice([("char", 1), ("uint8", 1), ("uint16", 2), ("wchar", 2), ("DWORD", 4), ("int24", 3)])
        total = n * es
        data = bytes(rnd.choice(SAFE) for _ in range(total + 4))
        self.res.count((tuple(self.setup), text, el, "api"), True)
        self.res.feat("sizeof-names:api-array")
        lines = ["from dissect.cstruct.expression import Expression; import io", f"A = cs.resolve({el!r})[Expression(cs, {text!r})]",
                 f"s = io.BytesIO(bytes.fromhex({data.hex()!r})); v = A(s); print(s.tell(), len(v), len(A.dumps(v)))"]
        got = {}
        try:
            A = cs.resolve(el)[impl.dc().expression.Expression(cs, text)]
            entry = rnd.choice(["call(BytesIO)", "read(BytesIO)", "call(file)"])
            r = parse_via(cs, A, None, entry, data, total)
            if r[0] != "ok":
                got["consumed"] = r[1]
            else:
                got = {"consumed": r[2], "elements": len(r[1])}
                d = impl.dump(A, r[1])
                got["dumped"] = len(d[1]) if d[0] == "ok" else d
        except Exception as e:  # noqa: BLE001
            got["array type"] = f"{type(e).__name__}: {e}"
        exp = {"consumed": total, "elements": n, "dumped": total}
        if got != exp:
            self.viol(f"cs.resolve({el!r})[Expression(cs, {text!r})]: {got}; the C size of {name} ({origin}) is {size}, so it has to be {exp}"
                      + self.lenof(name, text), name, lines, expression=text, input=data.hex())


# ------------------------------------------------------------------------------------------------ one case

def run_case(eng, res, rnd, tier, loaded):
    endian, ptr = rnd.choice("<>"), rnd.choice(["uint64", "uint32", "uint16", "uint8"])
    align, compiled = rnd.random() < 0.5, rnd.random() < 0.5
    try:
        inst = Inst(rnd, endian, ptr, align, compiled)
    except Exception as e:  # noqa: BLE001
        eng.report(f"cstruct(endian={endian!r}, pointer={ptr!r}) raises {type(e).__name__}: {e}", {"repro": f"cstruct(endian={endian!r}, pointer={ptr!r})"}, [])
        return
    try:
        if loaded:
            for _ in range(rnd.randint(4, 14)):
                mark = len(inst.sess.steps)
                try:
                    inst.step(res)
                except Exception as e:  # noqa: BLE001
                    eng.report(f"a valid definition / registration is rejected: {type(e).__name__}: {e}  [{inst.sess.steps[-1][:200] if len(inst.sess.steps) > mark else ''}]",
                               {"history": list(inst.sess.steps), "repro": inst.sess.script()}, [])
                    return
        res.feat("sizeof-names:instance:" + ("loaded" if loaded else "fresh") + ":" + ("aligned" if align else "packed") + ":" + ("compiled" if compiled else "interpreted"))
        P = Probe(eng, res, inst)
        try:
            names = list(inst.cs.typedefs)
        except Exception as e:  # noqa: BLE001
            eng.report(f"cs.typedefs cannot be listed: {type(e).__name__}: {e}", {"repro": inst.sess.script()}, [])
            return
        for nm in inst.user:
            if nm not in names:
                P.viol(f"{nm} was registered but is not a key of cs.typedefs", nm, ["print(list(cs.typedefs))"])
        # pool of second operands: one-word fixed-size names with a known C size
        pool = [(n, inst.known(n)[0]) for n in names if IDENT.match(n) and inst.known(n) and inst.known(n)[0]]
        for name in names:
            k = inst.known(name)
            if k is None:
                # a name this check has no C meaning for (a new built-in spelling): the library's own len() is the reference
                res.feat("sizeof-names:name:not-in-the-table (reference = len(cs.resolve(name)))")
                try:
                    T = inst.cs.resolve(name)
                    k = (len(T), T.alignment or 1, "unknown to the table")
                except Exception:  # noqa: BLE001 - dynamic or unresolvable
                    continue
            size, al, origin = k
            if size is None:
                res.feat("sizeof-names:name:dynamic (not sized)")
                continue
            user = name in inst.user
            stored = "string-reference" if isinstance(inst.cs.typedefs.get(name), str) else "class"
            res.feat(f"sizeof-names:name:{'user' if user else 'built-in'}:{stored}")
            if user:
                res.feat(f"sizeof-names:name:user:{origin}")
            P.r_type(name, size, origin)
            if not IDENT.match(name):
                res.feat("sizeof-names:name:multi-word (sizeof not spellable in the library: excluded)")
                continue
            others = rnd.sample(pool, min(3, len(pool)))
            P.r_expr(name, size, others, origin)
            P.r_define(name, size, others, origin)
            if not user and tier == "quick" and rnd.random() < 0.5:
                continue
            routes = ["static", "static", "runtime", "enum", "api"]
            for route in rnd.sample(routes, 2) if not user else set(rnd.sample(routes, 3)):
                if route == "static":
                    P.r_static(name, size, al, others, origin)
                elif route == "runtime":
                    P.r_runtime(name, size, others, origin)
                elif route == "enum":
                    P.r_enum(name, size, others, origin)
                else:
                    P.r_api(name, size, others, origin)
    finally:
        inst.cleanup()


def run(H, eng, res, rnd, tier):
    n = 6 if tier == "quick" else 120
    for j in range(n):
        run_case(eng, res, rnd, tier, loaded=(j % 3 != 0))
        if len(eng.lines) > 4000:
            eng.flush()
    eng.flush()
