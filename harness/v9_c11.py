"""C11, round 9: INPUT KINDS AND CALL FORMS for unions - every public way of handing the union its bytes.

"every member's value equals the result of parsing that member's type from the union's bytes" does not depend on HOW the bytes
reached the union.  The probes of the earlier rounds parse through `U(bytes)` and `U(BytesIO)`; here one generated union is parsed
through every entry point and from every kind of input object the library accepts, and each result is held against the same
reference computed here.

Two families (own PRNG streams `c11-entry-points`, `c11-char-first`), one engine:

  entry-points   unions whose FIRST member does not cover all bits of its extent, next to members that do see those bits:
                   gap-struct         struct { small; big; [small] }  - in aligned mode a gap after the first field / tail padding
                   bitfield-struct    struct { T a:i; T b:j; ... [scalar] } with spare bits left in the storage unit (T of 8..64 bits,
                                      signed, unsigned, enum / flag)
                   nested-union       a smaller union (tail padded in aligned mode, or itself led by a gap-struct) as first member
                   tail-struct        struct { big; small } - tail padding in aligned mode
                   short-char-array   char / char[n] shorter than the union
                   anonymous-struct   an anonymous gap-struct (fields forwarded to the union)
                   array-of-structs   gap-struct[2]
                   plain              a scalar / array / enum / float (control)
                 followed (85 %: the special member is first, otherwise the order is shuffled) by 1-3 other members: a byte array
                 covering the union (sometimes longer than everything else, so that it is the member the union is dumped through),
                 covering arrays of wider integers, scalars of all widths, floats, enums, char arrays, plain structures.
  char-first     unions whose first member is `char` / `char[n]` (n = 1..8) and whose other members are as large as it, smaller,
                 larger (the union is larger than n) - or absent (a union of the char array alone).

Per union (all choices from the seeded PRNG): byte order spelled < > ! = @; packed / aligned;
interpreted / compiled; the aggregate members declared inline, as named types or as typedefs; the union declared `union U {...};` or
`typedef union {...} U;`; the definition handed over by `load`, by two `load` calls (member types first) or by `loadfile`.
The union's bytes x (random or sparse; redrawn while a float slot holds a NaN pattern) are then offered

  input kinds    bytes, a bytes subclass, bytearray, memoryview(bytes), a memoryview SLICE of a larger bytes object, a memoryview slice
                 of a larger bytearray, memoryview(array('B'));  streams: BytesIO at 0, BytesIO / BufferedReader / a real file opened
                 'rb' / the same file unbuffered (FileIO) / a bare read-seek-tell object, each positioned at an offset inside larger data
  call forms     U(x), U.read(x), U.reads(x) (buffers), U._read(fh) (streams), cs.read('U', x), U[1](x)[0], U[2](y + x) (both elements),
                 W(x).u with `struct W { uint8 tag; U u; uint8 end; }` (the union's bytes at u's offset)

and for every (call form, input kind):
  * the call succeeds; a stream has advanced by exactly len(U) (2 * len(U); len(W) for a packed W - an aligned structure does not
    consume its own tail padding from a stream, which is the structure properties' business, so W's consumption is compared in packed
    mode only, like in the placement probes);
  * every member of the union == the textbook parse (harness/refimpl.py, no library code) of the member's type from x;
  * u.dumps() has len(U) bytes and equals x at every bit that carries data in some member (F9F10 classifies unions whose dump member
    does not cover every data byte - the comparison is still made, a difference there counts as that known finding); bytes(u) == dumps;
  * len(U) == largest member, rounded up to the union's alignment in aligned mode (reference layout).
  * on a quarter of the parsed objects one member (integer, enum, integer array, char array; encoding computed here) is assigned: every
    member == reference parse of the reference buffer with that member's bytes replaced, dump likewise.

Input of a length other than len(U) (call forms with one union; buffers, BytesIO and a real file that END after the bytes):
  * longer input (x + tail) through the buffer kinds: the union is x, the tail is ignored;
  * k < len(U) bytes - k = size of the first member (`char t[n]` handed exactly n bytes), the largest member (aligned tail padding
    missing), len(U) - 1: if the reference parses EVERY member from those k bytes (only tail padding is missing) the call must succeed
    with exactly these values; otherwise no union may be returned (the library raises EOFError) - an object whose members do not come
    from the bytes it was given is what the property rules out.

Unions without bit-fields / nested unions / anonymous members also go to the Lean model (`unionhist`: parse + the one assignment).

Domain: NaN patterns in float slots are avoided (as everywhere in C11); pointers, wchar, dynamically sized members and bit-fields
directly in a union (F77) are not generated; nothing is assigned through nested structures here (F56 / F80 / F49 concern assignment
paths, covered or classified by the other C11 probes).
"""
from __future__ import annotations

import array
import io
import os
import sys
import tempfile
import traceback

from . import defs, impl, refimpl
from .common import A, mkrng, sx
from .structprops import has, union_dump_incomplete
from .t3_c11 import BareStream

S = lambda n: ("sc", n)  # noqa: E731
F = lambda n, t, b=None: {"name": n, "ty": t, "bits": b}  # noqa: E731
INTS = ["uint8", "int8", "uint16", "int16", "uint32", "int32", "uint64", "int64", "uint24", "int24", "uint48", "int48"]
SMALL = ["uint8", "int8", "char", "uint16", "uint8", "int16"]
BIG = ["uint16", "uint32", "uint64", "int32", "int64", "uint32", "uint24", "float", "double", "uint48"]
FLOATS = ["float16", "float", "double"]
BITBASES = ["uint8", "uint16", "uint32", "uint64", "int8", "int16", "int32", "E8", "F16", "uint16", "uint32"]
ENDIANS = ["<", "<", "<", ">", ">", ">", "!", "=", "@"]


class BytesSub(bytes):
    """a bytes subclass (isinstance(x, bytes) holds)"""


# ------------------------------------------------------------------------------------------------ generator

class Names:
    def __init__(self):
        self.n = 0

    def __call__(self, p="f"):
        self.n += 1
        return f"{p}{self.n}"


def sc_ty(rnd, names):
    r = rnd.random()
    if r < 0.1:
        return ("enum", rnd.choice(["E8", "F16", "E32"]))
    return S(rnd.choice(names))


def gap_struct(rnd, nm, tail=None):
    """struct { small; big; [small] }: aligned mode leaves a gap after the first field (and tail padding after a third one)"""
    fs = [F(nm(), sc_ty(rnd, SMALL)), F(nm(), sc_ty(rnd, BIG))]
    if rnd.random() < 0.2:
        fs.insert(1, F(nm(), ("arr", S(rnd.choice(["uint8", "char", "uint16"])), ("fixed", rnd.randint(1, 3)))))
    if tail if tail is not None else rnd.random() < 0.4:
        fs.append(F(nm(), sc_ty(rnd, SMALL)))
    return ("struct", fs)


def tail_struct(rnd, nm):
    """struct { big; small }: tail padding in aligned mode"""
    fs = [F(nm(), sc_ty(rnd, BIG)), F(nm(), sc_ty(rnd, SMALL))]
    if rnd.random() < 0.3:
        fs.insert(0, F(nm(), sc_ty(rnd, BIG)))
    return ("struct", fs)


def bits_struct(rnd, nm):
    """struct with 1-2 bit-field runs that leave spare bits in their storage units, optionally plain scalars around them"""
    fs = []
    if rnd.random() < 0.3:
        fs.append(F(nm(), sc_ty(rnd, SMALL)))
    bases = rnd.sample(BITBASES, rnd.choice([1, 1, 2]))
    under = lambda b: defs.ENUMS[b][1] if b in defs.ENUMS else b  # noqa: E731
    for i, base in enumerate(bases):
        if i and under(bases[i - 1]) == under(base):
            continue                                # (a second run on the same storage type would continue the first one's unit)
        width = defs.WIDTH[base]
        used = rnd.randint(1, width - 1)            # at least one spare bit
        ty = ("enum", base) if base in defs.ENUMS else S(base)
        left = used
        for j in range(rnd.randint(1, 3)):
            if left <= 0:
                break
            b = left if j == 2 else rnd.randint(1, left)
            fs.append(F(nm(), ty, b))
            left -= b
    if rnd.random() < 0.5:
        fs.append(F(nm(), sc_ty(rnd, SMALL + ["uint32"])))
    return ("struct", fs)


def small_union(rnd, nm):
    """a union that will be smaller than the outer one: byte array + wider scalar (tail padded in aligned mode), or led by a gap-struct"""
    r = rnd.random()
    if r < 0.45:
        return ("union", [F(nm(), ("arr", S(rnd.choice(["uint8", "char"])), ("fixed", rnd.choice([3, 5, 3, 7])))), F(nm(), sc_ty(rnd, ["uint16", "uint32", "int16"]))])
    if r < 0.8:
        return ("union", [F(nm(), gap_struct(rnd, nm)), F(nm(), sc_ty(rnd, INTS))])
    return ("union", [F(nm(), sc_ty(rnd, INTS)), F(nm(), sc_ty(rnd, INTS)), F(nm(), ("arr", S("uint8"), ("fixed", rnd.randint(1, 5))))])


def plain_member(rnd, nm):
    r = rnd.random()
    if r < 0.35:
        return sc_ty(rnd, INTS)
    if r < 0.5:
        return S(rnd.choice(FLOATS))
    if r < 0.6:
        return S("char")
    if r < 0.8:
        return ("arr", sc_ty(rnd, INTS + FLOATS), ("fixed", rnd.randint(1, 4)))
    if r < 0.9:
        return ("arr", S("char"), ("fixed", rnd.randint(1, 6)))
    return ("struct", [F(nm(), sc_ty(rnd, INTS)) for _ in range(rnd.randint(1, 3))])


def cover(rnd, nm, size):
    """an array that sees (at least) `size` bytes of the union"""
    r = rnd.random()
    if r < 0.6:
        return ("arr", S("uint8"), ("fixed", size + rnd.choice([0, 0, 1, 2, 4])))
    if r < 0.7:
        return ("arr", S("char"), ("fixed", size + rnd.choice([0, 1])))
    w, name = rnd.choice([(2, "uint16"), (4, "uint32"), (2, "int16"), (8, "uint64"), (3, "uint24")])
    return ("arr", S(name), ("fixed", max(1, -(-size // w))))


FIRST_KINDS = ["gap-struct"] * 4 + ["bitfield-struct"] * 3 + ["nested-union"] * 3 + ["tail-struct"] * 2 + ["short-char-array"] * 2 + \
              ["anonymous-struct", "array-of-structs", "plain", "plain"]


def hoistable(f, rnd, tcount):
    ty = f["ty"]
    while ty[0] == "arr":
        ty = ty[1]
    if ty[0] in ("struct", "union") and f["name"] is not None and rnd.random() < 0.45:
        tcount[0] += 1
        f["ref"] = (f"{'G' if ty[0] == 'struct' else 'V'}{tcount[0]}", "typedef" if rnd.random() < 0.3 else "named")
    return f


def gen_entry_union(rnd, cfg):
    nm, tcount = Names(), [0]
    kind = rnd.choice(FIRST_KINDS)
    if kind == "gap-struct":
        first = F(nm("m"), gap_struct(rnd, nm))
    elif kind == "bitfield-struct":
        first = F(nm("m"), bits_struct(rnd, nm))
    elif kind == "nested-union":
        first = F(nm("m"), small_union(rnd, nm))
    elif kind == "tail-struct":
        first = F(nm("m"), tail_struct(rnd, nm))
    elif kind == "short-char-array":
        first = F(nm("m"), S("char") if rnd.random() < 0.25 else ("arr", S("char"), ("fixed", rnd.randint(1, 5))))
    elif kind == "anonymous-struct":
        first = F(None, gap_struct(rnd, nm))
    elif kind == "array-of-structs":
        first = F(nm("m"), ("arr", gap_struct(rnd, nm, tail=rnd.random() < 0.5), ("fixed", 2)))
    else:
        first = F(nm("m"), plain_member(rnd, nm))
    hoistable(first, rnd, tcount)
    others = []
    for _ in range(rnd.randint(0, 2)):
        r = rnd.random()
        if r < 0.7:
            others.append(hoistable(F(nm("m"), plain_member(rnd, nm)), rnd, tcount))
        elif r < 0.85:
            others.append(hoistable(F(nm("m"), rnd.choice([gap_struct, bits_struct, tail_struct])(rnd, nm)), rnd, tcount))
        else:
            others.append(F(nm("m"), S("uint64")))
    size = refimpl.size_align(("union", [first] + others), cfg)[0]
    if rnd.random() < 0.85 or not others:
        others.append(F(nm("m"), cover(rnd, nm, size)))
    members = [first] + others
    if rnd.random() < 0.15:
        rnd.shuffle(members)
        kind += ":not-first"
    else:
        rnd.shuffle(others)
        members = [first] + others
    return ("union", members), kind


def gen_char_union(rnd, cfg):
    nm, tcount = Names(), [0]
    n = rnd.choice([1, 1, 2, 2, 3, 4, 4, 4, 5, 6, 8, 8])
    first = F(nm("m"), S("char") if (n == 1 and rnd.random() < 0.6) else ("arr", S("char"), ("fixed", n)))
    rel = rnd.choice(["equal", "equal", "equal", "smaller", "larger", "larger", "alone"])
    fit = [t for t in INTS + FLOATS if refimpl.sc(t)[1] <= n]
    exact = [t for t in INTS + FLOATS if refimpl.sc(t)[1] == n]
    others = []
    if rel != "alone":
        if rel == "equal":
            r = rnd.random()
            if exact and r < 0.5:
                others.append(F(nm("m"), S(rnd.choice(exact))))
            elif r < 0.75:
                others.append(F(nm("m"), ("arr", S(rnd.choice(["uint8", "int8", "char"])), ("fixed", n))))
            else:
                w = rnd.choice([t for t in ["uint8", "uint16", "uint32", "int16", "uint24"] if n % refimpl.sc(t)[1] == 0])
                others.append(F(nm("m"), ("arr", S(w), ("fixed", n // refimpl.sc(w)[1]))))
        elif rel == "larger":
            r = rnd.random()
            if r < 0.4:
                bigger = [t for t in INTS + FLOATS if refimpl.sc(t)[1] > n]
                others.append(F(nm("m"), S(rnd.choice(bigger))) if bigger else F(nm("m"), ("arr", S("uint32"), ("fixed", 3))))
            elif r < 0.7:
                others.append(F(nm("m"), ("arr", S("uint8"), ("fixed", n + rnd.randint(1, 4)))))
            else:
                others.append(hoistable(F(nm("m"), gap_struct(rnd, nm)), rnd, tcount))
                if refimpl.size_align(others[-1]["ty"], cfg)[0] <= n:
                    others.append(F(nm("m"), ("arr", S("uint16"), ("fixed", n // 2 + 1))))
        for _ in range(rnd.randint(0, 2) if rel != "smaller" else rnd.randint(1, 2)):
            r = rnd.random()
            if fit and r < 0.6:
                others.append(F(nm("m"), S(rnd.choice(fit))))
            elif r < 0.75:
                others.append(F(nm("m"), ("arr", S(rnd.choice(["uint8", "char"])), ("fixed", rnd.randint(1, n)))))
            elif r < 0.85 and n >= 2:
                others.append(hoistable(F(nm("m"), ("struct", [F(nm(), S("uint8")), F(nm(), S(rnd.choice(["uint8", "char"])))])), rnd, tcount))
            else:
                others.append(F(nm("m"), ("enum", "E8")))
        rnd.shuffle(others)
    return ("union", [first] + others), f"char-first:{rel}"


# ------------------------------------------------------------------------------------------------ rendering

def render(utree, typedef_union, outer):
    """-> (text of the hoisted member types, text of the union and the outer structure)"""
    pre = []

    def body(ty):
        return " ".join(field(g) for g in ty[1])

    def field(f):
        ty, dims = f["ty"], ""
        while ty[0] == "arr":
            dims += f"[{ty[2][1]}]"
            ty = ty[1]
        bits = f" : {f['bits']}" if f["bits"] else ""
        if ty[0] in ("struct", "union"):
            if f.get("ref"):
                tname, style = f["ref"]
                b = body(ty)
                pre.append(f"typedef {ty[0]} {{ {b} }} {tname};" if style == "typedef" else f"{ty[0]} {tname} {{ {b} }};")
                return f"{tname} {f['name']}{dims};"
            head = f"{ty[0]} {{ {body(ty)} }}"
            return f"{head};" if f["name"] is None else f"{head} {f['name']}{dims};"
        return f"{ty[1]} {f['name']}{dims}{bits};"

    inner = "\n  ".join(field(f) for f in utree[1])
    text = f"typedef union {{\n  {inner}\n}} U;\n" if typedef_union else f"union U {{\n  {inner}\n}};\n"
    text += outer
    return "".join(p + "\n" for p in pre), text


# ------------------------------------------------------------------------------------------------ reference side

def nan_slot(ty, val):
    """does a float slot of the reference value hold a NaN pattern"""
    k = ty[0]
    if k == "sc":
        kind, size, _, _ = refimpl.sc(ty[1])
        return kind == "flt" and impl.flt_is_nan(int(val[1]), size)
    if k == "arr":
        return val[0] == "list" and any(nan_slot(ty[1], v) for v in val[1:])
    if k == "struct":
        return any(nan_slot(f["ty"], v) for f, v in zip(ty[1], val[1:]))
    if k == "union":
        return any(nan_slot(f["ty"], v) for f, v in zip(ty[1], val[2:]))
    return False


def reference(utree, x, cfg, size):
    """-> ([value | None (the member does not fit into x)] per member, mask of data-carrying bits over `size` bytes, NaN pattern met)"""
    wants, mask, nan = [], bytearray(size), False
    for f in utree[1]:
        try:
            v, _, m = refimpl.parse(f["ty"], x, 0, cfg)
        except refimpl.Short:
            wants.append(None)
            continue
        wants.append(v)
        nan = nan or nan_slot(f["ty"], v)
        for i, b in enumerate(m[:size]):
            mask[i] |= b
    return wants, bytes(mask), nan


def rand_bytes(rnd, n, sparse):
    if sparse:
        return bytes(rnd.choice((0, 0, 0, 1, 0x80, 0xFF)) for _ in range(n))
    return bytes(rnd.randrange(1, 256) if rnd.random() < 0.93 else 0 for _ in range(n))


def rand_assign(rnd, ty, cs, order):
    """a value for an integer / enum / char member or an array of them -> (python value, encoding computed here, source text) | None"""
    if ty[0] == "arr":
        if ty[1] == S("char"):
            b = bytes(rnd.randrange(256) for _ in range(ty[2][1]))
            return b, b, repr(b)
        parts = [rand_assign(rnd, ty[1], cs, order) for _ in range(ty[2][1])]
        if any(p is None for p in parts):
            return None
        return [p[0] for p in parts], b"".join(p[1] for p in parts), "[" + ", ".join(p[2] for p in parts) + "]"
    if ty[0] == "enum":
        _, base, mem = defs.ENUMS[ty[1]]
        _, size, signed, _ = refimpl.sc(base)
        v = rnd.choice(mem)[1] if rnd.random() < 0.5 else (rnd.randrange(-(1 << (8 * size - 1)), 1 << (8 * size - 1)) if signed else rnd.randrange(1 << (8 * size)))
        return getattr(cs, ty[1])(v), v.to_bytes(size, order, signed=signed), f"cs.{ty[1]}({v})"
    if ty[0] != "sc":
        return None
    kind, size, signed, _ = refimpl.sc(ty[1])
    if kind == "int":
        bits = 8 * size
        lo, hi = (-(1 << (bits - 1)), (1 << (bits - 1)) - 1) if signed else (0, (1 << bits) - 1)
        v = rnd.choice([lo, hi, 0, 1, rnd.randint(lo, hi), rnd.randint(lo, hi), rnd.randint(lo, hi)])
        return v, v.to_bytes(size, order, signed=signed), repr(v)
    if kind == "char":
        b = bytes([rnd.randrange(256)])
        return b, b, repr(b)
    return None


# ------------------------------------------------------------------------------------------------ input kinds and call forms

# buffers: label -> (builder(payload, pre, post), source text with x = payload)
BUFFERS = [
    ("bytes", lambda p, a, z: p, "x"),
    ("bytes-subclass", lambda p, a, z: BytesSub(p), "type('B', (bytes,), {})(x)"),
    ("bytearray", lambda p, a, z: bytearray(p), "bytearray(x)"),
    ("memoryview(bytes)", lambda p, a, z: memoryview(p), "memoryview(x)"),
    ("memoryview-slice-of-bytes", lambda p, a, z: memoryview(a + p + z)[len(a):len(a) + len(p)], "memoryview(pre + x + post)[len(pre):len(pre) + len(x)]"),
    ("memoryview-slice-of-bytearray", lambda p, a, z: memoryview(bytearray(a + p + z))[len(a):len(a) + len(p)],
     "memoryview(bytearray(pre + x + post))[len(pre):len(pre) + len(x)]"),
    ("memoryview(array('B'))", lambda p, a, z: memoryview(array.array("B", p)), "memoryview(__import__('array').array('B', x))"),
]
# streams: label -> (builder(payload, pre, post, path) -> stream positioned at the payload, source text)
STREAMS = [
    ("BytesIO", lambda p, a, z, path: io.BytesIO(p + z), "io.BytesIO(x + post)"),
    ("BytesIO-at-offset", lambda p, a, z, path: _seek(io.BytesIO(a + p + z), len(a)), "io.BytesIO(pre + x + post); obj.seek(len(pre))"),
    ("BufferedReader", lambda p, a, z, path: _seek(io.BufferedReader(io.BytesIO(a + p + z)), len(a)),
     "io.BufferedReader(io.BytesIO(pre + x + post)); obj.seek(len(pre))"),
    ("file", lambda p, a, z, path: _seek(_file(path, a + p + z, -1), len(a)),
     "open('/tmp/c11-repro.bin', 'w+b'); obj.write(pre + x + post); obj.seek(len(pre))"),
    ("file-unbuffered", lambda p, a, z, path: _seek(_file(path, a + p + z, 0), len(a)),
     "open('/tmp/c11-repro.bin', 'w+b', buffering=0); obj.write(pre + x + post); obj.seek(len(pre))"),
    ("bare-read-seek-tell", lambda p, a, z, path: _seek(BareStream(a + p + z), len(a)),
     "type('Bare', (), {'__init__': lambda s, d: setattr(s, 'b', io.BytesIO(d)), 'read': lambda s, n=-1: s.b.read(n), "
     "'seek': lambda s, *a: s.b.seek(*a), 'tell': lambda s: s.b.tell()})(pre + x + post); obj.seek(len(pre))"),
]


def _seek(fh, pos):
    fh.seek(pos)
    return fh


def _file(path, content, buffering):
    with open(path, "wb") as fh:
        fh.write(content)
    return open(path, "rb", buffering=buffering)  # noqa: SIM115 - closed by the caller


# call forms: label, accepts ("buf" / "stream" / "both"), payload ("one" / "two" / "outer"), call(ctx, obj) -> [union objects], source
FORMS = [
    ("U(x)", "both", "one", lambda c, o: [c["U"](o)], "[cs.U(obj)]"),
    ("U.read(x)", "both", "one", lambda c, o: [c["U"].read(o)], "[cs.U.read(obj)]"),
    ("U.reads(x)", "buf", "one", lambda c, o: [c["U"].reads(o)], "[cs.U.reads(obj)]"),
    ("U._read(fh)", "stream", "one", lambda c, o: [c["U"]._read(o)], "[cs.U._read(obj)]"),
    ("cs.read('U', x)", "both", "one", lambda c, o: [c["cs"].read("U", o)], "[cs.read('U', obj)]"),
    ("U[1](x)[0]", "both", "one", lambda c, o: list(c["U"][1](o)), "list(cs.U[1](obj))"),
    ("U[2](y + x)", "both", "two", lambda c, o: list(c["U"][2](o)), "list(cs.U[2](obj))"),
    ("W(x).u", "both", "outer", lambda c, o: [c["cs"].W(o).u], "[cs.W(obj).u]"),
]


# ------------------------------------------------------------------------------------------------ the probe

def run(env, res, viol, dc, lines=None, metas=None):
    tier = env["tier"]
    n = 70 if tier == "quick" else 1200
    tmp = tempfile.mkdtemp(prefix="c11-v9-")
    try:
        for family, gen, salt in (("entry-points", gen_entry_union, "c11-entry-points"), ("char-first", gen_char_union, "c11-char-first")):
            rnd = mkrng(env["seed"], salt)
            for _ in range(n):
                try:
                    one_union(rnd, res, viol, dc, family, gen, tmp, tier, lines, metas)
                except Exception as e:  # noqa: BLE001 - on the unchanged tree nothing below raises: the library changed its behaviour
                    viol(f"input kinds / call forms ({family}): the probe tripped over the library: {type(e).__name__}: {e}",
                         {"traceback": traceback.format_exc()[-2500:]})
    finally:
        for f in os.listdir(tmp):
            os.unlink(os.path.join(tmp, f))
        os.rmdir(tmp)


def one_union(rnd, res, viol, dc, family, gen, tmp, tier, lines, metas):
    compiled = rnd.random() < 0.5
    endian = rnd.choice(ENDIANS)
    align = rnd.random() < 0.55
    eff = ">" if endian in ">!" else "<"             # this machine is little-endian for = and @ (checked below)
    if endian in "=@" and sys.byteorder != "little":
        eff = ">"
    cfg = refimpl.Cfg(eff, align, "uint64", impl.CONSTS)
    utree, kind = gen(rnd, cfg)
    size, ualign = refimpl.size_align(utree, cfg)
    otree = ("struct", [F("tag", S("uint8")), F("u", utree), F("end", S("uint8"))])
    olay = refimpl.struct_layout(otree[1], cfg)
    uoff, osize = olay["offsets"][1], olay["size"]
    typedef_union = rnd.random() < 0.3
    pre_text, text = render(utree, typedef_union, "struct W { uint8 tag; U u; uint8 end; };\n")
    how = rnd.choice(["load", "load", "load-split", "loadfile"])
    case = {"family": family, "first-member": kind, "definition": defs.PREAMBLE + pre_text + text, "endian": endian, "align": align,
            "compiled": compiled, "loaded-by": how}
    head = [f"import io; from dissect.cstruct import cstruct; cs = cstruct(endian={endian!r})",
            f"cs.load({defs.PREAMBLE + pre_text + text!r}, compiled={compiled}, align={align})   # handed over by: {how}"]
    try:
        cs = dc.cstruct(endian=endian)
        if how == "load":
            cs.load(defs.PREAMBLE + pre_text + text, compiled=compiled, align=align)
        elif how == "load-split":
            cs.load(defs.PREAMBLE + pre_text, compiled=compiled, align=align)
            cs.load(text, compiled=compiled, align=align)
        else:
            path = os.path.join(tmp, "def.h")
            with open(path, "w") as fh:
                fh.write(defs.PREAMBLE + pre_text + text)
            cs.loadfile(path, compiled=compiled, align=align)
        U = cs.U
        names = [rf._name for rf in U.__fields__]
        W = cs.W
    except Exception as e:  # noqa: BLE001
        viol(f"input kinds / call forms: the definition is rejected ({how}): {type(e).__name__}: {e}", dict(case, repro="\n".join(head)))
        return
    res.feat(f"entry:first-member:{kind}")
    res.feat(f"entry:endian-spelling:{endian}")
    res.feat(f"entry:definition:{how}:{'typedef-union' if typedef_union else 'union-U'}")
    res.feat(f"entry:{'aligned' if align else 'packed'}:{'compiled' if compiled else 'interpreted'}")
    if U.size != size or len(names) != len(utree[1]) or (align and U.alignment != ualign) or W.size != osize:
        viol(f"input kinds / call forms: len(U) is {U.size} (alignment {U.alignment}), len(W) {W.size}; largest member rounded up to the alignment "
             f"gives {size} (alignment {ualign}), W {osize}", dict(case, repro="\n".join(head + ["print(len(cs.U), cs.U.alignment, len(cs.W))"])))
        return
    # ---- contents
    sparse = rnd.random() < 0.25
    for _ in range(30):
        x = rand_bytes(rnd, size, sparse)
        wants, mask, nan = reference(utree, x, cfg, size)
        if not nan:
            break
    else:
        x = bytes(size)
        wants, mask, nan = reference(utree, x, cfg, size)
    y = rand_bytes(rnd, size, False)
    for _ in range(30):
        if not reference(utree, y, cfg, size)[2]:
            break
        y = rand_bytes(rnd, size, rnd.random() < 0.5)
    else:
        y = bytes(size)
    wants_y = reference(utree, y, cfg, size)[0]
    pre = rand_bytes(rnd, rnd.randint(1, 9), False)
    post = rand_bytes(rnd, rnd.randint(1, 5), False)
    wbytes = bytearray(rand_bytes(rnd, osize, False))
    wbytes[uoff:uoff + size] = x
    payloads = {"one": (x, [(x, wants)]), "two": (y + x, [(y, wants_y), (x, wants)]), "outer": (bytes(wbytes), [(x, wants)])}
    incomplete = union_dump_incomplete(utree, cfg)
    sigs = ["F9F10"] if incomplete else []
    ctx = {"U": U, "cs": cs}
    fpath = os.path.join(tmp, "data.bin")
    order = cfg.endian
    assignable = [j for j, f in enumerate(utree[1]) if f["name"] is not None and rand_assign(rnd, f["ty"], cs, order) is not None]

    seen_known = []

    def repro(payload, ksrc, fsrc, extra=()):
        return "\n".join(head + [f"x = bytes.fromhex({payload.hex()!r}); pre = bytes.fromhex({pre.hex()!r}); post = bytes.fromhex({post.hex()!r})",
                                 f"obj = {ksrc}", f"us = {fsrc}; u = us[-1]", *extra,
                                 "print(us, [v.dumps().hex() for v in us])"])

    def verify(u, xb, want, msk, what, cd):
        """members, dump, bytes() of one union object against the reference for the bytes xb -> ok"""
        for f, name, w in zip(utree[1], names, want):
            try:
                got = impl.canon(getattr(u, name))
            except Exception as e:  # noqa: BLE001
                viol(f"{what}: reading member {name} raises {type(e).__name__}: {e}", cd)
                return False
            if w is None:
                viol(f"{what}: a union is returned whose member {name} is {str(got)[:160]}, although the {len(xb)} bytes {xb.hex()} "
                     f"it was given do not hold a value of that member's type", cd)
                return False
            if not impl.same_val(got, w, ignore_union_buf=True):
                viol(f"{what}: member {f['name'] or name} is {str(got)[:200]}, but parsing its type from the union's bytes {xb.hex()} gives "
                     f"{str(w)[:200]}", cd)
                return False
        try:
            d = bytes(u.dumps())
            b = bytes(u)
        except Exception as e:  # noqa: BLE001
            viol(f"{what}: dumps() / bytes() raises {type(e).__name__}: {e}", cd, sigs)
            return False
        if len(d) != size or any((p ^ q) & m for p, q, m in zip(d, xb, msk)):
            if sigs and len(d) == size:
                if seen_known:          # the known finding is counted once per union, not once per entry point
                    return True
                seen_known.append(1)
            viol(f"{what}: dumps() is {d.hex()}, the union's bytes are {xb.hex()}" +
                 (" (compared at the bits that carry data in some member)" if any(m != 0xFF for m in msk) else ""), cd, sigs)
            return False
        if b != d:
            viol(f"{what}: bytes(u) is {b.hex()}, u.dumps() is {d.hex()}", cd)
            return False
        return True

    def attempt(flabel, fcall, fsrc, ptype, klabel, obj, ksrc, start, is_stream):
        payload, expect = payloads[ptype]
        what = f"{flabel} from {klabel}"
        cd = dict(case, call=flabel, input=klabel, data=payload.hex(), repro=repro(payload, ksrc, fsrc))
        res.count((family, case["definition"], endian, align, compiled, how, x, flabel, klabel), True)
        res.feat(f"entry:form:{flabel}")
        res.feat(f"entry:input:{klabel}")
        try:
            us = fcall(ctx, obj)
        except Exception as e:  # noqa: BLE001
            viol(f"{what}: parsing raises {type(e).__name__}: {e}", cd)
            return
        if is_stream:
            try:
                used = obj.tell() - start
            except Exception as e:  # noqa: BLE001
                viol(f"{what}: the stream is unusable after parsing: {type(e).__name__}: {e}", cd)
                return
            # (an aligned structure does not consume its own tail padding from a stream - a matter of the structure properties; the
            # consumption of W is compared in packed mode only, like in the placement probes)
            if used != len(payload) and not (ptype == "outer" and align):
                viol(f"{what}: the stream advanced by {used} bytes, the unions / the structure have {len(payload)}", cd)
                return
        if len(us) != len(expect):
            viol(f"{what}: {len(us)} unions returned, {len(expect)} expected", cd)
            return
        for i, (u, (xb, want)) in enumerate(zip(us, expect)):
            if not verify(u, xb, want, mask, what + (f", element {i}" if len(us) > 1 else ""), cd):
                return
        # ---- one assignment on the object this entry point produced
        if assignable and rnd.random() < 0.25:
            j = rnd.choice(assignable)
            v, enc, src = rand_assign(rnd, utree[1][j]["ty"], cs, order)
            ref = bytearray(x)
            ref[:len(enc)] = enc
            ref = bytes(ref)
            want2, mask2, nan2 = reference(utree, ref, cfg, size)
            cd2 = dict(cd, assignment=f"u.{names[j]} = {src}", repro=repro(payload, ksrc, fsrc, [f"u.{names[j]} = {src}"]))
            res.count((family, case["definition"], endian, align, compiled, how, x, flabel, klabel, names[j], src), True)
            res.feat("entry:assignment-after:" + flabel)
            try:
                setattr(us[-1], names[j], v)
            except Exception as e:  # noqa: BLE001
                viol(f"{what}: the assignment u.{names[j]} = {src} raises {type(e).__name__}: {e}", cd2)
                return
            if nan2:
                res.feat("entry:assignment:not-compared:NaN-pattern-in-a-float-slot")
                return
            verify(us[-1], ref, want2, mask2, f"{what}, after u.{names[j]} = {src}", cd2)

    # ---- every call form x every input kind, input of exactly the needed length (streams: inside larger data)
    for flabel, accepts, ptype, fcall, fsrc in FORMS:
        payload = payloads[ptype][0]
        if accepts in ("buf", "both"):
            for klabel, build, ksrc in BUFFERS:
                attempt(flabel, fcall, fsrc, ptype, klabel, build(payload, pre, post), ksrc, 0, False)
        if accepts in ("stream", "both"):
            for klabel, build, ksrc in STREAMS:
                fh = build(payload, pre, post, fpath)
                try:
                    attempt(flabel, fcall, fsrc, ptype, klabel, fh, ksrc, fh.tell(), True)
                finally:
                    if hasattr(fh, "close"):
                        fh.close()

    # ---- input of another length: longer buffers, and short input (k bytes)
    ks = set()
    first_size = refimpl.size_align(utree[1][0]["ty"], cfg)[0]
    largest = max(refimpl.size_align(f["ty"], cfg)[0] for f in utree[1])
    for k in (first_size, largest, size - 1):
        if 0 <= k < size:
            ks.add(k)
    one_forms = [f for f in FORMS if f[2] == "one"]
    variants = [("longer", x + post)] + [(f"short:{k}", x[:k]) for k in sorted(ks)]
    for vlabel, payload in variants:
        short = vlabel != "longer"
        if short:
            k = len(payload)
            want_k, mask_k, _ = reference(utree, payload, cfg, size)
            fits = all(w is not None for w in want_k)
            res.feat("entry:short-input:" + ("k=first-member" if k == first_size else "k=largest-member" if k == largest else "k=len(U)-1")
                     + (":only-tail-padding-missing" if fits else ":a-member-does-not-fit"))
        else:
            want_k, mask_k, fits = wants, mask, True
            res.feat("entry:longer-input")
        for flabel, accepts, ptype, fcall, fsrc in one_forms:
            objs = []
            if accepts in ("buf", "both"):
                objs += [(kl, b(payload, pre, b""), ks_, False) for kl, b, ks_ in BUFFERS]
            if short and accepts in ("stream", "both"):
                objs += [(kl, b(payload, pre, b"", fpath), ks_.replace(" + post", ""), True) for kl, b, ks_ in STREAMS if kl in ("BytesIO", "file")]
            for klabel, obj, ksrc, is_stream in objs:
                what = f"{flabel} from {klabel} holding " + (f"only {len(payload)} of the union's {size} bytes" if short else f"{len(payload) - size} bytes more than the union")
                cd = dict(case, call=flabel, input=klabel, data=payload.hex(), repro=repro(payload, ksrc.replace("post", "b''"), fsrc))
                res.count((family, case["definition"], endian, align, compiled, how, payload, vlabel, flabel, klabel), True)
                try:
                    try:
                        us = fcall(ctx, obj)
                    except Exception as e:  # noqa: BLE001
                        if fits:
                            viol(f"{what}: parsing raises {type(e).__name__}: {e}" + (" (every member's type parses from these bytes; only tail padding is missing)" if short else ""), cd)
                        continue
                    if len(us) != 1:
                        viol(f"{what}: {len(us)} unions returned", cd)
                        continue
                    verify(us[0], payload[:size], want_k, mask_k, what, cd)
                finally:
                    if is_stream:
                        obj.close()

    # ---- the Lean model on the same union: parse + one assignment (plain shapes only)
    if lines is not None and not incomplete and endian in "<>" and not has(utree, lambda t, d, u_: (d > 0 and t[0] == "union") or
                                                                             (t[0] in ("struct", "union") and any(g["bits"] or g["name"] is None for g in t[1]))):
        try:
            u = U(x)
            ops = []
            hist = []
            if assignable:
                j = rnd.choice(assignable)
                v, enc, src = rand_assign(rnd, utree[1][j]["ty"], cs, order)
                setattr(u, names[j], v)
                ops.append([j, impl.canon(U.__fields__[j].type(enc))])
                hist.append(f"u.{names[j]} = {src}")
            vals = [impl.canon(getattr(u, nm_)) for nm_ in names]
            if any(impl.contains_nan(v_) for v_ in vals):
                return
            cfg_sexp = [A("cfg"), A("le" if eff == "<" else "be"), "uint64", [[A(k_), v_] for k_, v_ in impl.CONSTS.items()]]
            line = sx([A("unionhist"), cfg_sexp, impl.real_ty_sexp(utree, U, align), x, ops])
            meta = (dict(case, data=x.hex(), history=hist, repro="\n".join(head + [f"u = cs.U(bytes.fromhex({x.hex()!r}))", *hist, "print(u, u.dumps().hex())"])),
                    bytes(u._buf), vals, bytes(u.dumps()))
        except Exception:  # noqa: BLE001 - the oracles above have had their say
            return
        lines.append(line)
        metas.append(meta)
        res.feat("entry:sent-to-model")
