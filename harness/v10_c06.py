"""C06, round 10: ALIGNED BIT-FIELD STRUCTURES WRITTEN / READ AT ARBITRARY STREAM POSITIONS AND NESTED IN OTHER STRUCTURES.

Every other family of C06 dumps with dumps() - into a fresh BytesIO, at position 0, where the start of every storage unit of an aligned
structure is aligned - and reads aligned structures at position 0 (v8: 16).  The writer of a structure loaded with align=True has code that
pads by the ABSOLUTE stream position; whether that code leaves a pending storage unit alone shows only when the structure does not start at
a multiple of the unit's alignment: written to a stream that stands somewhere else, or as a member / array element of another structure.

Family (h1) TOP LEVEL (all choices from the module's seeded PRNG): structures loaded with align=True made of runs - bit-field runs (two
or more fields sharing a unit, exhausted units continued by the same type, a type continued by its alias / its enum, type switches) over
the storage types of size 1/2/4/8 (unsigned, signed, char, enum / flag storage, typedef aliases), plain members in between (also a
leading uint8 that moves the first unit to a later offset), in a fraction a null-terminated char array in front of a run (members behind
it have no layout offset) - under {<, >} x {interpreted, compiled}.  Values: built through T(**values) (edge values 0 / 2^bits-1 / drawn)
and parsed from random bytes by T.read / T(stream) / cs.read on a stream that stands at a drawn position 0..9.  Every value is written at
EVERY stream position 0..9 through a drawn entry point - v.write(stream), T.write(stream, v) on a BytesIO or a REAL FILE object, the
stream ending at the position (appending) or already holding foreign bytes behind it (overwriting) - and read back from the same position
through a drawn entry point (T.read(stream), T(stream), cs.read('T', stream)).

Family (h2) NESTED: the same aligned structures N (static ones) as a member `N n` or an array `N n[2..3]` of an outer structure that is
loaded packed (mixed alignment modes) or aligned, behind a drawn prefix of plain members (0..5 bytes: the member starts at an aligned or a
misaligned offset) and followed by a plain member, by the outer structure's own bit-fields, or by nothing; N and the outer structure
compiled / interpreted independently; the outer value is built through the API, dumped with dumps() or written at a drawn stream position
0..9 (v.write / T.write), and read back from the same position.

Oracle (the property; the prescribed bytes come from this module's own layout + bit composition, not from the library):
  * the write succeeds, leaves the bytes in front of the start position and behind the end position untouched;
  * the bytes of every storage unit - at start + the unit's layout offset - hold the fields in endian-defined order (little endian: first
    field in the least significant bits; big endian: most significant), every plain member stands at its layout offset, every other byte
    up to the end position is zero; at a start position that is a multiple of the structure's alignment the written length is the
    declared size (at other positions the TAIL padding goes by the absolute position: not a statement of C06, no claim);
  * reading the written bytes back from the same position returns the same values, every bit-field an int (an enum member for enum
    storage) in [0, 2^bits); reading random bytes at a position returns this module's own slices of the units;
  * structures with a dynamic member at a position that is not a multiple of the alignment: members behind the dynamic one are placed by
    the absolute position - the round trip (same position) is checked, the byte image only at multiples of the alignment.
Correspondence: reads of interpreted static top-level structures at stream positions that are multiples of the alignment go to the Lean
model (`read` with a position).

Known-finding territory (classified by signature, counted in known_seen / the feature histogram, never skipped):
  F43 (mixed alignment modes / aligned structure at a misaligned position; "the writer also [aligns] its bit-field units ... by the absolute
  stream position"; listed in known_findings.json for C01/C02/C04/C09 - it is not in C06's list, so this module looks it up itself):
    (i)  a case in which a storage unit of alignment > 1 that starts at a misaligned ABSOLUTE position is continued by a field DECLARED WITH
         AN ENUM / FLAG TYPE: the writer takes the enum type for a different storage type than the pending unit's base type, pads in front
         of the pending unit, and the unit lands at the wrong offset (unmodified library; plain storage types do not pad);
    (ii) members that lie BEHIND an aligned structure (member or array element) that stands at a misaligned absolute position and whose
         tail alignment by the absolute position does not end at its declared end (later array elements, the members behind the array /
         an overshooting member): reader, writer and layout disagree where they are.  The misplaced structure's own units and values, and
         everything in front of it, are checked strictly.
  F23 territory (24 / 48 bit storage types in aligned mode) is not generated here (the families (a), (b), (g) classify it).
"""
from __future__ import annotations

import io
import tempfile
from enum import Enum

from . import common, defs, impl
from .structprops import load as sp_load

# spelling -> (base type, size = alignment, signed, enum storage)   [this module's own table; checked against the library in `check_types`]
TYPES = {
    "uint8": ("uint8", 1, False, False), "int8": ("int8", 1, True, False), "char": ("char", 1, False, False), "BYTE": ("uint8", 1, False, False),
    "u1": ("uint8", 1, False, False), "signed char": ("int8", 1, True, False), "E8": ("uint8", 1, False, True),
    "uint16": ("uint16", 2, False, False), "int16": ("int16", 2, True, False), "WORD": ("uint16", 2, False, False), "short": ("int16", 2, True, False),
    "u2": ("uint16", 2, False, False), "F16": ("uint16", 2, False, True),
    "uint32": ("uint32", 4, False, False), "int32": ("int32", 4, True, False), "DWORD": ("uint32", 4, False, False),
    "unsigned int": ("uint32", 4, False, False), "__u32": ("uint32", 4, False, False), "E32": ("int32", 4, True, True),
    "uint64": ("uint64", 8, False, False), "int64": ("int64", 8, True, False), "QWORD": ("uint64", 8, False, False),
    "long long": ("int64", 8, True, False), "uint64_t": ("uint64", 8, False, False),
}
WIDE = [t for t, v in TYPES.items() if v[1] > 1]
WIDE_PLAIN = [t for t in WIDE if not TYPES[t][3]]
BYTE = [t for t, v in TYPES.items() if v[1] == 1]
PLAIN = ["uint8", "uint8", "uint16", "uint32", "int16", "uint64", "int8", "WORD"]
SAME_BASE = {}
for _t, _v in TYPES.items():
    SAME_BASE.setdefault(_v[0], []).append(_t)

WFORMS = ["v.write(BytesIO)", "T.write(BytesIO, v)", "v.write(file)", "T.write(file, v)"]
RFORMS = ["T.read(stream)", "T(stream)", "cs.read('T', stream)"]
FILL = 0xEE


def up(x, a):
    return x + (-x & (a - 1))


# ------------------------------------------------------------------------------------------------ reference: layout, composition, slicing

def layout(members, values, p=0, aligned=True):
    """this module's own layout of a structure (start position p matters only behind a dynamic member of an aligned structure)"""
    off, A, dyn, unit, units, places = 0, 1, False, None, [], []
    for i, m in enumerate(members):
        if m["kind"] == "cstr":
            unit = None
            n = len(values[i]) + 1
            places.append((i, off, n))
            off += n
            dyn = True
            continue
        base, size, _signed, is_enum = TYPES[m["st"]]
        a = size if aligned else 1
        A = max(A, a)
        if m["kind"] == "bit":
            if unit is None or unit["base"] != base or unit["left"] == 0:
                off = (up(p + off, a) - p) if dyn else up(off, a)
                unit = {"base": base, "start": off, "size": size, "left": size * 8, "fields": [], "enumcont": False}
                units.append(unit)
                off += size
            elif is_enum and size > 1:
                unit["enumcont"] = True
            if m["bits"] > unit["left"]:
                raise ValueError("straddle")
            unit["fields"].append((i, size * 8 - unit["left"], m["bits"]))
            unit["left"] -= m["bits"]
        else:
            unit = None
            off = (up(p + off, a) - p) if dyn else up(off, a)
            places.append((i, off, size))
            off += size
    return {"units": units, "places": places, "data_end": off, "align": A, "size": None if dyn else up(off, A), "dynamic": dyn}


def image(members, values, lay, endian):
    """the bytes [0, data_end) of the structure: units composed in endian-defined order, plain members, zero elsewhere"""
    order = "little" if endian == "<" else "big"
    buf = bytearray(lay["data_end"])
    for u in lay["units"]:
        word = 0
        for i, used, bits in u["fields"]:
            word |= values[i] << (used if endian == "<" else u["size"] * 8 - used - bits)
        buf[u["start"]:u["start"] + u["size"]] = word.to_bytes(u["size"], order)
    for i, off, size in lay["places"]:
        m = members[i]
        if m["kind"] == "cstr":
            buf[off:off + size] = values[i] + b"\0"
        else:
            buf[off:off + size] = values[i].to_bytes(size, order, signed=TYPES[m["st"]][2])
    return bytes(buf)


def slices(members, lay, data, endian):
    """the values a static structure's bytes hold (inverse of `image`)"""
    order = "little" if endian == "<" else "big"
    out = [None] * len(members)
    for u in lay["units"]:
        word = int.from_bytes(data[u["start"]:u["start"] + u["size"]], order)
        for i, used, bits in u["fields"]:
            out[i] = (word >> (used if endian == "<" else u["size"] * 8 - used - bits)) & ((1 << bits) - 1)
    for i, off, size in lay["places"]:
        out[i] = int.from_bytes(data[off:off + size], order, signed=TYPES[members[i]["st"]][2])
    return out


def enum_pad(lay, start):
    """F43 (i): a unit of alignment > 1 at a misaligned absolute position that is continued by a field declared with an enum type"""
    return any(u["enumcont"] and (start + u["start"]) % u["size"] for u in lay["units"])


# ------------------------------------------------------------------------------------------------ generator

def gen_members(rnd, dynamic_ok=True):
    members, n = [], 0
    if rnd.random() < 0.3:
        members.append({"name": f"m{n}", "kind": "plain", "st": rnd.choice(["uint8", "uint8", "uint16", "int8"]), "bits": None})
        n += 1
    for _run in range(rnd.randint(1, 3)):
        k = rnd.random()
        if k < 0.08 and dynamic_ok and not any(m["kind"] == "cstr" for m in members):
            members.append({"name": f"m{n}", "kind": "cstr", "st": "char", "bits": None})
            n += 1
        if k < 0.8 or not any(m["bits"] for m in members):
            st = rnd.choice(WIDE_PLAIN if rnd.random() < 0.6 else (WIDE if rnd.random() < 0.75 else BYTE))
            left = TYPES[st][1] * 8
            for j in range(rnd.randint(2, 5)):
                if not left:
                    if rnd.random() < 0.5:
                        left = TYPES[st][1] * 8  # exhausted unit: the next field of the same type starts a new unit
                    else:
                        break
                elif j and rnd.random() < 0.15:
                    st = rnd.choice(SAME_BASE[TYPES[st][0]])  # an alias / the enum over the same storage type continues the unit
                b = rnd.randint(1, min(left, rnd.choice([3, 8, 17, 64])))
                members.append({"name": f"m{n}", "kind": "bit", "st": st, "bits": b})
                n += 1
                left -= b
        else:
            members.append({"name": f"m{n}", "kind": "plain", "st": rnd.choice(PLAIN), "bits": None})
            n += 1
    return members


def gen_values(rnd, members, mode):
    out = []
    for m in members:
        if m["kind"] == "cstr":
            out.append(bytes(rnd.randint(1, 255) for _ in range(rnd.randint(0, 4))))
        elif m["kind"] == "bit":
            top = (1 << m["bits"]) - 1
            out.append(top if mode == "ones" else rnd.choice([0, 1, top, top >> 1, rnd.randint(0, top), rnd.randint(0, top)]))
        else:
            _b, size, signed, _e = TYPES[m["st"]]
            lo, hi = (-(1 << (size * 8 - 1)), (1 << (size * 8 - 1)) - 1) if signed else (0, (1 << (size * 8)) - 1)
            out.append(hi if mode == "ones" else rnd.randint(lo, hi))
    return out


def tree_of(members):
    fields = []
    for m in members:
        if m["kind"] == "cstr":
            ty = ("arr", ("sc", "char"), ("null",))
        else:
            ty = ("enum", m["st"]) if m["st"] in defs.ENUMS else ("sc", m["st"])
        fields.append({"name": m["name"], "ty": ty, "bits": m["bits"]})
    return ("struct", fields)


def render(name, members):
    body = " ".join(f"{m['st']} {m['name']}" + ("[]" if m["kind"] == "cstr" else "") + (f" : {m['bits']}" if m["bits"] else "") + ";" for m in members)
    return f"struct {name} {{ {body} }};"


# ------------------------------------------------------------------------------------------------ driving the library

def jvals(values):
    return [{"hex": v.hex()} if isinstance(v, bytes) else v for v in values]


def pvals(values):
    return [bytes.fromhex(v["hex"]) if isinstance(v, dict) else v for v in values]


def build(cs, T, members, values):
    kw = {}
    for m, v in zip(members, values):
        kw[m["name"]] = getattr(cs, m["st"])(v) if m["kind"] != "cstr" and TYPES[m["st"]][3] else v
    return T(**kw)


def observe(obj, members):
    """-> (values as plain Python, complaints about the bit-field value classes / ranges)"""
    out, bad = [], []
    for m in members:
        v = getattr(obj, m["name"])
        if m["kind"] == "cstr":
            out.append(bytes(v))
            continue
        if TYPES[m["st"]][3] and m["kind"] == "bit":
            if not isinstance(v, Enum):
                bad.append(f"bit-field {m['name']} ({m['st']} : {m['bits']}) is {v!r}, not a member of the enum")
            else:
                v = v.value
        elif isinstance(v, Enum):
            v = v.value
        if m["kind"] == "bit" and (isinstance(v, bool) or not isinstance(v, int) or not 0 <= v < (1 << m["bits"])):
            bad.append(f"bit-field {m['name']} : {m['bits']} has value {v!r}")
        out.append(int(v) if isinstance(v, int) else v)
    return out, bad


class Streams:
    """BytesIO or one real file object (truncated and refilled per use)"""

    def __init__(self):
        self.file = None

    def make(self, real, content, pos):
        if real:
            if self.file is None:
                self.file = tempfile.TemporaryFile(prefix="c06pos-")
            s = self.file
            s.seek(0)
            s.truncate(0)
            s.write(content)
        else:
            s = io.BytesIO(content)
        s.seek(pos)
        return s

    @staticmethod
    def content(s):
        if isinstance(s, io.BytesIO):
            return s.getvalue()
        s.flush()
        s.seek(0)
        return s.read()

    def close(self):
        if self.file is not None:
            self.file.close()
            self.file = None


def do_write(T, obj, s, wform):
    return obj.write(s) if wform.startswith("v.") else T.write(s, obj)


def do_read(cs, T, name, s, rform):
    if rform == "T.read(stream)":
        return T.read(s)
    if rform == "T(stream)":
        return T(s)
    return cs.read(name, s)


class Reporter:
    """eng.report + the classification of F43 (not in C06's list of known_findings.json: looked up in the whole file)"""

    def __init__(self, eng, res, strict=False):
        self.eng, self.res = eng, res
        try:
            self.f43 = (not strict) and any(f["id"] == "F43" for f in common.load_findings()["findings"])
        except Exception:  # noqa: BLE001
            self.f43 = False

    def report(self, what, cd, sigs):
        if "F43" in sigs and self.f43:
            self.res.known_seen["F43"] = self.res.known_seen.get("F43", 0) + 1
            self.res.feat("aligned-pos:classified under known finding F43")
            return
        self.eng.report(what, cd, [s for s in sigs if s != "F43"])


def exc(e):
    return f"{type(e).__name__}: {str(e)[:120]}"


# ------------------------------------------------------------------------------------------------ (h1) top level

def top_case(spec):
    d = {k: spec[k] for k in ("endian", "compiled", "p", "wform", "rform", "overwrite", "origin")}
    d["definition"] = render("T", spec["members"])
    d["align"] = True
    d["values"] = str(spec["values"])[:300]
    d["alignedpos"] = {"kind": "top", **spec}
    real = "file" in spec["wform"]
    tail = "bytes(12)" if spec["overwrite"] else "b''"
    d["repro"] = (f"import io; from dissect.cstruct import cstruct; cs = cstruct(endian={spec['endian']!r}); cs.load({defs.PREAMBLE!r}); "
                  f"cs.load({d['definition']!r}, compiled={spec['compiled']}, align=True); T = cs.T\n"
                  f"# v = T(**values) with the values {d['values']} (enum storage: cs.<enum>(value)); "
                  f"s = {'a real file' if real else 'io.BytesIO'} holding {spec['p']} bytes 0xee + {tail}, s.seek({spec['p']}); {spec['wform']}; "
                  f"s.seek({spec['p']}); {spec['rform']}")
    return d


def check_top(eng, res, rep, streams, L, spec):
    """one value of one aligned structure written at one stream position and read back -> number of complaints"""
    members, endian, p = spec["members"], spec["endian"], spec["p"]
    values = pvals(spec["values"])
    cs, T = L.cs, L.T
    cd = top_case(spec)
    n0 = len(res.violations) + sum(res.known_seen.values())
    lay = layout(members, values, p)
    sigs = ["F43"] if enum_pad(lay, p) else []
    if sigs:
        res.feat("aligned-pos:top:F43 territory (enum-typed field continues a unit at a misaligned position)")
    try:
        obj = build(cs, T, members, values)
    except Exception as e:  # noqa: BLE001
        rep.report(f"T(**values) raises {exc(e)} for values that fit their fields", cd, [])
        return 1
    pre = bytes([FILL]) * p
    post = bytes([FILL ^ 0xFF, 0x5A] * 20) if spec["overwrite"] else b""
    s = streams.make("file" in spec["wform"], pre + post, p)
    try:
        do_write(T, obj, s, spec["wform"])
        end = s.tell()
        out = streams.content(s)
    except Exception as e:  # noqa: BLE001
        rep.report(f"{spec['wform']} at stream position {p} raises {exc(e)}", cd, sigs)
        return 1
    cd["written"] = out.hex()
    misaligned = p % lay["align"] != 0
    img = image(members, values, lay, endian)
    want_to = p + lay["data_end"]
    problems = []
    if out[:p] != pre:
        problems.append(f"the {p} bytes in front of the start position were changed to {out[:p].hex()}")
    if end < want_to or len(out) < want_to:
        problems.append(f"the stream ends at {end} (content {len(out)} bytes), the last member ends at {want_to}")
    elif not (lay["dynamic"] and misaligned):
        if out[p:want_to] != img:
            problems.append(f"the bytes at [{p}, {want_to}) are {out[p:want_to].hex()}; the storage units composed in endian-defined order at "
                            f"their layout offsets (units at {[u['start'] for u in lay['units']]}) give {img.hex()}")
        elif any(out[want_to:end]):
            problems.append(f"padding behind the last member is not zero: {out[want_to:end].hex()}")
        if not misaligned and not lay["dynamic"] and end - p != lay["size"]:
            problems.append(f"{end - p} bytes were written at the aligned position {p}; the declared size is {lay['size']}")
    if not problems and out[end:] != (pre + post)[end:]:
        problems.append(f"bytes behind the end position {end} were changed: {out[end:].hex()} (were {(pre + post)[end:].hex()})")
    for pr in problems[:1]:
        rep.report(f"{spec['wform']} at stream position {p}: {pr}", cd, sigs)
    # reading the written bytes back from the same position
    try:
        s.seek(p)
        back = do_read(cs, T, "T", s, spec["rform"])
        got, bad = observe(back, members)
    except Exception as e:  # noqa: BLE001
        rep.report(f"{spec['rform']} at position {p} of the written stream raises {exc(e)} (written {out[p:].hex()})", cd, sigs)
        return len(res.violations) + sum(res.known_seen.values()) - n0
    for b in bad[:1]:
        rep.report(f"read back at position {p}: {b}", cd, sigs)
    if got != values:
        rep.report(f"writing is not the inverse of reading: {spec['wform']} at position {p} wrote {out[p:].hex()}, {spec['rform']} from the same "
                   f"position returns {str(got)[:200]}, written were {str(values)[:200]}", cd, sigs)
    return len(res.violations) + sum(res.known_seen.values()) - n0


def check_top_read(eng, res, rep, L, spec, model):
    """random bytes read at a stream position: the values are this module's slices of the units -> the values, or None"""
    members, endian, p = spec["members"], spec["endian"], spec["rp"]
    data = bytes.fromhex(spec["data"])
    cs, T = L.cs, L.T
    lay = layout(members, [None] * len(members), p)
    cd = top_case({**spec, "p": p, "values": [], "wform": "-", "overwrite": False})
    cd["data"] = spec["data"]
    cd["repro"] += f"\n# reading: s = io.BytesIO(bytes([0xee]) * {p} + bytes.fromhex({spec['data']!r})); s.seek({p}); {spec['rform']}"
    want = slices(members, lay, data, endian)
    s = io.BytesIO(bytes([FILL]) * p + data)
    s.seek(p)
    try:
        obj = do_read(cs, T, "T", s, spec["rform"])
        end = s.tell()
        got, bad = observe(obj, members)
    except Exception as e:  # noqa: BLE001
        rep.report(f"{spec['rform']} at stream position {p} raises {exc(e)} on {len(data)} bytes for a structure of {lay['size']}", cd, [])
        return None
    for b in bad[:1]:
        rep.report(f"read at position {p}: {b}", cd, [])
    if got != want:
        rep.report(f"{spec['rform']} at stream position {p} parses {str(got)[:200]}; slicing the storage units at their layout offsets gives "
                   f"{str(want)[:200]}", cd, [])
        return None
    if end - p < lay["data_end"]:
        rep.report(f"{spec['rform']} at stream position {p} leaves the stream at {end}, in front of the end of the last member", cd, [])
    if model and p % lay["align"] == 0 and not L.compiled:
        sizes = sorted((k, v) for k, v in getattr(obj, "_sizes", {}).items() if v)
        eng.model_read(L, bytes([FILL]) * p + data, p, ("ok", impl.canon(obj), end, sizes), f"aligned bit-field structure read at stream position {p}")
    return want


def check_types(eng, res, cs):
    """this module's type table against the library (a mutated library must not trip the harness later)"""
    for t, (_b, size, _s, _e) in TYPES.items():
        try:
            ty = cs.resolve(t)
            if ty.size != size or ty.alignment != size:
                eng.report(f"type {t}: size {ty.size} alignment {ty.alignment}, expected {size}", {"type": t}, [])
        except Exception as e:  # noqa: BLE001
            eng.report(f"type {t} cannot be resolved: {exc(e)}", {"type": t}, [])


def run_top(env, eng, res, rep, rnd, streams):
    quick = env["tier"] == "quick"
    checked_types = False
    for _ in range(70 if quick else 1200):
        for _try in range(50):
            members = gen_members(rnd)
            try:
                layout(members, gen_values(rnd, members, "ones"))
                break
            except ValueError:
                continue
        else:
            continue
        tree = tree_of(members)
        nbits = sum(1 for m in members if m["bits"])
        static = not any(m["kind"] == "cstr" for m in members)
        for endian, compiled in (rnd.sample([(e, c) for e in "<>" for c in (False, True)], 2) if quick else [(e, c) for e in "<>" for c in (False, True)]):
            L, err = sp_load(tree, endian=endian, align=True, compiled=compiled)
            base = {"members": members, "endian": endian, "compiled": compiled}
            if L is None:
                eng.report(f"an aligned bit-field definition whose fields fit their units is rejected: {exc(err)}",
                           {"definition": render("T", members), "endian": endian, "compiled": compiled, "align": True}, [])
                continue
            if not checked_types:
                check_types(eng, res, L.cs)
                checked_types = True
            really = "compiled" if getattr(L.T, "__compiled__", False) else "interpreted"
            valsets = [("built", gen_values(rnd, members, "ones")), ("built", gen_values(rnd, members, "drawn"))]
            if static:
                size = layout(members, [None] * len(members))["size"]
                for _k in range(1 if quick else 3):
                    spec = {**base, "origin": "parsed", "rp": rnd.randint(0, 9), "rform": rnd.choice(RFORMS),
                            "data": bytes(rnd.randrange(256) for _ in range(size + 4)).hex()}
                    res.count(("alignedpos-read", render("T", members), endian, compiled, spec["rp"], spec["rform"], spec["data"]), nbits >= 2)
                    res.feat(f"aligned-pos:top:read at position {spec['rp']}")
                    res.feat(f"aligned-pos:top:read:{spec['rform']}:{really}")
                    got = check_top_read(eng, res, rep, L, spec, model=True)
                    if got is not None:
                        valsets.append(("parsed", got))
            complaints = 0
            for origin, values in valsets:
                for p in range(10):
                    if complaints >= 3:
                        break
                    spec = {**base, "origin": origin, "values": jvals(values), "p": p, "wform": rnd.choice(WFORMS if rnd.random() < 0.3 else WFORMS[:2]),
                            "rform": rnd.choice(RFORMS), "overwrite": rnd.random() < 0.4}
                    res.count(("alignedpos-top", render("T", members), endian, compiled, repr(values), p, spec["wform"], spec["rform"], spec["overwrite"]), nbits >= 2)
                    res.feat(f"aligned-pos:top:write at position {p}")
                    res.feat(f"aligned-pos:top:{spec['wform']}:{really}")
                    res.feat("aligned-pos:top:" + ("static" if static else "dynamic member") + f":value {origin}")
                    complaints += check_top(eng, res, rep, streams, L, spec)
        if len(eng.lines) > 5000:
            eng.flush()


# ------------------------------------------------------------------------------------------------ (h2) nested

def outer_layout(spec, lay_n):
    """layout of the outer structure: [(name, kind, offset, size)] in declaration order, its alignment, the end of the last member"""
    oa = spec["outer_align"]
    off, A, out, unit_left = 0, 1, [], 0
    for name, st in spec["prefix"]:
        size = TYPES[st][1]
        a = size if oa else 1
        A = max(A, a)
        off = up(off, a)
        out.append((name, "plain", off, size, st))
        off += size
    a = lay_n["align"] if oa else 1
    A = max(A, a)
    off = up(off, a)
    out.append(("n", "nested", off, lay_n["size"] * (spec["count"] or 1), None))
    off += lay_n["size"] * (spec["count"] or 1)
    for name, st, bits in spec["trailer"]:
        size = TYPES[st][1]
        a = size if oa else 1
        A = max(A, a)
        if bits:
            if unit_left and bits <= unit_left:
                out.append((name, "bitcont", None, size, st))
            else:
                off = up(off, a)
                out.append((name, "bit", off, size, st))
                off += size
                unit_left = size * 8
            unit_left -= bits
        else:
            unit_left = 0
            off = up(off, a)
            out.append((name, "plain", off, size, st))
            off += size
    return out, A, off


def nested_case(spec):
    d = {k: spec[k] for k in ("endian", "compiled_n", "compiled_t", "outer_align", "p", "wform", "rform", "count")}
    d["definition"] = render("N", spec["members"]) + "  /  " + outer_text(spec)
    d["values"] = str(spec["nvalues"])[:300]
    d["alignedpos"] = {"kind": "nested", **spec}
    d["repro"] = (f"import io; from dissect.cstruct import cstruct; cs = cstruct(endian={spec['endian']!r}); cs.load({defs.PREAMBLE!r}); "
                  f"cs.load({render('N', spec['members'])!r}, compiled={spec['compiled_n']}, align=True); "
                  f"cs.load({outer_text(spec)!r}, compiled={spec['compiled_t']}, align={spec['outer_align']}); T = cs.T\n"
                  f"# v = T(prefix = {spec['pvalues']}, n = N(**values) per element with {d['values']}, trailer = {spec['tvalues']}); {spec['wform']} "
                  f"at stream position {spec['p']}; {spec['rform']} from the same position")
    return d


def outer_text(spec):
    body = " ".join(f"{st} {name};" for name, st in spec["prefix"])
    body += " N n" + (f"[{spec['count']}]" if spec["count"] else "") + ";"
    body += "".join(f" {st} {name}" + (f" : {bits}" if bits else "") + ";" for name, st, bits in spec["trailer"])
    return f"struct T {{ {body} }};"


def check_nested(eng, res, rep, spec, cache):
    members, endian, p = spec["members"], spec["endian"], spec["p"]
    cd = nested_case(spec)
    key = (render("N", members), outer_text(spec), endian, spec["compiled_n"], spec["compiled_t"], spec["outer_align"])
    if key not in cache:
        cache.clear()
        try:
            cs = impl.dc().cstruct(endian=endian)
            cs.load(defs.PREAMBLE)
            cs.load(render("N", members), compiled=spec["compiled_n"], align=True)
            cs.load(outer_text(spec), compiled=spec["compiled_t"], align=spec["outer_align"])
            cache[key] = (cs, cs.N, cs.T)
        except Exception as e:  # noqa: BLE001
            cache[key] = None
            rep.report(f"the definitions are rejected: {exc(e)}", cd, [])
    if cache[key] is None:
        return
    cs, N, T = cache[key]
    nvalues = [pvals(v) for v in spec["nvalues"]]
    lay_n = layout(members, nvalues[0])
    olay, oalign, oend = outer_layout(spec, lay_n)
    order = "little" if endian == "<" else "big"
    # the value through the API
    try:
        elems = [build(cs, N, members, v) for v in nvalues]
        kw = {name: v for (name, _st), v in zip(spec["prefix"], spec["pvalues"])}
        kw["n"] = elems if spec["count"] else elems[0]
        kw.update({name: v for (name, _st, _b), v in zip(spec["trailer"], spec["tvalues"])})
        obj = T(**kw)
    except Exception as e:  # noqa: BLE001
        rep.report(f"building the value through the API raises {exc(e)}", cd, [])
        return
    s = io.BytesIO(bytes([FILL]) * p)
    s.seek(p)
    try:
        if spec["wform"] == "v.dumps()":
            out = bytes([FILL]) * p + obj.dumps()  # (p is 0 for this form)
        else:
            do_write(T, obj, s, spec["wform"])
            out = s.getvalue()
    except Exception as e:  # noqa: BLE001
        rep.report(f"{spec['wform']} at stream position {p} raises {exc(e)}", cd, [])
        return
    cd["written"] = out.hex()
    # regions in declaration order; `taint`: something in front is a misplaced aligned structure that did not end at its declared end
    taint, regions = [], []
    n_off = next(o for (nm, k, o, _s, _t) in olay if k == "nested")
    a0 = p + n_off
    chain = a0  # where the absolute-position rule (F43) lets the next element start; None once that differs from the layout
    for i, v in enumerate(nvalues):
        want_at = a0 + i * lay_n["size"]
        if chain != want_at or enum_pad(lay_n, want_at):
            taint = ["F43"]
        regions.append((f"n[{i}]" if spec["count"] else "n", want_at, image(members, v, lay_n, endian), list(taint), i))
        chain = up(want_at + lay_n["data_end"], lay_n["align"]) if chain == want_at else None
    if chain is None or chain > a0 + len(nvalues) * lay_n["size"]:
        taint = ["F43"]  # the last element's tail alignment ran past the declared end of the member
    if taint:
        res.feat("aligned-pos:nested:F43 territory behind a misplaced aligned structure")
    # prefix and trailer
    word, wsize, woff = 0, 0, None
    tvals = dict(zip([t[0] for t in spec["trailer"]], spec["tvalues"]))
    used = 0
    timg = {}
    for name, kind, off, size, st in olay:
        if kind == "plain" and name in dict(spec["prefix"]):
            v = spec["pvalues"][[q[0] for q in spec["prefix"]].index(name)]
            regions.append((name, p + off, v.to_bytes(size, order, signed=TYPES[st][2]), [], None))
        elif kind == "plain":
            regions.append((name, p + off, tvals[name].to_bytes(size, order, signed=TYPES[st][2]), list(taint), None))
        elif kind in ("bit", "bitcont"):
            bits = next(b for (nm, _s, b) in spec["trailer"] if nm == name)
            if kind == "bit":
                word, used, woff, wsize = 0, 0, off, size
            word |= tvals[name] << (used if endian == "<" else wsize * 8 - used - bits)
            used += bits
            timg[woff] = (name, word, wsize)
    for woff, (name, word, wsize) in timg.items():
        regions.append((f"unit of {name}", p + woff, word.to_bytes(wsize, order), list(taint), None))
    if out[:p] != bytes([FILL]) * p:
        rep.report(f"{spec['wform']} at position {p}: the bytes in front of the start position were changed", cd, [])
    for name, at, want, sg, _i in regions:
        got = out[at:at + len(want)]
        if got != want:
            rep.report(f"{spec['wform']} at stream position {p}: member {name} at absolute position {at}: bytes {got.hex()}, the storage units composed in "
                       f"endian-defined order at their layout offsets give {want.hex()} (whole output {out[p:].hex()})", cd, sg)
            if not sg:
                break
    # read back from the same position
    try:
        if spec["rform"] == "T(bytes)":
            back = T(out[p:]) if p == 0 else T.read(io.BytesIO(out[p:]))
        else:
            s2 = io.BytesIO(out)
            s2.seek(p)
            back = do_read(cs, T, "T", s2, spec["rform"])
        bel = back.n if spec["count"] else [back.n]
        if len(bel) != len(nvalues):
            raise ValueError(f"{len(bel)} elements read back")
    except Exception as e:  # noqa: BLE001
        rep.report(f"{spec['rform']} of the written bytes {out[p:].hex()} at position {p} raises {exc(e)}", cd, ["F43"] if taint else [])
        return
    for (name, _at, _want, sg, i) in regions:
        try:
            if i is not None:
                got, bad = observe(bel[i], members)
                want = nvalues[i]
            elif name.startswith("unit of "):
                continue
            else:
                got, bad, want = getattr(back, name), [], (dict(zip([q[0] for q in spec["prefix"]], spec["pvalues"])) | tvals)[name]
                got = int(got)
        except Exception as e:  # noqa: BLE001
            rep.report(f"member {name} of the value read back cannot be inspected: {exc(e)}", cd, sg)
            continue
        for b in bad[:1]:
            rep.report(f"read back, member {name}: {b}", cd, sg)
        if got != want:
            rep.report(f"writing is not the inverse of reading: {spec['wform']} at position {p} wrote {out[p:].hex()}; {spec['rform']} from the same position "
                       f"returns {name} = {str(got)[:160]}, written was {str(want)[:160]}", cd, sg)
            if not sg:
                break
    for name, _st, bits in spec["trailer"]:
        if bits:
            try:
                got = int(getattr(back, name))
            except Exception as e:  # noqa: BLE001
                rep.report(f"bit-field {name} of the value read back cannot be inspected: {exc(e)}", cd, list(taint))
                continue
            if got != tvals[name]:
                rep.report(f"writing is not the inverse of reading: outer bit-field {name} : {bits} reads back as {got}, written was {tvals[name]} "
                           f"(output {out[p:].hex()})", cd, list(taint))
                break


def spec_misplaced(spec, lay_n, olay):
    n_off = next(o for (nm, k, o, _s, _t) in olay if k == "nested")
    return (spec["p"] + n_off) % lay_n["align"] != 0


def run_nested(env, eng, res, rep, rnd):
    quick = env["tier"] == "quick"
    cache = {}
    for _ in range(90 if quick else 1500):
        for _try in range(50):
            members = gen_members(rnd, dynamic_ok=False)
            try:
                lay_n = layout(members, gen_values(rnd, members, "ones"))
                break
            except ValueError:
                continue
        else:
            continue
        nbits = sum(1 for m in members if m["bits"])
        for _cfg in range(2 if quick else 4):
            prefix = []
            for j in range(rnd.choice([0, 1, 1, 1, 2, 3])):
                prefix.append((f"p{j}", rnd.choice(["uint8", "uint8", "uint8", "uint16", "int8", "uint32"])))
            tk = rnd.random()
            if tk < 0.4:
                trailer = [("q", rnd.choice(["uint16", "uint8", "uint32", "int16"]), None)]
            elif tk < 0.8:
                st = rnd.choice(["uint16", "uint32", "uint8", "int16"])
                w = TYPES[st][1] * 8
                a = rnd.randint(1, w - 1)
                trailer = [("x", st, a), ("y", st, rnd.randint(1, w - a))]
            else:
                trailer = []
            count = rnd.choice([0, 0, 2, 3])
            spec0 = {"members": members, "endian": rnd.choice("<>"), "compiled_n": rnd.random() < 0.5, "compiled_t": rnd.random() < 0.5,
                     "outer_align": rnd.random() < 0.3, "prefix": prefix, "trailer": trailer, "count": count}
            for _v in range(2):
                nvalues = [jvals(gen_values(rnd, members, rnd.choice(["ones", "drawn", "drawn"]))) for _ in range(count or 1)]
                pvalues = [gen_values(rnd, [{"kind": "plain", "st": st, "bits": None}], "drawn")[0] for _n, st in prefix]
                tvalues = [gen_values(rnd, [{"kind": "bit" if b else "plain", "st": st, "bits": b}], rnd.choice(["ones", "drawn"]))[0] for _n, st, b in trailer]
                for wform in (["v.dumps()"] + [rnd.choice(WFORMS[:2]) for _ in range(2 if quick else 4)]):
                    p = 0 if wform == "v.dumps()" else rnd.randint(0, 9)
                    rform = rnd.choice(RFORMS + (["T(bytes)"] if p == 0 else []))
                    spec = {**spec0, "nvalues": nvalues, "pvalues": pvalues, "tvalues": tvalues, "p": p, "wform": wform, "rform": rform}
                    res.count(("alignedpos-nested", render("N", members), outer_text(spec), spec["endian"], spec["compiled_n"], spec["compiled_t"],
                               spec["outer_align"], repr(nvalues), repr(pvalues), repr(tvalues), p, wform, rform), nbits >= 2)
                    res.feat("aligned-pos:nested:" + ("aligned" if spec["outer_align"] else "packed") + " outer:" + ("array of N" if count else "member N"))
                    res.feat(f"aligned-pos:nested:{wform}")
                    olay, _oa, _oe = outer_layout(spec, lay_n)
                    if spec_misplaced(spec, lay_n, olay):
                        res.feat("aligned-pos:nested:N starts at a misaligned absolute position")
                    check_nested(eng, res, rep, spec, cache)


# ------------------------------------------------------------------------------------------------ entry points

def run(env, eng, res, rnd):
    rep = Reporter(eng, res)
    streams = Streams()
    try:
        run_top(env, eng, res, rep, rnd, streams)
        eng.flush()
        run_nested(env, eng, res, rep, rnd)
    finally:
        streams.close()
    eng.flush()


def replay_case(case) -> int:
    """re-evaluate one recorded case of this family on the current tree -> 1 when it still fails"""
    from .common import Result
    from .structprops import Engine

    spec = dict(case["alignedpos"])
    kind = spec.pop("kind")
    res = Result()
    eng = Engine({"findings": [], "driver_ok": False, "seed": 0, "tier": "quick"}, res, "C06")
    rep = Reporter(eng, res)
    if kind == "nested":
        spec["prefix"] = [tuple(x) for x in spec["prefix"]]
        spec["trailer"] = [tuple(x) for x in spec["trailer"]]
        check_nested(eng, res, rep, spec, {})
    else:
        L, err = sp_load(tree_of(spec["members"]), endian=spec["endian"], align=True, compiled=spec["compiled"])
        if L is None:
            print("replay: the definition is rejected:", err)
            return 1
        if spec.get("origin") == "parsed" and "rp" in spec and spec.get("wform") == "-":
            check_top_read(eng, res, rep, L, spec, model=False)
        else:
            streams = Streams()
            try:
                check_top(eng, res, rep, streams, L, spec)
            finally:
                streams.close()
    for v in res.violations[:3]:
        print("replay:", v.what[:400])
    return 1 if res.violations else 0
