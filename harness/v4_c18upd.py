"""C18 probe (agent v4): the UPDATE PROTOCOL of a structure class as a state machine, with faults, against its Lean model.

Model: lean/CstructModel/Update.lean (state = `__fields__` with the offsets on the Field objects, the committed view - the field
list the class attributes were last generated from and the layout commit computed -, the `__updating__` flag; operations =
add_field, add_field raising before the append, entering a `with T.start_update():` block, leaving it normally / through an
exception, explicit commit).  Theorems: lean/Proofs/C18Update.lean (every history in which no commit raised ends consistent; the
committed list is always a prefix of `__fields__`; outside a block the layout is the one-shot layout of the final field list).

A history is a TREE that is executed with real `with` statements:

    {"k": "add", "name", "type", "bits"}        T.add_field(name, type, bits=bits); an exception (only commit can raise here: a
                                                straddled bit-field, a duplicate name) is caught on the spot
    {"k": "addfail", "how", "propagate"}        an add_field that raises BEFORE the append (type name that does not resolve, a
                                                type NAME in place of a type, None, a missing argument); caught on the spot, or
                                                (inside a block) left to propagate out of the block
    {"k": "commit"}                             T.commit(), exception caught on the spot
    {"k": "raise", "exc"}                       the caller's own code raises inside a block (Exception / BaseException)
    {"k": "block", "items", "propagate"}        with T.start_update(): <items>; an exception that leaves the block is caught behind
                                                it, or (inside an outer block) propagates on through the outer block

Blocks nest (the real code lets the inner exit clear the flag while the outer block is still open).  The tree is flattened to the
model's operations (add / addfail / enter / exitok / exitexc / commit); after EVERY operation the real class is observed -
parameter names of the generated `__init__`, keys of `lookup` and `fields`, `size`, `alignment`, names and offsets of
`__fields__`, `__updating__`, whether the call let an exception escape from commit - and compared with the model's state after
that operation (a difference is a `corr` disagreement).

Independently of the model the PROPERTY is evaluated on the real class whenever the history stands outside every block and no
commit has raised so far: the class must behave like the one-shot declaration of the fields added so far (field list = the fields
added, in order; layout and compiled flag equal; `T(**kwargs)` accepts every field and dumps like the one-shot class; parsing the
dump gives an equal object; `==` / `!=` / `hash` tell apart two objects that differ only in the last-added field).  At the end of
the history the full comparison of harness/props/c18.py (reader signature, reads away from 0, instance behaviour) is run too.
A difference is a `property` violation with the history as the replay.
"""
from __future__ import annotations

import inspect
import itertools
import random

from . import impl
from .common import A, Case, parse_sexp, run_driver, sx
from .structprops import rand_bytes


class Abort(BaseException):
    """what a caller's own code may raise inside a block (not an Exception: e.g. a cancellation)"""


ADD_FAULTS = ("resolve", "type-name", "none-type", "missing-argument")
EXPECTED = {"resolve": "ResolveError", "type-name": "AttributeError", "none-type": "AttributeError", "missing-argument": "TypeError"}


# ------------------------------------------------------------------------------------------------ generation

def gen_history(rnd, specs, commit_faults: bool):
    """-> items of the top level.  `specs`: (name, type description, bits, None) as props/c18.field_specs makes them"""
    todo = [{"k": "add", "name": nm, "type": sp, "bits": b} for nm, sp, b, _ in specs]
    used: list[str] = []
    extra = itertools.count()

    def items(depth):
        out = []
        for _ in range(rnd.randint(0, 4) if depth else rnd.randint(2, 7)):
            r = rnd.random()
            if r < 0.46 and todo:
                it = todo.pop(0)
                used.append(it["name"])
                out.append(it)
            elif r < 0.51 and commit_faults and used:
                if rnd.random() < 0.5:
                    # a name that is taken: commit raises after the append
                    out.append({"k": "add", "name": rnd.choice(used), "type": ("sc", rnd.choice(["uint8", "uint16"])), "bits": None})
                else:
                    # two bit-fields that do not fit one storage unit together: the commit behind the second raises
                    j = next(extra)
                    out.append({"k": "add", "name": f"s{j}a", "type": ("sc", "uint8"), "bits": 5})
                    out.append({"k": "add", "name": f"s{j}b", "type": ("sc", "uint8"), "bits": 5})
            elif r < 0.58:
                prop = depth > 0 and rnd.random() < 0.4
                out.append({"k": "addfail", "how": rnd.choice(ADD_FAULTS), "propagate": prop})
                if prop:
                    return out, True
            elif r < 0.66:
                out.append({"k": "commit"})
            elif r < 0.72:
                if depth > 0:
                    out.append({"k": "raise", "exc": rnd.choice(["exception", "base-exception"])})
                    return out, True
            elif depth < 3:
                sub, raised = items(depth + 1)
                prop = raised and depth > 0 and rnd.random() < 0.35
                out.append({"k": "block", "items": sub, "propagate": prop})
                if prop:
                    return out, True
        return out, False

    top, _ = items(0)
    # whatever is left is added at the end, one by one or in a last block
    if todo and rnd.random() < 0.7:
        rest, todo[:] = list(todo), []
        if rnd.random() < 0.5:
            top.append({"k": "block", "items": rest, "propagate": False})
        else:
            top.extend(rest)
    return top


def flatten(items, out=None):
    """the model's operations, in execution order"""
    out = [] if out is None else out
    for it in items:
        k = it["k"]
        if k == "add":
            out.append(("add", it["name"], it["type"], it["bits"]))
        elif k == "addfail":
            out.append(("addfail",))
        elif k == "commit":
            out.append(("commit",))
        elif k == "block":
            out.append(("enter",))
            flatten(it["items"], out)
            out.append(("exitexc" if body_raises(it["items"]) else "exitok",))
    return out


def body_raises(items) -> bool:
    if not items:
        return False
    last = items[-1]
    return last["k"] == "raise" or (last["k"] in ("addfail", "block") and bool(last.get("propagate")))


def ty_sexp(spec, align):
    k = spec[0]
    if k == "sc":
        return [A("sc"), spec[1]]
    if k == "enum":
        return [A("enum"), "uint8"]          # E8 is an enum over uint8
    if k == "arr":
        return [A("arr"), ty_sexp(spec[1], align), [A("fixed"), spec[2]]]
    if k == "ptr":
        return [A("ptr"), ty_sexp(spec[1], align)]
    if k == "dyn":
        return [A("arr"), [A("sc"), spec[1]], A("null")]
    if k == "nested":
        return [A("struct"), 1 if align else 0, [[A("f"), "x", 0, [A("sc"), "uint8"], 0], [A("f"), "y", 0, [A("sc"), "uint32"], 0]]]
    raise ValueError(k)


def model_line(flat, endian, align):
    ops = []
    for op in flat:
        if op[0] == "add":
            ops.append([A("add"), op[1], ty_sexp(op[2], align), op[3] if op[3] else A("none")])
        else:
            ops.append([A(op[0])])
    return sx([A("updhist"), [A("cfg"), A("le" if endian == "<" else "be"), "uint64", []], 1 if align else 0, ops])


# ------------------------------------------------------------------------------------------------ execution on the real class

def observe(T):
    params = list(inspect.signature(T.__init__).parameters)[1:]
    return {"init": params, "lookup": list(T.lookup), "fields": list(T.fields), "size": T.size, "alignment": T.alignment,
            "names": [f._name for f in T.__fields__], "offsets": [f.offset for f in T.__fields__], "updating": bool(T.__updating__),
            "compiled": bool(T.__compiled__)}


class Runner:
    """executes a history tree on a fresh empty structure; `after(op number, flat op, depth, broken)` is called behind every
    operation (depth = open `with` blocks at that moment)"""

    def __init__(self, h, cs, T, after=None):
        self.h, self.cs, self.T, self.after = h, cs, T, after
        self.obs: list[dict] = []
        self.present: list[tuple] = []      # (name, type description, bits) of the fields appended so far
        self.broken = False                 # a commit has raised
        self.depth = 0
        self.last_raised = None
        self.unexpected: list[str] = []

    def record(self, op, commit_exc):
        o = observe(self.T)
        o["op"] = op[0]
        o["commit_exc"] = type(commit_exc).__name__ if commit_exc is not None else None
        o["depth"] = self.depth
        if commit_exc is not None:
            self.broken = True
        o["broken"] = self.broken
        self.obs.append(o)
        if self.after is not None:
            self.after(len(self.obs) - 1, op, self.depth, self.broken)

    def fault(self, how):
        cs, T = self.cs, self.T
        if how == "resolve":
            T.add_field("zz", cs.resolve("no_such_type_v4"))
        elif how == "type-name":
            T.add_field("zz", "uint8")
        elif how == "none-type":
            T.add_field("zz", None)
        elif how == "missing-argument":
            T.add_field("zz")
        raise AssertionError(f"fault {how!r} did not raise")

    def run(self, items):
        T = self.T
        for it in items:
            k = it["k"]
            if k == "add":
                ty = self.h.mk_type(self.cs, it["type"])
                exc = None
                n0 = len(T.__fields__)
                try:
                    T.add_field(it["name"], ty, bits=it["bits"])
                except Exception as e:  # noqa: BLE001 - only commit raises here; compared with the model
                    exc = e
                if len(T.__fields__) > n0:
                    self.present.append((it["name"], it["type"], it["bits"]))
                self.record(("add",), exc)
            elif k == "addfail":
                try:
                    self.fault(it["how"])
                except AssertionError:
                    raise
                except Exception as e:  # noqa: BLE001
                    if type(e).__name__ != EXPECTED[it["how"]]:
                        self.unexpected.append(f"add_field fault {it['how']} raises {type(e).__name__}: {e}")
                    self.record(("addfail",), None)
                    if it["propagate"]:
                        self.last_raised = e
                        raise
            elif k == "commit":
                exc = None
                try:
                    T.commit()
                except Exception as e:  # noqa: BLE001
                    exc = e
                self.record(("commit",), exc)
            elif k == "raise":
                e = RuntimeError("the caller's code fails inside the block") if it["exc"] == "exception" else Abort("cancelled inside the block")
                self.last_raised = e
                raise e
            elif k == "block":
                exc, body_done = None, False
                try:
                    with T.start_update():
                        self.depth += 1
                        try:
                            self.record(("enter",), None)
                            self.run(it["items"])
                            body_done = True
                        finally:
                            self.depth -= 1
                except (AssertionError, KeyboardInterrupt, SystemExit):
                    raise
                except BaseException as e:  # noqa: BLE001 - the caller handles whatever left the block
                    exc = e
                if body_done:
                    self.record(("exitok",), exc)                         # only the commit in the finally can have raised
                else:
                    commit_exc = exc if exc is not self.last_raised else None
                    self.record(("exitexc",), commit_exc)
                    if it["propagate"]:
                        self.last_raised = exc
                        raise exc
            else:
                raise ValueError(k)


def make_class(h, dc, endian, align, compiled):
    from dissect.cstruct import compiler

    cs = h.fresh_cs(dc, endian, align, compiled)
    T = cs._make_struct("T", [], align=align)
    if compiled:
        T = compiler.compile(T)
    return cs, T


# ------------------------------------------------------------------------------------------------ the property on the real class

def light_diff(T, one, present, data):
    """-> None, or a text naming the first way in which T does not behave like the one-shot class"""
    names = [f._name for f in T.__fields__]
    if names != [p[0] for p in present]:
        return f"__fields__ holds {names}, the fields added so far are {[p[0] for p in present]}"
    dT = (T.size, T.alignment, T.dynamic, [(f._name, f.offset, f.bits) for f in T.__fields__], bool(T.__compiled__))
    dO = (one.size, one.alignment, one.dynamic, [(f._name, f.offset, f.bits) for f in one.__fields__], bool(one.__compiled__))
    if dT != dO:
        return f"layout / compiled flag {dT} differ from the one-shot structure's {dO}"
    if not names:
        return None
    def tryit(f):
        try:
            return f()
        except Exception as e:  # noqa: BLE001
            return "raises " + type(e).__name__ + ": " + str(e)[:80]

    def behaviour(X):
        """what the class does with the values it parses itself from the data (the nested / enum / pointer values belong to its own
        cstruct instance): keyword construction with every field, dumps, re-parse, ==, !=, hash against a change of the last field"""
        vals = []
        for d in data:
            r = impl.parse(X, d)
            vals.append({n: getattr(r[1], n) for n in names} if r[0] == "ok" else None)
        out = [("parses", [v is not None for v in vals])]
        vals = [v for v in vals if v is not None]
        if not vals:
            return out
        kw = vals[0]
        a = tryit(lambda: X(**kw))
        if isinstance(a, str):
            return out + [("T(**kwargs) with every field", a)]
        out.append(("T(**kwargs) with every field", "ok"))
        da = tryit(a.dumps)
        out.append(("T(**kwargs).dumps()", da))
        if isinstance(da, bytes):
            out.append(("parse(dumps(v)) == v", tryit(lambda: X(da) == a)))
        last = names[-1]
        for other in vals[1:] + [{last: tryit(lambda: type(kw[last])())}]:
            if isinstance(other[last], str) or tryit(lambda: other[last] == kw[last]) is not False:
                continue
            b = tryit(lambda: X(**dict(kw, **{last: other[last]})))
            if isinstance(b, str):
                out.append((f"objects that differ only in the last-added field {last!r}", b))
            else:
                out.append((f"objects that differ only in the last-added field {last!r}: (==, !=, equal hash)",
                            (tryit(lambda: a == b), tryit(lambda: a != b), tryit(lambda: hash(a) == hash(b)))))
            break
        return out

    bT, bO = behaviour(T), behaviour(one)
    for (lt, vt), (lo, vo) in zip(bT, bO):
        if (lt, vt) != (lo, vo):
            return f"{lt}: {vt!r}, the one-shot structure: {lo if lo != lt else ''} {vo!r}"
    if len(bT) != len(bO):
        return f"behaviour probes end differently: {bT[-1]!r}, the one-shot structure {bO[-1]!r}"
    for lt, vt in bT:
        if lt.startswith("objects that differ") and isinstance(vt, tuple) and vt[0] is not False:
            return f"{lt} is {vt}: a difference in the last-added field is not seen by =="
    return None


def run_case(h, dc, cd, viol=None, res=None):
    """cd: history, endian, align, compiled, data_seed.  Executes the history; evaluates the property; -> (flat ops, observations)"""
    endian, align, compiled, tree = cd["endian"], cd["align"], cd["compiled"], cd["history"]
    drnd = random.Random(cd["data_seed"])
    data = [rand_bytes(drnd, 72) for _ in range(3)]
    cs, T = make_class(h, dc, endian, align, compiled)
    flat = flatten(tree)
    state = {"reported": False}

    def oneshot(present):
        cs0 = h.fresh_cs(dc, endian, align, compiled)
        try:
            return cs0, h.build_oneshot(cs0, [(nm, sp, b, None) for nm, sp, b in present], align, compiled)
        except Exception as e:  # noqa: BLE001
            if res:
                res.feat("update-protocol:one-shot-of-present-fields-rejected:" + type(e).__name__)
            return cs0, None

    def after(no, op, depth, broken):
        if depth != 0 or broken or op[0] not in ("add", "exitok", "exitexc", "commit") or state["reported"] or viol is None:
            return
        _, one = oneshot(runner.present)
        if one is None:
            return
        if res:
            res.feat("update-protocol:property-evaluated-after:" + op[0])
        try:
            why = light_diff(T, one, runner.present, data)
        except Exception as e:  # noqa: BLE001 - e.g. an object the class parses lacks a field of __fields__
            why = f"probing the class raises {type(e).__name__}: {e}"
        if why:
            state["reported"] = True
            viol(f"structure after operation {no} ({op[0]}) of an update history, outside every block, does not behave like the one-shot "
                 f"declaration of its {len(runner.present)} field(s): {why}", dict(cd, after_op=no, ops=[o[0] for o in flat[:no + 1]]))

    runner = Runner(h, cs, T, after)
    try:
        runner.run(tree)
    except (AssertionError, KeyboardInterrupt, SystemExit):
        raise
    except BaseException as e:  # noqa: BLE001
        if viol:
            viol(f"update history raises outside the places where it catches: {type(e).__name__}: {e}", cd)
        return flat, runner.obs
    if len(runner.obs) != len(flat):
        raise AssertionError(f"history executed {len(runner.obs)} operations, flattened to {len(flat)}")
    for u in runner.unexpected:
        if viol:
            viol(u, cd)
    # the end of the history: the full comparison of props/c18.py
    if viol and not runner.broken and not state["reported"] and not T.__updating__:
        cs0, one = oneshot(runner.present)
        if one is not None:
            size = one.size if one.size is not None else 40
            inputs = [rand_bytes(drnd, size + 6) for _ in range(2)]
            prefix = bytes(drnd.randrange(1, 256) for _ in range(8))
            flips = sorted({size - 1, drnd.randrange(size)}) if size else []
            if [f._name for f in T.__fields__] != [p[0] for p in runner.present]:
                viol(f"__fields__ at the end of an update history holds {[f._name for f in T.__fields__]}, the fields added were "
                     f"{[p[0] for p in runner.present]}", cd)
            else:
                h.compare(viol, res, cd, None, h.full(cs0, one, inputs, prefix, compiled, flips), h.full(cs, T, inputs, prefix, compiled, flips),
                          compiled, inputs, prefix, who="structure at the end of an update history (nested blocks, faults)")
            if res:
                res.feat("update-protocol:full-comparison-at-the-end")
    return flat, runner.obs


# ------------------------------------------------------------------------------------------------ model vs real

def opt(x):
    return None if x == "none" else int(x)


def corr_diff(ans: str, obs: list[dict]):
    """-> None or (operation number, text)"""
    s = parse_sexp(ans)
    if not isinstance(s, list) or not s or s[0] != "ok":
        return (0, f"the model answers {ans[:200]}")
    states = s[1:]
    if len(states) != len(obs):
        return (0, f"the model answers {len(states)} states for {len(obs)} operations")
    broken = False
    for no, (m, o) in enumerate(zip(states, obs)):
        cnames, size, al, coffs, flag, err, fnames, pers = m
        cnames, fnames = [str(x) for x in cnames], [str(x) for x in fnames]
        merr = None if err == "none" else str(err[1])
        broken = broken or merr is not None
        for key in ("init", "lookup", "fields"):
            if o[key] != cnames:
                what = {"init": "the generated __init__ accepts", "lookup": "lookup holds", "fields": "fields holds"}[key]
                return (no, f"{what} {o[key]}, the model's committed field list is {cnames}")
        if (o["size"], o["alignment"]) != (opt(size), int(al)):
            return (no, f"size / alignment are {(o['size'], o['alignment'])}, the model's committed layout has {(opt(size), int(al))}")
        if o["updating"] != (flag == "1"):
            return (no, f"__updating__ is {o['updating']}, the model's flag is {flag == '1'}")
        if o["names"] != fnames:
            return (no, f"__fields__ holds {o['names']}, the model's list {fnames}")
        if o["offsets"] != [opt(x) for x in pers]:
            return (no, f"the Field objects carry the offsets {o['offsets']}, in the model {[opt(x) for x in pers]}")
        if not broken and o["offsets"][:len(cnames)] != [opt(x) for x in coffs]:
            return (no, f"the committed fields carry the offsets {o['offsets'][:len(cnames)]}, the model's committed layout {[opt(x) for x in coffs]}")
        if o["commit_exc"] != merr:
            return (no, f"the call lets {o['commit_exc']} escape from commit, in the model {merr}")
    return None


def run(env, res, viol, rnd, h):
    """`h`: the module harness.props.c18 (fresh_cs, mk_type, field_specs, build_oneshot, full, compare)"""
    dc = impl.dc()
    tier = env["tier"]
    lines, metas = [], []
    for _ in range(160 if tier == "quick" else 1500):
        n = rnd.randint(0, 6)
        commit_faults = rnd.random() < 0.2
        for align, compiled in itertools.product((False, True), (False, True)):
            if tier == "quick" and rnd.random() < 0.5:
                continue
            endian = rnd.choice("<>")
            cs0 = h.fresh_cs(dc, endian, align, compiled)
            specs = h.field_specs(rnd, cs0, n)
            tree = gen_history(rnd, specs, commit_faults)
            cd = {"history": tree, "endian": endian, "align": align, "compiled": compiled, "data_seed": rnd.randrange(1 << 30)}
            flat, obs = run_case(h, dc, cd, viol, res)
            kinds = [o[0] for o in flat]
            nested = max((o["depth"] for o in obs), default=0)
            res.count(("update-protocol", str(tree), endian, align, compiled), "exitexc" in kinds or "addfail" in kinds or nested >= 2)
            res.feat("update-protocol:history")
            res.feat(f"update-protocol:nesting-depth:{nested}")
            for k in set(kinds):
                res.feat("update-protocol:op:" + k, kinds.count(k))
            if any(o["commit_exc"] for o in obs):
                res.feat("update-protocol:commit-raised")
                if any(o["commit_exc"] and o["op"] in ("exitok", "exitexc") and o["updating"] for o in obs):
                    res.feat("update-protocol:commit-raised-in-finally:flag-stays-set")
            if any(o["depth"] >= 1 and not o["updating"] and o["op"] == "add" for o in obs):
                res.feat("update-protocol:add_field-in-open-outer-block-commits-at-once")
            if flat:
                lines.append(model_line(flat, endian, align))
                metas.append((cd, flat, obs))
    if not env["driver_ok"]:
        return
    answers = run_driver(lines)
    for (cd, flat, obs), ans in zip(metas, answers):
        res.feat("update-protocol:model-compared", len(obs))
        d = corr_diff(ans, obs)
        if d and len(res.disagreements) < 20:
            no, why = d
            res.disagreements.append(Case("corr", f"update protocol, operation {no} ({flat[no][0] if no < len(flat) else '?'}) of "
                                          f"{[o[0] for o in flat]}: {why}", dict(cd, after_op=no)))


def replay_case(h, case, viol) -> None:
    """re-run a recorded history: the property on the real class, and the model comparison"""
    dc = impl.dc()
    flat, obs = run_case(h, dc, case, viol, None)
    if flat:
        try:
            ans = run_driver([model_line(flat, case["endian"], case["align"])])[0]
        except Exception as e:  # noqa: BLE001
            print("model driver not available:", e)
            return
        d = corr_diff(ans, obs)
        if d:
            viol(f"update protocol, operation {d[0]}: {d[1]}", case)
