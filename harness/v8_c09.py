"""C09, round 8 (v8): SENTINEL COLLISIONS - array counts that are negative, in particular counts that collide with an in-band marker.

The library marks "to the end of the stream" internally with an in-band integer (types/base.py: EOF = -0xE0F == -3599) that is handed
to the bulk readers as the element count.  A count that is COMPUTED from the input - `int16 n; char d[n];` - can take any value,
this one included.  What the library promises for a negative count is an EMPTY array (the clamp max(0, n) in BaseArray._read): the
array owns no byte, so whatever follows it - a further member, the next record on the stream, trailing bytes - is not part of its
value, and the stream is left where the array started.  `run_sentinel` checks exactly that, for a FAMILY of definitions that are valid
by construction:

Counts (`count_plan`)   the count of every array is an expression over one (or two) integer members that precede it; the encoder solves the
        expression for the member's value so that the count becomes a chosen TARGET:
          targets   every value in a window of +-6 around the library's sentinel (read from dissect.cstruct.types.base.EOF at run time,
                    and around -0xE0F in any case), the sentinel itself with extra weight; special negative values (-1, -2, -3, -127 ..
                    -129, -255 .. -257, -32767 .. -32769, -65535 .. -65537, -2^31 -+ 1, -2^32, -2^63, 2 x sentinel, sentinel x 16);
                    small non-negative controls (0, 1, 2, 3, 5) so that records also carry real elements
          forms     n | n + c | n - c | -n | c - n | ~n | n * c + r | (n - c) * 2 + r | m - n (two members) | n ^ c | n - K2 | K0 + n
                    (e.g. d[n - 3600] with n == 1, d[n * 30 + 1] with an int8 n == -120, d[-n] with an UNSIGNED n == 3599)
          member    int8 / int16 / int32 / int64 / int24 / int48 / int128 / short / long long / signed char / ileb128, and unsigned types
                    (uint8 .. uint64, uleb128) where the form makes the count negative; both byte orders
Elements    char, wchar, uint8, int16, uint16, uint24, uint32, int64, int128, float, enums (E8, E32), uleb128, ileb128, structures (pair,
            u8u16, u32u8, u16c3), and a fixed-size inner array (d[expr][2] / d[2][expr])
Shapes (`sentinel_case`)
  last        <0..2 static heads> <count member(s)> [static] ET d[expr];                       the array is the LAST member
  follow      ... ET d[expr]; <1..2 static followers>                                           further members follow
  two         k; ET1 a[expr(k)]; n; ET2 b[expr(n)]; [follower]                                  two arrays, two counts
  same        n; ET1 a[expr(n)]; ET2 b[expr(n)]; [follower]                                     one count, two arrays
  inner       heads; struct { count; ET d[expr]; [follower] } r; follower                       inside a nested structure
  inner-arr   heads; struct { ... } r[2..3]; follower                                           every element with its own count
  x {<, >} x {packed, aligned} x {interpreted, compiled}
  alone       the unnamed array types cs.<base>[k] and cs.T[k] with a STATIC negative k (the same clamp, the `int` branch)

Oracle (the property as stated; the expected value and the encoded size come from the independent reference parser, refimpl, in which
a negative count is an empty array):
  (1) start offsets p (aligned structures: multiples of the alignment) with noise before p and TRAILING bytes after the record (none /
      1 / 3 / 9 / 64 noise bytes / bytes that look like further elements / 4 KiB): BytesIO and a minimal file-like object under T(s),
      T.read(s), cs.read(name, s) give the reference value and leave the stream at p + encoded size - for two different trailing
      byte strings, i.e. value and consumed count do not depend on what follows the extent;
  (2) bytes / bytearray / memoryview of record + trailing bytes under T(x), T.read(x), T.reads(x), cs.read(name, x): the reference value;
  (3) three different records back to back on one stream (call forms mixed) and the array type T[k] over k records: every record's
      reference value and end position;
  (4) interpreted cases are also sent to the Lean model (`read` at p).
A definition the library refuses to load is a violation (each is well-formed), as is any exception from a call (the harness keeps going).

Outside the domain, on purpose: a count expression that is CONSTANT and negative inside a structure (`char d[-3599];`, `char d[K0 - 3599];`)
- the definition is rejected when it is loaded (ValueError from len() of the member type while the layout is computed), so there is
nothing to read; the unnamed types cs.char[-3599] are accepted and are covered by `alone`.
"""
from __future__ import annotations

import io
import random

from . import defs, impl, refimpl, s3_c09, u2_c09
from .common import A
from .structprops import CONFIGS_ALL, load

S = s3_c09.S
F = s3_c09.F
FALLBACK_SENTINEL = -0xE0F


def _c09():
    from .props import c09  # late: props/c09.py imports this module
    return c09


def sentinels():
    """the in-band markers of the library under test: types/base.py:EOF as it is now, and -0xE0F in any case"""
    out = [FALLBACK_SENTINEL]
    try:
        impl.dc()
        import importlib

        v = getattr(importlib.import_module("dissect.cstruct.types.base"), "EOF", None)
        if isinstance(v, int) and not isinstance(v, bool) and v < 0 and v not in out:
            out.insert(0, v)
    except Exception:  # noqa: BLE001 - a library without that module still has its arrays checked around -0xE0F
        pass
    return out


WINDOW = 6
CONTROLS = [0, 1, 2, 3, 5]


def specials(sent):
    out = [-1, -1, -2, -3, -127, -128, -129, -255, -256, -257, -32767, -32768, -32769, -65535, -65536, -65537,
           -(2 ** 31) + 1, -(2 ** 31), -(2 ** 31) - 1, -(2 ** 32), -(2 ** 63)]
    for s in sent:
        out += [2 * s, 16 * s, s - 256, s + 256, s - 4096]
    return out


# ------------------------------------------------------------------------------------------------ counts

SIGNED_CT = ["int8", "int16", "int16", "int16", "int32", "int32", "int64", "int24", "int48", "int128", "short", "long long", "signed char", "ileb128"]
UNSIGNED_CT = ["uint8", "uint16", "uint16", "uint32", "uint64", "uleb128"]


def ct_range(name):
    kind, size, signed, _ = refimpl.sc(name)
    if kind == "leb":
        return (-(2 ** 70), 2 ** 70) if signed else (0, 2 ** 70)
    return (-(1 << (8 * size - 1)), (1 << (8 * size - 1)) - 1) if signed else (0, (1 << (8 * size)) - 1)


def _forms(rnd, sent):
    """-> (label, expression text over `n` (and `m`), solve: target -> n | None, needs_m)"""
    e0 = sent[0]
    c = rnd.choice([1, 2, 7, 100, 3598, 3599, 3600, 3601, 4000, 65536])
    mul = rnd.choice([2, 3, 16, 30, 100])
    r = e0 % mul
    x = rnd.choice([1, 0xFF, 0xE0F, 0x1000])
    pc = rnd.choice([1, 5, 1800])
    r2 = e0 % 2
    return [
        ("n", "n", lambda t: t),
        ("n", "n", lambda t: t),
        ("n + c", f"n + {c}", lambda t: t - c),
        ("n - c", f"n - {c}", lambda t: t + c),
        ("-n", "-n", lambda t: -t),
        ("c - n", f"{c} - n", lambda t: c - t),
        ("~n", "~n", lambda t: ~t),
        ("n * c + r", f"n * {mul} + {r}" if r else f"n * {mul}", lambda t: (t - r) // mul if (t - r) % mul == 0 else None),
        ("(n - c) * 2 + r", f"(n - {pc}) * 2 + {r2}" if r2 else f"(n - {pc}) * 2", lambda t: (t - r2) // 2 + pc if (t - r2) % 2 == 0 else None),
        ("n ^ c", f"n ^ {x}", lambda t: t ^ x),
        ("n - K2", "n - K2", lambda t: t + 2),
        ("K0 + n", "K0 + n", lambda t: t),
        ("m - n", "m - n", None),
    ]


def count_plan(rnd: random.Random, sent, cn="n", mn="m"):
    """-> (label, [count member fields], expression text, targets): the members carry `gen` (rnd -> value); every call of the LAST
    member's gen picks a fresh target for the expression and solves for the member's value"""
    for _try in range(200):
        label, text, solve = rnd.choice(_forms(rnd, sent))
        signed = rnd.random() < (0.75 if label in ("-n", "c - n", "~n", "n - c", "m - n") else 1.0)
        ct = rnd.choice(SIGNED_CT if signed else UNSIGNED_CT)
        lo, hi = ct_range(ct)
        window = [s + d for s in sent for d in range(-WINDOW, WINDOW + 1)]
        if label == "n * c + r":  # the reachable values around the sentinel are a stride apart
            mul = int(text.split("*")[1].split("+")[0])
            window += [s + d * mul for s in sent for d in range(-3, 4)]
        cands = {"sentinel": list(sent), "window": window, "special": specials(sent), "control": CONTROLS + ([r for r in range(0, 6)] if "*" in text else [])}
        if label == "m - n":
            mt = rnd.choice(["uint8", "uint16", "int16", "int32"])
            mhi = min(ct_range(mt)[1], 1000)

            def feasible(t, m=None):
                return all(lo <= mm - t <= hi for mm in ((0, mhi) if m is None else (m,)))
            solve_ok = feasible
        else:
            def solve_ok(t, solve=solve):
                n = solve(t)
                return n is not None and lo <= n <= hi
        pools = {k: [t for t in v if solve_ok(t)] for k, v in cands.items()}
        if not (pools["sentinel"] or pools["window"] or pools["special"]):
            continue  # this member type cannot make this expression negative at all
        state = {}

        def draw(r, pools=pools):
            x = r.random()
            order = (["sentinel"] if x < 0.22 else ["window"] if x < 0.42 else ["special"] if x < 0.78 else ["control"]) + ["special", "window", "sentinel", "control"]
            for k in order:
                if pools[k]:
                    return r.choice(pools[k])
            raise AssertionError

        text = text.replace("n", cn).replace("m", mn) if label != "m - n" else f"{mn} - {cn}"
        if label == "m - n":
            fm, fn = F(mn, S(mt)), F(cn, S(ct))

            def gen_m(r, state=state, mhi=mhi):
                state["m"] = r.randint(0, mhi)
                return state["m"]

            def gen_n(r, state=state, draw=draw):
                state["t"] = draw(r)
                return state["m"] - state["t"]
            fm["gen"], fn["gen"] = gen_m, gen_n
            fields = [fm, fn]
        else:
            fn = F(cn, S(ct))

            def gen_n(r, state=state, draw=draw, solve=solve):
                state["t"] = draw(r)
                return solve(state["t"])
            fn["gen"] = gen_n
            fields = [fn]
        return f"{label}:{ct}", fields, text, state
    raise AssertionError("no feasible count plan")


# ------------------------------------------------------------------------------------------------ definitions

ELEM_POOL = {
    **{k: v for k, v in s3_c09.ELEMS.items()},
    **u2_c09.STRUCT_ELEMS,
    "E32": ("enum", "E32"), "int128": S("int128"), "float": S("float"),
    "char[2]": ("arr", S("char"), ("fixed", 2)), "uint16[2]": ("arr", S("uint16"), ("fixed", 2)),
}
ELEM_NAMES = ["char", "char", "char", "wchar", "wchar", "uint8", "uint8", "int16", "uint16", "uint16", "uint24", "uint32", "int64", "int128", "float",
              "E8", "E32", "uleb128", "ileb128", "pair", "u8u16", "u32u8", "u16c3", "char[2]", "uint16[2]"]
FOLLOWERS = [lambda: S("uint8"), lambda: S("uint16"), lambda: S("uint32"), lambda: S("char"), lambda: ("arr", S("char"), ("fixed", 3)),
             lambda: ("enum", "E8"), lambda: s3_c09.PAIR, lambda: S("wchar"), lambda: S("uint64")]
SHAPES = ["last", "last", "last", "follow", "follow", "follow", "two", "same", "inner", "inner-arr"]


def _arr(rnd, name, expr):
    en = rnd.choice(ELEM_NAMES)
    et = ELEM_POOL[en]
    if rnd.random() < 0.08 and et[0] != "arr":
        # d[2][expr]: a fixed number of rows, each of them expression-sized
        return en + "[2][expr]", F(name, ("arr", ("arr", et, ("expr", expr)), ("fixed", 2)))
    return en, F(name, ("arr", et, ("expr", expr)))


def sentinel_case(rnd: random.Random, sent):
    """-> dict(label, shape, tree, states): states = the count plans' state dicts (their "t" is the target of the last encoding)"""
    k = [0]

    def nm(p="h"):
        k[0] += 1
        return f"{p}{k[0]}"

    shape = rnd.choice(SHAPES)
    fs = [F(nm(), rnd.choice(u2_c09.HEAD_POOL)()) for _ in range(rnd.choice([0, 0, 0, 1, 1, 2]))]
    states = []

    def block(cn, mn, names, follower):
        """count member(s), [static], array(s) over the count, [follower]"""
        lab, cfs, text, st = count_plan(rnd, sent, cn, mn)
        states.append(st)
        out = list(cfs)
        if rnd.random() < 0.25:
            out.append(F(nm(), rnd.choice(u2_c09.HEAD_POOL)()))
        labs = []
        for a in names:
            la, fa = _arr(rnd, a, text)
            labs.append(la)
            out.append(fa)
        for _ in range(follower):
            out.append(F(nm("z"), rnd.choice(FOLLOWERS)()))
        return f"{lab}:{'+'.join(labs)}", out

    if shape == "last":
        lab, b = block("n", "m", ["d"], 0)
        fs += b
    elif shape == "follow":
        lab, b = block("n", "m", ["d"], rnd.choice([1, 1, 2]))
        fs += b
    elif shape == "two":
        l1, b1 = block("k", "j", ["a"], rnd.choice([0, 0, 1]))
        l2, b2 = block("n", "m", ["b"], rnd.choice([0, 1]))
        lab, fs = f"{l1}|{l2}", fs + b1 + b2
    elif shape == "same":
        lab, b = block("n", "m", ["a", "b"], rnd.choice([0, 1]))
        fs += b
    else:
        lab, b = block("n", "m", ["d"], rnd.choice([0, 0, 1]))
        inner = ("struct", [*([F("tag", S(rnd.choice(["uint8", "uint16", "uint64"])))] if rnd.random() < 0.4 else []), *b])
        fs.append(F("r", inner if shape == "inner" else ("arr", inner, ("fixed", rnd.choice([2, 2, 3])))))
        fs.append(F("after", rnd.choice(FOLLOWERS)()))
    return {"label": f"{shape}:{lab}", "shape": shape, "tree": ("struct", fs), "states": states}


# ------------------------------------------------------------------------------------------------ encoder (valid by construction)

def leb(v: int, signed: bool) -> bytes:
    out = bytearray()
    while True:
        b = v & 0x7F
        v >>= 7
        done = ((v == 0 and not b & 0x40) or (v == -1 and b & 0x40)) if signed else v == 0
        out.append(b | (0 if done else 0x80))
        if done:
            return bytes(out)


def emit(ty, out: bytearray, rnd, endian, cfg, f=None, ctx=None, seen=None):
    """u2_c09.emit with planned count members of every integer kind (signed LEB128 included), count expressions evaluated in the
    context of the enclosing structure at any nesting of arrays, float elements; `seen` collects the evaluated counts"""
    order = "little" if endian == "<" else "big"
    k = ty[0]
    if k == "sc":
        kind, size, signed, _ = refimpl.sc(ty[1])
        if f is not None and "gen" in f and kind in ("int", "leb"):
            v = f["gen"](rnd)
            out += leb(v, signed) if kind == "leb" else v.to_bytes(size, order, signed=signed)
            return v
        if kind == "flt":
            out += bytes(rnd.randrange(256) for _ in range(size))
            return None
        if kind == "leb":
            out += s3_c09.enc_elem(rnd, "ileb128" if signed else "uleb128", endian)
            return None
        return u2_c09.emit(ty, out, rnd, endian, cfg, f, ctx)
    if k == "arr":
        elem, ln = ty[1], ty[2]
        if ln[0] == "fixed":
            n = ln[1]
        else:
            raw = refimpl.eval_expr(ln[1], ctx or {}, cfg.consts)
            if seen is not None:
                seen.append(raw)
            n = max(0, raw)
        for _ in range(n):
            emit(elem, out, rnd, endian, cfg, None, ctx, seen)
        return None
    if k == "struct":
        maxal, mine = 1, {}
        for g in ty[1]:
            _, al = refimpl.size_align(g["ty"], cfg)
            maxal = max(maxal, al)
            if cfg.align:
                u2_c09._pad_to(out, u2_c09.roundup(len(out), al), rnd)
            v = emit(g["ty"], out, rnd, endian, cfg, g, mine, seen)
            if isinstance(v, int) and g["name"] is not None:
                mine[g["name"]] = ["int", v]
        if cfg.align:
            u2_c09._pad_to(out, u2_c09.roundup(len(out), maxal), rnd)
        return None
    return u2_c09.emit(ty, out, rnd, endian, cfg, f, ctx)


def _noise(rnd, n):
    return bytes(rnd.randrange(256) for _ in range(n))


def trailing(rnd, big=False):
    """bytes after the record: never empty (the caller adds the empty case itself)"""
    r = rnd.random()
    if r < 0.45:
        return _noise(rnd, rnd.choice([1, 1, 3, 9, 64]))
    if r < 0.6:
        return bytes([rnd.choice([0x41, 0x01, 0xFF, 0x7F])]) * rnd.choice([1, 2, 8, 33])  # look like further elements
    if r < 0.7:
        return b"\x00" * rnd.choice([1, 4, 16])
    if r < 0.8:
        return b"A\x00B\x00C\x00\x00\x00" * rnd.choice([1, 3])
    if r < 0.85 and big:
        return _noise(rnd, 4096)
    return _noise(rnd, rnd.choice([2, 5, 17]))


def bucket(t, sent):
    if t in sent:
        return "the sentinel"
    if any(abs(t - s) <= WINDOW for s in sent):
        return "sentinel window"
    if t < 0:
        return "negative"
    return "control (>= 0)"


STREAM_FORMS = u2_c09.STREAM_FORMS
BUFFER_FORMS = {
    "T(bytes)": lambda T, cs, d: T(d), "T(bytearray)": lambda T, cs, d: T(bytearray(d)), "T(memoryview)": lambda T, cs, d: T(memoryview(d)),
    "T.read(bytes)": lambda T, cs, d: T.read(d), "T.read(bytearray)": lambda T, cs, d: T.read(bytearray(d)), "T.read(memoryview)": lambda T, cs, d: T.read(memoryview(d)),
    "T.reads(bytes)": lambda T, cs, d: T.reads(d), "T.reads(bytearray)": lambda T, cs, d: T.reads(bytearray(d)), "T.reads(memoryview)": lambda T, cs, d: T.reads(memoryview(d)),
    "cs.read(name, bytes)": lambda T, cs, d: cs.read("T", d), "cs.read(name, bytearray)": lambda T, cs, d: cs.read("T", bytearray(d)),
    "cs.read(name, memoryview)": lambda T, cs, d: cs.read("T", memoryview(d)),
}


def _sizes(obj):
    try:
        return sorted((k, n) for k, n in obj._sizes.items() if n)
    except Exception:  # noqa: BLE001
        return None


def run_sentinel(env, eng, res, rnd):
    c09 = _c09()
    eq = c09.eq
    tier = env["tier"]
    quick = tier == "quick"
    sent = sentinels()
    res.feat(f"sentinel: in-band markers probed {sent}")
    for _ in range(70 if quick else 1400):
        case = sentinel_case(rnd, sent)
        tree = case["tree"]
        for endian, align, compiled in rnd.sample(CONFIGS_ALL, 2 if quick else 4):
            L, err = load(tree, endian=endian, align=align, compiled=compiled)
            if L is None:
                eng.report(f"definition rejected: {type(err).__name__}: {err}", {"definition": defs.render_struct("T", tree)}, [])
                continue
            T = L.T
            sigs = eng.sigs(L)
            cfg = refimpl.Cfg(endian, align, "uint64", impl.CONSTS)
            how = f"{'aligned' if align else 'packed'}, {'compiled' if compiled else 'interpreted'}"
            recs, refs, counts = [], [], []
            for _j in range(3):
                out, seen = bytearray(), []
                try:
                    emit(tree, out, rnd, endian, cfg, seen=seen)
                    v, end, _m = refimpl.parse(tree, bytes(out), 0, cfg)
                except (refimpl.Short, refimpl.Bad, OverflowError, KeyError):
                    break
                if end != len(out):
                    break
                recs.append(bytes(out))
                refs.append(("ok", v, end))
                counts.append(seen)
            if len(recs) < 3:
                res.feat("sentinel: constructed record not accepted by the reference parser")
                continue
            Aln = max(1, refimpl.size_align(tree, cfg)[1]) if align else 1
            res.feat(f"sentinel-shape:{case['shape']}:{'aligned' if align else 'packed'}")
            res.feat("sentinel-count-form:" + case["label"].split(":")[1])
            if compiled:
                res.feat("sentinel: compiled reader " + ("active" if getattr(T, "__compiled__", False) else "fell back to the interpreter"))
            for seen in counts:
                for t in seen:
                    res.feat("sentinel-count:" + bucket(t, sent))
            body, ref, seen = recs[0], refs[0], counts[0]
            desc = f"{case['label']} ({how}; array counts evaluate to {seen})"
            # (1) start offsets x trailing bytes x stream kinds x call forms: reference value, stream at p + encoded size
            offsets = sorted({0, Aln, Aln * rnd.randint(2, 40)} | (set() if align else {rnd.choice([1, 3, 7])}))
            modelled = set()
            for p in offsets:
                tails = [trailing(rnd, big=not quick), trailing(rnd)] + ([b""] if rnd.random() < 0.3 else [])
                pre = _noise(rnd, p)
                for ti, tail in enumerate(tails):
                    data = pre + body + tail
                    for form in rnd.sample(sorted(STREAM_FORMS), 6 if (p == 0 and ti == 0) else 2):
                        s = u2_c09._stream(form, data, p)
                        obj = None
                        try:
                            obj = STREAM_FORMS[form](T, L.cs, s)
                            got = ("ok", impl.canon(obj), s.tell())
                        except Exception as e:  # noqa: BLE001
                            got = ("err", impl.err_class(e), str(e)[:80])
                        res.count((L.text, endian, align, compiled, data, p, form, "sentinel"), True)
                        res.feat("sentinel-form:" + form)
                        if got[0] != "ok" or not eq(got[1], ref[1]) or got[2] != p + ref[2]:
                            eng.report(f"{desc}: {form} from offset {p} with {len(tail)} trailing bytes gives {str(got[1:])[:200]} and leaves the stream at "
                                       f"{got[2] if got[0] == 'ok' else None}; a negative count is an empty array: the value is {str(ref[1])[:200]} with encoded "
                                       f"size {ref[2]}, i.e. the stream belongs at {p + ref[2]} whatever follows",
                                       eng.case_data(L, data=data, pos=p, form=form, trailing=tail), sigs)
                            break  # one report per (offset, trailing bytes): the other call forms fail alike
                        # (4) the Lean model on the same bytes
                        elif p not in modelled and not compiled and "F23" not in sigs and tail:
                            sz = _sizes(obj)
                            if sz is not None:
                                eng.model_read(L, data, p, ("ok", got[1], got[2], sz), f"negative-count family: read at offset {p}", sigs)
                                res.feat("sentinel: case also sent to the Lean model")
                            modelled.add(p)
            # (2) buffer kinds x call forms on record + trailing bytes
            for tail in (trailing(rnd), b""):
                data = body + tail
                for form in rnd.sample(sorted(BUFFER_FORMS), 12 if tail and rnd.random() < 0.3 else 5):
                    try:
                        got = ("ok", impl.canon(BUFFER_FORMS[form](T, L.cs, data)))
                    except Exception as e:  # noqa: BLE001
                        got = ("err", impl.err_class(e), str(e)[:80])
                    res.count((L.text, endian, align, compiled, data, form, "sentinel-buffer"), True)
                    res.feat("sentinel-form:" + form)
                    if got[0] != "ok" or not eq(got[1], ref[1]):
                        eng.report(f"{desc}: {form} on the record followed by {len(tail)} trailing bytes gives {str(got[1:])[:200]}; a negative count is an empty "
                                   f"array: the value is {str(ref[1])[:200]} whatever follows", eng.case_data(L, data=data, form=form, trailing=tail), sigs)
            # (3) three different records back to back on one stream, and the array type T[k]
            p = Aln * rnd.choice([0, 1, 2, 5])
            data = _noise(rnd, p) + b"".join(recs) + (trailing(rnd) if rnd.random() < 0.7 else b"")
            form0 = rnd.choice(sorted(STREAM_FORMS))
            kind = "file-like" if "file-like" in form0 else "BytesIO"
            seq = [form0] + [rnd.choice([x for x in sorted(STREAM_FORMS) if kind in x]) for _j in range(2)]
            want, at = [], p
            for r in refs:
                at += r[2]
                want.append((r[1], at))
            s = u2_c09._stream(form0, data, p)
            got = []
            try:
                for form in seq:
                    obj = STREAM_FORMS[form](T, L.cs, s)
                    got.append((impl.canon(obj), s.tell()))
                ok = all(eq(g[0], w[0], False) and g[1] == w[1] for g, w in zip(got, want))
            except Exception as e:  # noqa: BLE001
                ok = False
                got.append((repr(e)[:120], None))
            res.count((L.text, endian, align, compiled, data, p, tuple(seq), "sentinel-seq"), True)
            res.feat("sentinel: three different records back to back")
            if not ok:
                eng.report(f"{case['label']} ({how}; array counts per record {counts}): reads {seq} back to back from offset {p} leave the stream at "
                           f"{[g[1] for g in got]} (expected {[w[1] for w in want]}) with values {str([g[0] for g in got])[:240]}; each record's bytes on their own give "
                           f"{str([r[1] for r in refs])[:240]}", eng.case_data(L, data=data, pos=p, forms=seq, record_lengths=[len(b) for b in recs]), sigs)
            kk = rnd.choice([2, 3])
            want_end = p + sum(r[2] for r in refs[:kk])
            s = u2_c09._stream("B", data, p)
            try:
                AT = T[kk]
                v = AT.read(s) if p else AT(s)
                got = ("ok", impl.canon(v), s.tell())
            except Exception as e:  # noqa: BLE001
                got = ("err", impl.err_class(e), str(e)[:80])
            res.count((L.text, endian, align, compiled, data, p, kk, "sentinel-array"), True)
            res.feat("sentinel: array type T[k] over k records")
            if got[0] != "ok" or not eq(got[1], [A("list"), *[r[1] for r in refs[:kk]]], False) or got[2] != want_end:
                eng.report(f"{case['label']} ({how}; array counts per record {counts[:kk]}): T[{kk}] from offset {p} gives {str(got[1:])[:200]} and leaves the stream at "
                           f"{got[2] if got[0] == 'ok' else None}; the records on their own give {str([r[1] for r in refs[:kk]])[:200]}, ending at {want_end}",
                           eng.case_data(L, data=data, pos=p, type=f"T[{kk}]"), sigs)
        if len(eng.lines) > 3000:
            eng.flush()
    run_alone(env, eng, res, rnd, sent)
    eng.flush()


# ------------------------------------------------------------------------------------------------ unnamed types with a static negative count

ALONE_BASES = ["char", "wchar", "uint8", "int16", "uint16", "uint24", "uint32", "int64", "float", "E8", "uleb128", "T"]
EMPTY = {"char": [A("bytes"), b""], "wchar": [A("wstr")]}


def run_alone(env, eng, res, rnd, sent):
    """cs.<base>[k] / cs.T[k] with a static negative k: an empty array that consumes nothing, at any offset, whatever follows"""
    c09 = _c09()
    quick = env["tier"] == "quick"
    dummy = ("struct", [{"name": "x", "ty": ("sc", "uint8"), "bits": None}, {"name": "y", "ty": ("sc", "uint16"), "bits": None}])
    pool = [s + d for s in sent for d in range(-WINDOW, WINDOW + 1)] + specials(sent)
    for _ in range(40 if quick else 600):
        endian, align, compiled = rnd.choice(CONFIGS_ALL)
        L, err = load(dummy, endian=endian, align=align, compiled=compiled)
        if L is None:
            eng.report(f"definition rejected: {type(err).__name__}: {err}", {"definition": defs.render_struct("T", dummy)}, [])
            continue
        base = rnd.choice(ALONE_BASES)
        k = rnd.choice(sent) if rnd.random() < 0.3 else rnd.choice(pool)
        note = f"T = cs.{base}[{k}]"
        want = EMPTY.get(base, [A("list")])
        try:
            T = getattr(L.cs, base)[k]
        except Exception as e:  # noqa: BLE001
            # a library that refuses such a type outright has nothing to read with it: not this property's business
            res.feat(f"sentinel-alone: cs.{base}[negative] is refused: {type(e).__name__}")
            continue
        res.feat("sentinel-alone:" + base)
        res.feat("sentinel-alone-count:" + bucket(k, sent))
        Aln = 4 if (align and base == "T") else 1
        for p in sorted({0, Aln * rnd.randint(1, 20)}):
            data = _noise(rnd, p) + (trailing(rnd) if rnd.random() < 0.85 else b"")
            forms = {
                "T(BytesIO)": lambda s: T(s), "T.read(BytesIO)": lambda s: T.read(s), "T(file-like)": lambda s: T(s), "T.read(file-like)": lambda s: T.read(s),
            }
            for form, fn in forms.items():
                s = u2_c09._stream(form, data, p)
                try:
                    got = ("ok", impl.canon(fn(s)), s.tell())
                except Exception as e:  # noqa: BLE001
                    got = ("err", impl.err_class(e), str(e)[:80])
                res.count((note, endian, align, compiled, data, p, form, "sentinel-alone"), True)
                if got[0] != "ok" or not c09.eq(got[1], want) or got[2] != p:
                    eng.report(f"{note}: {form} from offset {p} of {len(data)} bytes gives {str(got[1:])[:200]} and leaves the stream at {got[2] if got[0] == 'ok' else None}; "
                               f"a negative count is an empty array: the value is {want} and the stream stays at {p}",
                               eng.case_data(L, data=data, pos=p, form=form, type=note), [])
            if p == 0:
                bforms = {"T(bytes)": lambda d: T(d), "T.read(bytearray)": lambda d: T.read(bytearray(d)), "T.reads(memoryview)": lambda d: T.reads(memoryview(d)),
                          "T.reads(bytes)": lambda d: T.reads(d), "T(memoryview)": lambda d: T(memoryview(d))}
                for form, fn in bforms.items():
                    try:
                        got = ("ok", impl.canon(fn(data)))
                    except Exception as e:  # noqa: BLE001
                        got = ("err", impl.err_class(e), str(e)[:80])
                    res.count((note, endian, align, compiled, data, form, "sentinel-alone-buffer"), True)
                    if got[0] != "ok" or not c09.eq(got[1], want):
                        eng.report(f"{note}: {form} on {len(data)} bytes gives {str(got[1:])[:200]}; a negative count is an empty array: the value is {want}",
                                   eng.case_data(L, data=data, form=form, type=note), [])
