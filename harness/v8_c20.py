"""C20, round 8: MULTI-NAME TYPEDEFS OF ANONYMOUS AGGREGATES  (`typedef struct { ... } A, B;`, `typedef union { ... } U1, U2, U3;`).

One declaration gives one anonymous structure several names.  The parser names the structure after the FIRST name and
registers every name for the same type object; the stub generator must then declare the class once, under the name the
type carries, and every other name as an alias of it - every name the cstruct object provides, exactly once.

`MultiNameMixin` (mixed into the module's `Gen`, whose PRNG, name supply, field generator and type pool it uses) writes
definition sets around such typedefs:

* struct / union, 2-5 names, all layouts of the name list the lexer takes (`A, B` / `A,B` / `A , B` / names on their own
  lines / no blank after the brace), bodies from the module's field generator (scalars of every kind, arrays, pointers,
  bit-fields, nested named and anonymous members, zero fields) that may use EARLIER multi-name types by any of their names
  (nested: `typedef struct { A x; B y[2]; B *p; } C, D;`);
* followers that hang pointer / array / plain declarators on one of the names (first, middle or last):
  `typedef B *PB; typedef A AA[2]; typedef C C2;`, and a structure that uses several of the names as field types;
* the sibling forms that do NOT go through the renaming loop, for contrast: tagged `typedef struct _T {...} A, B;`,
  top-level `struct {...} c, d;`, single-name `typedef struct {...} A;`;
* pointer / array declarators INSIDE the name list (`typedef struct {...} A, *PA, AA[2];`): the unmodified lexer only
  takes plain names there (ParserError; counted as `multi:declarator-in-list:rejected`, not C20's business) - they are
  generated all the same so that a library that starts to accept them is checked like any other set;
* a repeated name (`A, A`), and - in sets that allow keywords (F38 territory) - a Python keyword among the names;
* after loading: aliases added through the API BY OBJECT (`cs.add_type("ob0", cs.B)`);
* per set: endianness, pointer width, compiled / interpreted, aligned / packed (`build`).

Excluded on purpose: names that are not C identifiers (`1A`): the lexer's name class is [a-zA-Z0-9_]+, so the library takes
them, but they are not C and no stub could name them.

Besides the module's AST oracle, `exec_oracle` EXECUTES the stub (with stand-ins for `cstruct`, `Array`, `Pointer`, ...) and
checks, on the resulting class object, that every user typedef name is an attribute of the class and that what it is bound to
(a stub class, `cstruct.<name>`, `Array[...]`, `Pointer[...]`) denotes the type the cstruct object provides under that name - so
two names are the same stub object exactly when they are the same type on the object.  Stubs are never executed by their
users (forward references are legal in a .pyi), so a stub that does not execute is only counted (`exec:failed:*`), never a
verdict.
"""
from __future__ import annotations

import __future__ as _future
import ast

SEPS = [", ", ", ", ", ", ",", " , ", ",\n    ", " ,\n", ",  "]
LEADS = [" ", " ", " ", "", "\n", "\n  "]
BODY_SCALARS = ["uint8", "int16", "uint32", "int64", "uint24", "char", "wchar", "float", "double", "uleb128", "BYTE", "DWORD", "unsigned int", "uint128"]


class MultiNameMixin:
    """needs from the host class: self.r, self.allow_kw, self.types, self.used, self.n, fresh(prefix), fname(taken), fields(depth),
    definition_set(); KW = the keyword pool"""

    KW: list[str] = []

    def mn_init(self):
        self.groups: list[dict] = []  # what was written: {"kind", "form", "names": [...]}
        self.mn_names: list[str] = []  # every plain name given by a multi-name declaration so far

    def mn_body(self):
        r = self.r
        if r.random() < 0.5:
            body = self.fields(0)
        else:
            taken: set[str] = set()
            out = []
            for _ in range(r.randint(0 if r.random() < 0.05 else 1, 4)):
                out.append(f"{r.choice(BODY_SCALARS)} {self.fname(taken)}{r.choice(['', '', '', '[2]', '[3][2]'])};")
            body = " ".join(out)
        # nested: fields whose type is an earlier multi-name type, by any of its names
        if self.mn_names and r.random() < 0.5:
            taken = set()
            extra = []
            for j in range(r.randint(1, 3)):
                nm = r.choice(self.mn_names)
                decl = r.choice(["{t} {f};", "{t} {f};", "{t} *{f};", "{t} {f}[2];", "{t} {f}[];", "{t} **{f};", "{t} {f}[2][2];"])
                extra.append(decl.format(t=nm, f=f"m{j}_{self.n}"))
            body = (body + " " + " ".join(extra)) if r.random() < 0.7 else (" ".join(extra) + " " + body)
        return body

    def mn_namelist(self, k):
        r = self.r
        names = [self.fresh(r.choice(["R", "Rec", "N", "V", "un"])) for _ in range(k)]
        if self.allow_kw and r.random() < 0.3:
            kw = r.choice(self.KW)
            if kw not in self.used:
                self.used.add(kw)
                names[r.randrange(k)] = kw
        if r.random() < 0.06:
            names.insert(r.randint(1, len(names)), r.choice(names))  # a repeated name
        return names

    def mn_typedef(self):
        """one multi-name declaration (+ followers); returns its text"""
        r = self.r
        kind = r.choice(["struct", "struct", "union"])
        form = r.random()
        k = r.choice([2, 2, 2, 3, 3, 4, 5])
        names = self.mn_namelist(k)
        body = self.mn_body()
        lead = r.choice(LEADS)
        sep = r.choice(SEPS)
        g = {"kind": kind, "names": names}
        if form < 0.70:
            g["form"] = "anonymous"
            shown = list(names)
            if r.random() < 0.10:
                # declarators inside the name list (never on the first name: that is F39's `typedef struct {..} *P`)
                g["form"] = "declarator-in-list"
                for j in range(1, len(shown)):
                    if r.random() < 0.6:
                        shown[j] = r.choice(["*{n}", "{n}[2]", "**{n}", "{n}[2][3]", "{n}[]"]).format(n=shown[j])
                if shown == names:
                    shown[-1] = "*" + shown[-1]
                lead = lead or " "
            text = f"typedef {kind} {{ {body} }}{lead}{sep.join(shown)};\n"
        elif form < 0.82:
            g["form"] = "tagged"
            tag = self.fresh("tag")
            text = f"typedef {kind} {tag} {{ {body} }}{lead}{sep.join(names)};\n"
            self.types.append(tag)
        elif form < 0.92:
            g["form"] = "toplevel-vars"
            text = f"{kind} {{ {body} }}{lead}{sep.join(names)};\n"
        else:
            g["form"] = "single"
            names = names[:1]
            g["names"] = names
            text = f"typedef {kind} {{ {body} }}{lead or ' '}{names[0]};\n"
        self.groups.append(g)
        if g["form"] == "declarator-in-list":
            return text  # (rejected by the unmodified lexer: nothing may build on these names)
        plain = [n for n in names if n.isidentifier()]
        self.types.extend(dict.fromkeys(plain))
        self.mn_names.extend(dict.fromkeys(plain))
        # followers: declarators hung on one of the names
        out = [text]
        for _ in range(r.choice([0, 0, 1, 1, 2, 3])):
            base = r.choice([names[0], names[-1], r.choice(names)])
            nm = self.fresh(r.choice(["P", "Arr", "Al"]))
            label, f = r.choice([("ptr", "typedef {b} *{n};"), ("ptrptr", "typedef {b} **{n};"), ("arr", "typedef {b} {n}[{c}];"),
                                 ("arr2", "typedef {b} {n}[2][3];"), ("alias", "typedef {b} {n};"), ("arr-unsized", "typedef {b} {n}[];")])
            out.append(f.format(b=base, n=nm, c=r.choice([0, 1, 2, 7])) + "\n")
            g.setdefault("followers", []).append(label)
            if label != "arr-unsized":
                self.types.append(nm)
        if r.random() < 0.35 and len(plain) >= 2:
            taken: set[str] = set()
            fs = " ".join(f"{n} {self.fname(taken)}{r.choice(['', '', '[2]'])};" if r.random() < 0.7 else f"{n} *{self.fname(taken)};"
                          for n in r.sample(plain, r.randint(2, len(plain))))
            user = self.fresh("Use")
            out.append(f"{r.choice(['struct', 'union'])} {user} {{ {fs} }};\n")
            self.types.append(user)
            g["user"] = True
        return "".join(out)

    def mn_definition_set(self):
        r = self.r
        self.mn_init()
        parts = []
        if r.random() < 0.35:
            parts.append(self.definition_set())  # the module's ordinary definitions first: their types are usable below
        for _ in range(r.choice([1, 1, 1, 2, 2, 3, 4])):
            parts.append(self.mn_typedef())
        if r.random() < 0.30:
            parts.append(self.definition_set())  # ... and after: their fields may use the multi-name types
        return "".join(parts)


# --------------------------------------------------------------------------------------------- building a cstruct from a recorded case

def build(m, data: dict):
    """fresh cstruct for a recorded case: options (endian, pointer, compiled, align), the definitions, aliases added through the API.
    Raises what the library raises."""
    opt = data.get("options") or {}
    kw = {}
    if "endian" in opt:
        kw["endian"] = opt["endian"]
    if opt.get("pointer"):
        kw["pointer"] = opt["pointer"]
    cs = m.cstruct(**kw)
    lk = {k: opt[k] for k in ("compiled", "align") if k in opt}
    cs.load(data["definitions"], **lk)
    for name, tgt in data.get("aliases_by_name", []):
        cs.add_type(name, tgt)
    for name, tgt in data.get("aliases_by_object", []):
        cs.add_type(name, cs.typedefs[tgt])
    return cs


def pick_options(rnd) -> dict:
    return {"endian": rnd.choice(["<", "<", ">", "!", "@", "="]), "pointer": rnd.choice([None, None, "uint32", "uint64", "uint16"]),
            "compiled": rnd.random() < 0.5, "align": rnd.random() < 0.3}


# --------------------------------------------------------------------------------------------- executing the stub

class _Ref:
    """`cstruct.<name>` met while the class body runs"""

    def __init__(self, name):
        self.name = name


class _Sub:
    """`Array[...]` / `Pointer[...]`"""

    def __init__(self, ctor, arg=None):
        self.ctor, self.arg = ctor, arg

    def __getitem__(self, arg):
        return _Sub(self.ctor, arg)


class _Meta(type):
    def __getattr__(cls, name):
        if name.startswith("__") and name.endswith("__"):
            raise AttributeError(name)
        # `cstruct.__x` written in the body of class cstruct reaches us as `_cstruct__x` (private name mangling)
        return _Ref(name[len("_cstruct"):] if name.startswith("_cstruct__") else name)


def _mangled(n: str) -> str:
    return "_cstruct" + n if (n.startswith("__") and not n.endswith("__")) else n


def exec_stub(stub: str):
    """the class object the stub text defines when it is executed (annotations are not evaluated); raises what Python raises"""
    base = _Meta("cstruct", (), {})
    ns = {"cstruct": base, "Array": _Sub("Array"), "Pointer": _Sub("Pointer"), "overload": lambda f: f,
          "CharArray": _Sub("CharArray"), "WcharArray": _Sub("WcharArray"), "__name__": "stub"}
    for nm in ("Structure", "Union", "Enum", "Flag", "BaseType"):
        ns[nm] = type(nm, (), {})
    code = compile(stub, "<stub>", "exec", flags=_future.annotations.compiler_flag, dont_inherit=True)
    for _ in range(12):
        try:
            exec(code, ns)  # noqa: S102 - text generated from our own definitions
            break
        except NameError as e:
            # any other global the text reads (a base class of a generic stub, ...) is an empty class of its own
            if not getattr(e, "name", None) or e.name in ns:
                raise
            ns[e.name] = type(e.name, (), {})
            ns["cstruct"] = base
    else:
        raise NameError("too many unknown names")
    return ns["cstruct"]


def exec_oracle(m, cs, stub: str, Bad, feat=lambda k: None, empty=None):
    """raise Bad(reason) when the executed stub class does not provide a user typedef name, or binds it to something that does not
    denote the type the cstruct object provides under that name"""
    T = m.types
    try:
        cls = exec_stub(stub)
    except Exception as e:  # noqa: BLE001 - not a verdict: a stub need not be executable
        feat("exec:failed:" + type(e).__name__)
        return
    feat("exec:ok")
    ns = vars(cls)
    empty = empty or m.cstruct()

    def denotes(v, t) -> bool:
        if isinstance(v, _Ref):
            try:
                return cs.resolve(v.name) is t
            except Exception:  # noqa: BLE001
                return False
        if isinstance(v, _Sub):
            if v.ctor == "CharArray":
                return v.arg is None and issubclass(t, T.CharArray)
            if v.ctor == "WcharArray":
                return v.arg is None and issubclass(t, T.WcharArray)
            if v.arg is None or issubclass(t, (T.CharArray, T.WcharArray)):
                return False
            if v.ctor == "Array":
                return issubclass(t, T.Array) and denotes(v.arg, t.type)
            return issubclass(t, T.Pointer) and denotes(v.arg, t.type)
        if isinstance(v, type):
            # a class of the stub stands for the type registered under the class's name, and must be bound there to itself
            nm = v.__name__
            return ns.get(_mangled(nm)) is v and nm in cs.typedefs and nm not in empty.typedefs and _res(cs.typedefs[nm]) is t
        return False

    def _res(x):
        return cs.resolve(x) if isinstance(x, str) else x

    for k, t in cs.typedefs.items():
        if k in empty.typedefs:
            continue
        t = _res(t)
        if _mangled(k) not in ns:
            raise Bad(f"executed stub: the class provides no attribute {k}, the cstruct object provides the type {k} ({t.__name__})")
        v = ns[_mangled(k)]
        if not denotes(v, t):
            shown = (f"class {v.__name__}" if isinstance(v, type) else f"cstruct.{v.name}" if isinstance(v, _Ref) else
                     f"{v.ctor}[...]" if isinstance(v, _Sub) else repr(v)[:40])
            raise Bad(f"executed stub: {k} is bound to {shown}, which does not denote the type the cstruct object provides as {k} ({t.__name__})")
    # same object in the stub <=> same type on the object (over the names bound to stub classes)
    cl = [(k, ns[_mangled(k)]) for k in cs.typedefs if k not in empty.typedefs and isinstance(ns.get(_mangled(k)), type)]
    for i, (a, va) in enumerate(cl):
        for b, vb in cl[i + 1:]:
            if (va is vb) != (_res(cs.typedefs[a]) is _res(cs.typedefs[b])):
                raise Bad(f"executed stub: {a} and {b} are {'the same' if va is vb else 'different'} in the stub but "
                          f"{'different types' if va is vb else 'the same type'} on the cstruct object")


def declared_once(stub_tree: ast.Module, names) -> list[str]:
    """those of `names` that the stub's class body does not declare exactly once"""
    body = stub_tree.body[0].body if (stub_tree.body and isinstance(stub_tree.body[0], ast.ClassDef)) else []
    decl = [st.name if isinstance(st, ast.ClassDef) else st.target.id for st in body
            if isinstance(st, ast.ClassDef) or (isinstance(st, ast.AnnAssign) and isinstance(st.target, ast.Name))]
    return [n for n in names if decl.count(n) != 1]
