"""C17 probe (v10): assignments that COMPARE EQUAL to the member's current value but have another encoding or another identity,
on members of structures AND of unions, reached through several entry points.

"Assigning a field changes, in the dumped bytes, exactly the bytes of that field" and "constructing from values equals assigning those
fields on a default instance" quantify over ALL values a member can be given - also over values `v` with `v == current value`.
Equality of Python values is coarser than equality of their encodings (-0.0 == 0.0, True == 1, an enum member == its integer, a
structure whose float field is -0.0 == one whose field is 0.0, `[True, 0] == [1, 0]`), and a container that was changed in place is
`==` (identical) to itself: an implementation that skips "needless" stores / rebuilds by comparing the new value with the old one drops
assignments that must change the bytes (or that must re-synchronise a union with an array member changed in place: `u.a[1] = 7;
u.a = u.a`, the documented way out of known finding F49).

Definitions (harness PRNG): T is a `struct` or a `union` (50 / 50) of 2..5 members drawn from integers of 1 / 2 / 4 / 8 bytes, float16 /
float / double, enums (uint8 with an alias-valued member, uint16, int32) and a flag, char, char[k], integer / enum / float arrays, one or
two nested structures (integers, floats, enum, char[k], a small array) and arrays of them; at least one member holds a float; packed /
aligned x compiled / interpreted x endianness.  Every T is also used INSIDE other constructs: `struct O { uint8 pre; T t; uint16 post; }`
(`o.t.m = v`), `struct A { T ts[2]; uint8 post; }` (`a.ts[i].m = v`) and `union W { T t; uint64 q; }` (`w.t.m = v`, through the union's
proxy of a structure member).  Instances come from the default constructor, from keyword construction, and from parsing through the
class call with bytes / bytearray / memoryview / a stream and through `.read` / `.reads`; the initial bytes are drawn so that zeros,
negative zeros, ones and named enum values are frequent.

Histories of 3..8 assignments on one instance.  The value assigned is, with high probability, EQUAL to the member's current value:
  * float members: the zero of the other sign (-0.0 over 0.0 and 0.0 over -0.0), the int 0 / False over -0.0, an int or True over an
    integral float, the same float object, a copy;
  * integer members: True / False over 1 / 0, an enum member or a cstruct integer or an int subclass of the same value, the same object;
  * enum members: a new member object of the same value, the ALIAS name of the same value, the same object;
  * char / char[k]: a new bytes object, a bytearray, a memoryview of equal content;
  * arrays: the same list object, also after changing an element in place (`x.a[i] = n; x.a = x.a`), an equal copy (also after the in-place
    change), a list holding bools / enum members for equal integers, -0.0 for 0.0 elements;
  * nested structures / arrays of them: the same object (in a union: the proxy the union hands out), also after assigning a field through
    it, a fresh equal structure, a structure parsed from the current one's dump, one whose zero float field has the other sign;
otherwise a random other value (so that the histories move through many states).

Oracle (the property; the expected bytes are computed by the harness from the C layout rule and the standard encodings, nothing is taken
from the library's offsets):
  * after every assignment `dumps()` has len(C) bytes and equals the dump before with the bytes of exactly that member replaced by the
    standard encoding of the ASSIGNED value (a union's members all start at the union's first byte); `bytes(x)` and `x.write(fh)` agree;
  * every member of T then holds a value whose encoding is what the dump holds at that member's bytes - for a union: the other members
    reflect the assignment (NaN-valued floats are not compared);
  * the instance is `==` / not `!=` to the instance parsed from its dump (no NaN around);
  * on T itself: `T(m=v)` (and `T(v)` for the first member) is `==` / not `!=` to the default instance with `m` assigned `v`, hashes
    equally when both are hashable, and both dump to len(T) zero bytes with the encoding of `v` at the member's bytes;
  * a parsed instance dumps to its input (the inputs have zero padding bytes), the default instance to zero bytes.

Domain notes (excluded, with the reason):
  * in-place changes (`x.a[i] = n`, `x.s.f = n`, `x.sa[i].f = n`) are made on PARSED instances only: the container-valued defaults of
    default-constructed instances are shared objects (known finding F8);
  * between an in-place change below an array member of a union and the re-assignment nothing is checked (known finding F49: the union is
    not rebuilt by the in-place change; the re-assignment has to bring it up to date - that IS checked);
  * a union's dump is written from its (first) largest member, so in a union the first of the largest members is one without padding
    bytes (where the draw gives none, a `uint8 raw[size]` member is put in front): with a padded structure as the written member the dump
    shows zero bytes in that padding whatever the other members hold - a property of the union writer, not of assignments;
  * values that are NOT == to anything the member's reader yields (str for char, tuples for arrays, members of another enum class, plain
    integers for enum members - rejected by the unmodified writer) belong to the value-kind family v6_c17 and are not drawn here.
"""
from __future__ import annotations

import io
import struct

from . import impl

PRE = ("enum EA : uint8 { A0 = 0, A1 = 1, B1 = 1, A2 = 2, A5 = 5, AM = 255 };\n"
       "enum EB : uint16 { B0 = 0, B1 = 1, B2 = 2, BM = 0xFFFF };\n"
       "enum EC : int32 { C0 = 0, C1 = 1, CN = -1, C9 = 9 };\n"
       "flag FL : uint16 { X0 = 1, X1 = 2, X2 = 4 };\n")

INTS = {"uint8": (1, False), "int8": (1, True), "uint16": (2, False), "int16": (2, True), "uint32": (4, False), "int32": (4, True),
        "uint64": (8, False), "int64": (8, True)}
FLOATS = {"float16": (2, "e"), "float": (4, "f"), "double": (8, "d")}
ENUMS = {"EA": (1, False, [0, 1, 2, 5, 255]), "EB": (2, False, [0, 1, 2, 0xFFFF]), "EC": (4, True, [0, 1, -1, 9]), "FL": (2, False, [0, 1, 2, 3, 4, 7])}


class MyInt(int):
    pass


# ------------------------------------------------------------------------------------------------ type descriptions, layout, encoding

def t_int(name):
    return {"k": "int", "t": name, "size": INTS[name][0], "signed": INTS[name][1]}


def t_float(name):
    return {"k": "float", "t": name, "size": FLOATS[name][0], "fmt": FLOATS[name][1]}


def t_enum(name):
    return {"k": "enum", "t": name, "size": ENUMS[name][0], "signed": ENUMS[name][1]}


def t_char(n=None):
    return {"k": "char", "t": "char", "n": n}


def t_array(elem, n):
    return {"k": "array", "elem": elem, "n": n}


def t_struct(name, members, union=False):
    return {"k": "struct", "t": name, "members": members, "union": union}


def decl(ty, name):
    if ty["k"] == "array":
        return f"{ty['elem']['t']} {name}[{ty['n']}];"
    if ty["k"] == "char" and ty["n"] is not None:
        return f"char {name}[{ty['n']}];"
    return f"{ty['t']} {name};"


def layout(ty, align):
    """-> (size, alignment, offsets or None) by the C rule (packed: no padding at all)"""
    k = ty["k"]
    if k in ("int", "float", "enum"):
        return ty["size"], ty["size"], None
    if k == "char":
        return (1 if ty["n"] is None else ty["n"]), 1, None
    if k == "array":
        s, a, _ = layout(ty["elem"], align)
        return s * ty["n"], a, None
    offs, pos, amax = [], 0, 1
    for _, mt in ty["members"]:
        s, a, _ = layout(mt, align)
        amax = max(amax, a)
        if ty["union"]:
            offs.append(0)
            pos = max(pos, s)
        else:
            if align:
                pos += -pos % a
            offs.append(pos)
            pos += s
    if align:
        pos += -pos % amax
    return pos, amax, offs


def padfree(ty, align):
    k = ty["k"]
    if k == "array":
        return padfree(ty["elem"], align)
    if k != "struct":
        return True
    size, _, _ = layout(ty, align)
    return not ty["union"] and all(padfree(mt, align) for _, mt in ty["members"]) and sum(layout(mt, align)[0] for _, mt in ty["members"]) == size


def has_float(ty):
    if ty["k"] == "float":
        return True
    if ty["k"] == "array":
        return has_float(ty["elem"])
    return ty["k"] == "struct" and any(has_float(mt) for _, mt in ty["members"])


class Cannot(Exception):
    """the harness cannot encode this value for this type (a value of an unexpected kind was read from the library)"""


def enc(ty, v, endian, align):
    """the standard encoding of value v for type ty; structure values are read field by field (getattr), padding bytes are zero"""
    k = ty["k"]
    bo = "little" if endian == "<" else "big"
    try:
        if k in ("int", "enum"):
            return int(v).to_bytes(ty["size"], bo, signed=ty["signed"])
        if k == "float":
            return struct.pack(endian + ty["fmt"], float(v))
        if k == "char":
            b = bytes(v)
            if len(b) != (1 if ty["n"] is None else ty["n"]):
                raise Cannot(f"char value of {len(b)} bytes")
            return b
        if k == "array":
            v = list(v)
            if len(v) != ty["n"]:
                raise Cannot(f"array value of {len(v)} entries for {ty['n']}")
            return b"".join(enc(ty["elem"], e, endian, align) for e in v)
        size, _, offs = layout(ty, align)
        out = bytearray(size)
        if ty["union"]:
            raise Cannot("union value")
        for (mn, mt), off in zip(ty["members"], offs):
            b = enc(mt, getattr(v, mn), endian, align)
            out[off:off + len(b)] = b
        return bytes(out)
    except Cannot:
        raise
    except Exception as e:  # noqa: BLE001
        raise Cannot(f"{type(e).__name__}: {e}") from e


def reflects(ty, v, chunk, endian, align):
    """None when value v (read from the instance) encodes to the data bytes of chunk (padding not compared, NaN floats skipped),
    else a short text naming the first leaf that does not"""
    k = ty["k"]
    try:
        if k == "float":
            f = float(v)
            if f != f:
                return None
            return None if struct.pack(endian + ty["fmt"], f) == chunk else f"{v!r} encodes to {struct.pack(endian + ty['fmt'], f).hex()}, the dump holds {chunk.hex()}"
        if k in ("int", "enum", "char"):
            b = enc(ty, v, endian, align)
            return None if b == chunk else f"{v!r} encodes to {b.hex()}, the dump holds {chunk.hex()}"
        if k == "array":
            s = layout(ty["elem"], align)[0]
            v = list(v)
            if len(v) != ty["n"]:
                return f"{len(v)} entries instead of {ty['n']}"
            for i, e in enumerate(v):
                r = reflects(ty["elem"], e, chunk[i * s:(i + 1) * s], endian, align)
                if r:
                    return f"[{i}]: {r}"
            return None
        _, _, offs = layout(ty, align)
        for (mn, mt), off in zip(ty["members"], offs):
            r = reflects(mt, getattr(v, mn), chunk[off:off + layout(mt, align)[0]], endian, align)
            if r:
                return f".{mn}: {r}"
        return None
    except Exception as e:  # noqa: BLE001
        return f"reading / encoding the value raises {type(e).__name__}: {e}"


def has_nan(ty, v):
    try:
        if ty["k"] == "float":
            return float(v) != float(v)
        if ty["k"] == "array":
            return any(has_nan(ty["elem"], e) for e in v)
        if ty["k"] == "struct":
            return any(has_nan(mt, getattr(v, mn)) for mn, mt in ty["members"])
    except Exception:  # noqa: BLE001
        return True
    return False


# ------------------------------------------------------------------------------------------------ random values (harness side)

def rand_float(rnd, ty):
    r = rnd.random()
    if r < 0.3:
        return 0.0
    if r < 0.55:
        return -0.0
    if r < 0.7:
        return rnd.choice([1.0, -1.0, 2.0, 5.0, 255.0, -3.0])
    if r < 0.85:
        return float(rnd.randint(-1000, 1000))
    return struct.unpack("<e", struct.pack("<e", rnd.uniform(-100, 100)))[0]  # representable in every float width


def rand_int(rnd, ty):
    lo, hi = (-(1 << (8 * ty["size"] - 1)), (1 << (8 * ty["size"] - 1)) - 1) if ty["signed"] else (0, (1 << (8 * ty["size"])) - 1)
    r = rnd.random()
    if r < 0.5:
        return rnd.choice([0, 1, 1, 2, 5])
    if r < 0.65:
        return rnd.choice([lo, hi])
    return rnd.randint(lo, hi)


def rand_plain(rnd, ty, cs):
    """a value for ty made of plain Python objects / fresh library objects (structures: every member given, private containers)"""
    k = ty["k"]
    if k == "int":
        return rand_int(rnd, ty)
    if k == "float":
        return rand_float(rnd, ty)
    if k == "enum":
        E = getattr(cs, ty["t"])
        return E(rnd.choice(ENUMS[ty["t"]][2])) if rnd.random() < 0.8 else E(rand_int(rnd, ty))
    if k == "char":
        n = 1 if ty["n"] is None else ty["n"]
        return bytes(rnd.choice([0, 0, 0x41, 0x7A, rnd.getrandbits(8)]) for _ in range(n))
    if k == "array":
        return [rand_plain(rnd, ty["elem"], cs) for _ in range(ty["n"])]
    return getattr(cs, ty["t"])(**{mn: rand_plain(rnd, mt, cs) for mn, mt in ty["members"]})


def rand_bytes_for(rnd, ty, cs, endian, align):
    return enc(ty, rand_plain(rnd, ty, cs), endian, align)


# ------------------------------------------------------------------------------------------------ definitions

def gen_scalar(rnd, floaty=False):
    r = rnd.random()
    if floaty or r < 0.3:
        return t_float(rnd.choice(list(FLOATS)))
    if r < 0.65:
        return t_int(rnd.choice(list(INTS)))
    if r < 0.85:
        return t_enum(rnd.choice(list(ENUMS)))
    return t_char(rnd.choice([None, 1, 2, 3, 4]))


def gen_nested(rnd, name, floaty):
    members = []
    n = rnd.randint(2, 4)
    fl = rnd.randrange(n) if floaty else -1
    for i in range(n):
        if i != fl and rnd.random() < 0.2:
            ty = t_array(rnd.choice([t_int(rnd.choice(["uint8", "uint16", "int32"])), t_float("float")]), rnd.randint(1, 3))
        else:
            ty = gen_scalar(rnd, floaty=(i == fl))
        members.append((f"n{i}", ty))
    return t_struct(name, members)


def gen_def(rnd, align):
    """-> (nested structure types, T): T a struct or a union with 2..5 members of which at least one holds a float"""
    nested = [gen_nested(rnd, "N0", True)]
    if rnd.random() < 0.5:
        nested.append(gen_nested(rnd, "N1", rnd.random() < 0.5))
    union = rnd.random() < 0.5
    n = rnd.randint(2, 5)
    members = []
    for i in range(n):
        r = rnd.random()
        if r < 0.5:
            ty = gen_scalar(rnd)
        elif r < 0.7:
            e = rnd.random()
            elem = t_float(rnd.choice(list(FLOATS))) if e < 0.4 else t_enum(rnd.choice(["EA", "EB"])) if e < 0.5 else t_int(rnd.choice(list(INTS)))
            ty = t_array(elem, rnd.randint(1, 4))
        elif r < 0.88:
            ty = rnd.choice(nested)
        else:
            ty = t_array(rnd.choice(nested), rnd.randint(1, 2))
        members.append((f"m{i}", ty))
    if not any(has_float(mt) for _, mt in members):
        members[rnd.randrange(n)] = (members[0][0], t_float(rnd.choice(list(FLOATS))))
        members = [(f"m{i}", mt) for i, (_, mt) in enumerate(members)]
    T = t_struct("T", members, union)
    if union:
        # the union's dump is written from the first of its largest members: that one has to be free of padding (see the domain notes)
        sizes = [layout(mt, align)[0] for _, mt in members]
        first = sizes.index(max(sizes))
        if not padfree(members[first][1], align):
            T["members"] = [("raw", t_array(t_int("uint8"), max(sizes)))] + members
    return nested, T


def text_of(nested, T):
    out = []
    for ty in nested + [T]:
        kw = "union" if ty["union"] else "struct"
        out.append(f"{kw} {ty['t']} {{ {' '.join(decl(mt, mn) for mn, mt in ty['members'])} }};")
    return "\n".join(out)


CONTAINERS = {
    "T": None,
    "O": "struct O { uint8 pre; T t; uint16 post; };",
    "A": "struct A { T ts[2]; uint8 post; };",
    "W": "union W { T t; uint64 q; };",
}


def container_type(kind, T):
    if kind == "T":
        return T
    if kind == "O":
        return t_struct("O", [("pre", t_int("uint8")), ("t", T), ("post", t_int("uint16"))])
    if kind == "A":
        return t_struct("A", [("ts", t_array(T, 2)), ("post", t_int("uint8"))])
    return t_struct("W", [("t", T), ("q", t_int("uint64"))], union=True)


def raw_for(rnd, ty, cs, endian, align):
    """input bytes for ty with zero padding bytes: a union is filled through its written (first largest) member"""
    k = ty["k"]
    if k == "array":
        return b"".join(raw_for(rnd, ty["elem"], cs, endian, align) for _ in range(ty["n"]))
    if k != "struct":
        return rand_bytes_for(rnd, ty, cs, endian, align)
    size, _, offs = layout(ty, align)
    out = bytearray(size)
    if ty["union"]:
        sizes = [layout(mt, align)[0] for _, mt in ty["members"]]
        first = sizes.index(max(sizes))
        b = raw_for(rnd, ty["members"][first][1], cs, endian, align)
        out[:len(b)] = b
        # let a smaller member decide the leading bytes now and then (so that its value is a frequent one)
        if rnd.random() < 0.6:
            mn, mt = rnd.choice(ty["members"])
            if padfree(mt, align):
                b = raw_for(rnd, mt, cs, endian, align)
                out[:len(b)] = b
        return bytes(out)
    for (mn, mt), off in zip(ty["members"], offs):
        b = raw_for(rnd, mt, cs, endian, align)
        out[off:off + len(b)] = b
    return bytes(out)


# ------------------------------------------------------------------------------------------------ values equal to the current one

def flip_zero(v):
    return -v


def fresh_struct(cs, ty, cur, over=None):
    vals = {}
    for mn, mt in ty["members"]:
        v = getattr(cur, mn)
        if mt["k"] == "array":
            v = list(v)
        vals[mn] = v
    vals.update(over or {})
    return getattr(cs, ty["t"])(**vals)


def zero_float_paths(ty, v):
    """member names of a structure value whose float value is a zero"""
    out = []
    for mn, mt in ty["members"]:
        if mt["k"] == "float":
            x = getattr(v, mn)
            if x == 0:
                out.append(mn)
    return out


def equal_candidates(rnd, cs, ty, cur, inplace_ok, endian, align):
    """-> list of (label, thunk); thunk() performs the preparation (an in-place change) and returns the value to assign.  Every value is
    == to the member's value at the moment of the assignment."""
    k = ty["k"]
    c = []
    c.append(("the same object", lambda: cur))
    if k == "float":
        f = float(cur)
        if f == 0:
            c += [("the zero of the other sign", lambda: -f)] * 4
            c.append(("the int 0", lambda: 0))
            c.append(("False", lambda: False))
            c.append(("0.0", lambda: 0.0))
            c.append(("-0.0", lambda: -0.0))
        elif abs(f) < 2 ** 11 and f == int(f):
            c.append(("an equal int", lambda: int(f)))
            c.append(("an equal int subclass instance", lambda: MyInt(int(f))))
            if f == 1.0:
                c.append(("True", lambda: True))
        c.append(("an equal float copy", lambda: float(repr(f))))
    elif k == "int":
        n = int(cur)
        c.append(("an equal int copy", lambda: int(str(n))))
        if n in (0, 1):
            c += [("the equal bool", lambda: bool(n))] * 2
        for en, (size, signed, _) in ENUMS.items():
            lo, hi = (-(1 << (8 * size - 1)), (1 << (8 * size - 1)) - 1) if signed else (0, (1 << (8 * size)) - 1)
            if lo <= n <= hi and en != "FL":
                c.append((f"the equal member of enum {en}", lambda en=en: getattr(cs, en)(n)))
        c.append(("an equal cstruct integer", (lambda: cs.uint64(n)) if n >= 0 else (lambda: cs.int64(n))))
        c.append(("an equal int subclass instance", lambda: MyInt(n)))
    elif k == "enum":
        E = getattr(cs, ty["t"])
        n = int(cur)
        c.append(("a new member object of the same value", lambda: E(n)))
        if ty["t"] == "EA" and n == 1:
            other = "B1" if getattr(cur, "name", None) == "A1" else "A1"
            c += [(f"the alias EA.{other} of the same value", lambda: getattr(E, other))] * 2
    elif k == "char":
        b = bytes(cur)
        c.append(("a new bytes object of equal content", lambda: bytes(bytearray(b))))
        c.append(("a bytearray of equal content", lambda: bytearray(b)))
        c.append(("a memoryview of equal content", lambda: memoryview(bytes(bytearray(b)))))
    elif k == "array":
        et = ty["elem"]
        c.append(("an equal copy of the list", lambda: list(cur)))
        if et["k"] == "int":
            c.append(("an equal list holding bools / enum members", lambda: [bool(e) if e in (0, 1) else (cs.EC(int(e)) if -2 ** 31 <= e < 2 ** 31 and rnd.random() < 0.5 else e) for e in cur]))
        if et["k"] == "float":
            if any(e == 0 for e in cur):
                c += [("an equal list whose zeros have the other sign", lambda: [-e if e == 0 else e for e in cur])] * 3
            c.append(("an equal list holding ints for integral floats", lambda: [int(e) if e == e and abs(e) < 2048 and e == int(e) and e != 0 else e for e in cur]))
        if et["k"] == "struct":
            c.append(("a list of fresh equal structures", lambda: [fresh_struct(cs, et, e) for e in cur]))
            zs = [(i, mn) for i, e in enumerate(cur) for mn in zero_float_paths(et, e)]
            if zs:
                i, mn = rnd.choice(zs)
                c += [(f"an equal list whose element [{i}] is a fresh structure with .{mn} the zero of the other sign",
                       lambda i=i, mn=mn: [fresh_struct(cs, et, e, {mn: -getattr(e, mn)} if j == i else None) for j, e in enumerate(cur)])] * 3
        if inplace_ok:
            i = rnd.randrange(ty["n"])
            if et["k"] == "struct":
                sm = [(mn, mt) for mn, mt in et["members"] if mt["k"] in ("int", "float")]
                if sm:
                    mn, mt = rnd.choice(sm)
                    nv = rand_plain(rnd, mt, cs)

                    def prep(i=i, mn=mn, nv=nv):
                        setattr(cur[i], mn, nv)
                        return cur
                    c += [(f"the same list after the in-place change [{i}].{mn} = {nv!r}", prep)] * 3
            else:
                nv = rand_plain(rnd, et, cs)

                def prep(i=i, nv=nv):
                    cur[i] = nv
                    return cur

                def prep_copy(i=i, nv=nv):
                    cur[i] = nv
                    return list(cur)
                c += [(f"the same list after the in-place change [{i}] = {nv!r}", prep)] * 4
                c += [(f"an equal copy of the list after the in-place change [{i}] = {nv!r}", prep_copy)] * 2
    elif k == "struct":
        c.append(("a fresh equal structure", lambda: fresh_struct(cs, ty, cur)))
        c.append(("the structure parsed from the current one's dump", lambda: getattr(cs, ty["t"])(cur.dumps())))
        zs = zero_float_paths(ty, cur)
        if zs:
            mn = rnd.choice(zs)
            c += [(f"a fresh equal structure with .{mn} the zero of the other sign", lambda mn=mn: fresh_struct(cs, ty, cur, {mn: -getattr(cur, mn)}))] * 4
        if inplace_ok:
            sm = [(mn, mt) for mn, mt in ty["members"] if mt["k"] in ("int", "float")]
            if sm:
                mn, mt = rnd.choice(sm)
                nv = rand_plain(rnd, mt, cs)

                def prep(mn=mn, nv=nv):
                    setattr(cur, mn, nv)
                    return cur
                c += [(f"the same object after .{mn} = {nv!r} through it", prep)] * 2
    return c


# ------------------------------------------------------------------------------------------------ one history

def show(v):
    r = repr(v)
    return r if len(r) < 100 else r[:97] + "..."


def getp(x, path):
    for p in path:
        x = x[p] if isinstance(p, int) else getattr(x, p)
    return x


def ptext(var, path):
    return var + "".join(f"[{p}]" if isinstance(p, int) else f".{p}" for p in path)


ORIGINS_T = ["default", "default", "keyword", "bytes", "bytes", "bytearray", "memoryview", "stream", "read", "reads"]
ORIGINS_C = ["bytes", "bytes", "bytearray", "memoryview", "stream", "read", "reads"]


def make_instance(C, origin, raw):
    if origin == "bytes":
        return C(raw), f"{C.__name__}(bytes.fromhex({raw.hex()!r}))"
    if origin == "bytearray":
        return C(bytearray(raw)), f"{C.__name__}(bytearray.fromhex({raw.hex()!r}))"
    if origin == "memoryview":
        return C(memoryview(raw)), f"{C.__name__}(memoryview(bytes.fromhex({raw.hex()!r})))"
    if origin == "stream":
        return C(io.BytesIO(raw)), f"{C.__name__}(io.BytesIO(bytes.fromhex({raw.hex()!r})))"
    if origin == "read":
        return C.read(io.BytesIO(raw)), f"{C.__name__}.read(io.BytesIO(bytes.fromhex({raw.hex()!r})))"
    return C.reads(raw), f"{C.__name__}.reads(bytes.fromhex({raw.hex()!r}))"


def hash_of(x):
    try:
        return hash(x)
    except TypeError:
        return "unhashable"


def history(res, viol, rnd, cs, kind, T, cd0, endian, align, thorough):
    C = getattr(cs, kind)
    CT = container_type(kind, T)
    tsize, _, toffs = layout(T, align)
    csize, _, coffs = layout(CT, align)
    cd0 = {**cd0, "container": CONTAINERS[kind] or "T itself"}
    try:
        if len(C) != csize or len(cs.T) != tsize:
            viol(f"len({kind}) is {len(C)} and len(T) is {len(cs.T)}; the C layout rule gives {csize} and {tsize}", cd0)
            return
    except Exception as e:  # noqa: BLE001
        viol(f"len() raises {type(e).__name__}: {e}", cd0)
        return
    # where T sits in the container
    if kind == "T":
        prefix, base = (), 0
    elif kind == "O":
        prefix, base = ("t",), coffs[1]
    elif kind == "A":
        i = rnd.randrange(2)
        prefix, base = ("ts", i), i * tsize
    else:
        prefix, base = ("t",), 0
    origin = rnd.choice(ORIGINS_T if kind == "T" else ORIGINS_C)
    parsed = origin not in ("default", "keyword")
    cd = dict(cd0)
    steps = []
    cd["steps"] = steps
    try:
        if origin == "default":
            x = C()
            steps.append("x = T()")
            want0 = bytes(csize)
        elif origin == "keyword":
            mi = rnd.randrange(len(T["members"]))
            mn, mt = T["members"][mi]
            v0 = rand_plain(rnd, mt, cs)
            x = C(**{mn: v0})
            steps.append(f"x = T({mn}={show(v0)})")
            b = enc(mt, v0, endian, align)
            want0 = bytearray(csize)
            want0[toffs[mi]:toffs[mi] + len(b)] = b
            want0 = bytes(want0)
        else:
            for _ in range(20):
                if kind == "W":
                    # T's bytes (zero padding), random bytes up to the end of q, zero tail
                    raw = raw_for(rnd, T, cs, endian, align)
                    raw = raw + bytes(rnd.getrandbits(8) for _ in range(8 - len(raw))) + bytes(csize - max(8, len(raw)))
                else:
                    raw = raw_for(rnd, CT, cs, endian, align)
                x, text = make_instance(C, origin, raw)
                if not impl.contains_nan(impl.canon(x)):
                    break
            else:
                return
            steps.append("x = " + text)
            want0 = raw
        if has_nan(CT, x) if kind != "W" else has_nan(T, x.t):
            return
        before = x.dumps()
    except Exception as e:  # noqa: BLE001
        viol(f"making the instance ({origin}) / dumps() raises {type(e).__name__}: {e}", cd)
        return
    res.feat("v10:origin:" + origin)
    res.count((cd0["definition"], kind, origin, want0, "origin"), True)
    if before != want0:
        viol(f"{steps[0]}; x.dumps() is {before.hex()}, expected {want0.hex()}", cd)
        return
    nsteps = rnd.randint(3, 8 if thorough else 6)
    for step in range(nsteps):
        try:
            inst = getp(x, prefix)
        except Exception as e:  # noqa: BLE001
            viol(f"reading {ptext('x', prefix)} raises {type(e).__name__}: {e}", cd)
            return
        w = [3 if has_float(mt) else 1 for _, mt in T["members"]]
        mi = rnd.choices(range(len(T["members"])), weights=w)[0]
        mn, mt = T["members"][mi]
        path = prefix + (mn,)
        lo = base + toffs[mi]
        hi = lo + layout(mt, align)[0]
        try:
            cur = getattr(inst, mn)
        except Exception as e:  # noqa: BLE001
            viol(f"reading {ptext('x', path)} raises {type(e).__name__}: {e}", cd)
            return
        equal = rnd.random() < 0.8
        try:
            if equal:
                label, thunk = rnd.choice(equal_candidates(rnd, cs, mt, cur, parsed, endian, align))
                v = thunk()
            else:
                label, v = "another value", rand_plain(rnd, mt, cs)
            encv = enc(mt, v, endian, align)
        except Exception as e:  # noqa: BLE001
            viol(f"preparing a value equal to {ptext('x', path)} = {show(cur)} raises {type(e).__name__}: {e}", cd)
            return
        what = f"{ptext('x', path)} = {show(v)}  # {label}; the member held {show(cur)}" if not label.startswith(("the same", "an equal copy of the list after")) \
            else f"{ptext('x', path)} = <{label}>  # value now {show(v)}"
        steps.append(what)
        res.feat("v10:" + ("union" if T["union"] else "struct") + ":" + mt["k"] + ":" + (label.split(" after ")[0].split(" [")[0].split(" with .")[0] if equal else "other"))
        res.count((cd0["definition"], kind, tuple(steps)), True)
        try:
            setattr(getp(x, prefix), mn, v)  # the statement `x.t.m = v` evaluates x.t now (a union hands out new objects after a rebuild)
            after = x.dumps()
        except Exception as e:  # noqa: BLE001
            viol(f"{what}; then dumps(): raises {type(e).__name__}: {e}", cd)
            return
        expected = before[:lo] + encv + before[hi:]
        try:
            if has_nan(T, getp(x, prefix)):
                # a float member (in a union: any member overlapping the assigned one) is NaN now: the float writer does not keep NaN payloads
                # and NaN != NaN, so neither the dump nor == is prescribed from here on: the history ends
                res.feat("v10:history-ended-by-NaN")
                return
        except Exception as e:  # noqa: BLE001
            viol(f"after {what}: reading the members of {ptext('x', prefix)} raises {type(e).__name__}: {e}", cd)
            return
        if after != expected:
            if len(after) != csize:
                msg = f"the dump is {len(after)} bytes, len({kind}) is {csize}"
            elif after[:lo] != before[:lo] or after[hi:] != before[hi:]:
                msg = f"bytes outside the member's [{lo}:{hi}] changed"
            else:
                msg = f"the member's bytes [{lo}:{hi}] hold {after[lo:hi].hex()}, the encoding of the assigned value is {encv.hex()}"
            viol(f"after {what}: {msg} (dump before {before.hex()}, after {after.hex()}, expected {expected.hex()})", cd)
            return
        # every member of T holds what the dump holds at its bytes (a union's other members reflect the assignment)
        try:
            inst = getp(x, prefix)
        except Exception as e:  # noqa: BLE001
            viol(f"after {what}: reading {ptext('x', prefix)} raises {type(e).__name__}: {e}", cd)
            return
        nan = False
        for (on, ot), off in zip(T["members"], toffs):
            try:
                ov = getattr(inst, on)
            except Exception as e:  # noqa: BLE001
                viol(f"after {what}: reading {ptext('x', prefix + (on,))} raises {type(e).__name__}: {e}", cd)
                return
            nan = nan or has_nan(ot, ov)
            r = reflects(ot, ov, after[base + off:base + off + layout(ot, align)[0]], endian, align)
            if r:
                viol(f"after {what}: the member {ptext('x', prefix + (on,))} does not hold what the dump {after.hex()} holds at its bytes: {r}", cd)
                return
        try:
            b2 = bytes(x)
            fh = io.BytesIO()
            x.write(fh)
            if b2 != after or fh.getvalue() != after:
                viol(f"after {what}: bytes(x) is {b2.hex()}, x.write(fh) gives {fh.getvalue().hex()}, x.dumps() {after.hex()}", cd)
                return
            if not nan:
                y = C(after)
                if not impl.contains_nan(impl.canon(y)) and (not (x == y) or (x != y) or not (y == x)):
                    viol(f"after {what}: the instance is not == to the instance parsed from its dump {after.hex()}", cd)
                    return
        except Exception as e:  # noqa: BLE001
            viol(f"after {what}: bytes(x) / write / == raises {type(e).__name__}: {e}", cd)
            return
        # construction law on T itself: T(m=v) equals the default instance with m assigned
        if kind == "T" and rnd.random() < 0.6:
            try:
                made = [(f"T({mn}=v)", cs.T(**{mn: v}))]
                if mi == 0 and mt["k"] in ("int", "float", "enum"):
                    made.append(("T(v)", cs.T(v)))
                manual = cs.T()
                setattr(manual, mn, v)
                dm = manual.dumps()
                wantd = bytearray(tsize)
                wantd[toffs[mi]:toffs[mi] + len(encv)] = encv
                res.count((cd0["definition"], "construct", mn, encv), True)
                if dm != bytes(wantd):
                    viol(f"d = T(); d.{mn} = v with v = {show(v)} ({label}): d.dumps() is {dm.hex()}, expected {bytes(wantd).hex()}", cd)
                    return
                for how, b in made:
                    db = b.dumps()
                    if db != bytes(wantd):
                        viol(f"{how} with v = {show(v)} ({label}) dumps to {db.hex()}, expected {bytes(wantd).hex()}", cd)
                        return
                    if not has_nan(T, manual) and not has_nan(T, b) and (not (b == manual) or (b != manual) or not (manual == b)):
                        viol(f"{how} with v = {show(v)} ({label}) is not == to the default instance with {mn} assigned v (dumps {db.hex()} / {dm.hex()})", cd)
                        return
                    hb, hm = hash_of(b), hash_of(manual)
                    if hb != "unhashable" and hm != "unhashable" and hb != hm and not has_nan(T, manual) and not has_nan(T, b):
                        viol(f"{how} with v = {show(v)} ({label}) is == to the default instance with {mn} assigned v but hashes differently", cd)
                        return
            except Exception as e:  # noqa: BLE001
                viol(f"T({mn}=v) / T().{mn} = v with v = {show(v)} ({label}) raises {type(e).__name__}: {e}", cd)
                return
        before = after


def run(env, res, viol, rnd, reps):
    dc = impl.dc()
    thorough = env["tier"] != "quick"
    for rep in range(reps):
        endian = "<>"[rep % 2]
        align = (rep // 2) % 2 == 1
        compiled = (rep // 4) % 2 == 1
        nested, T = gen_def(rnd, align)
        text = text_of(nested, T)
        conts = "\n".join(v for v in CONTAINERS.values() if v)
        cd0 = {"definition": PRE + text + "\n" + conts, "endian": endian, "align": align, "compiled": compiled}
        try:
            cs = dc.cstruct(endian=endian)
            cs.load(PRE)
            cs.load(text, align=align, compiled=compiled)
            cs.load(conts, align=align, compiled=compiled)
        except Exception as e:  # noqa: BLE001
            viol(f"definition rejected: {type(e).__name__}: {e}", cd0)
            continue
        res.feat("v10:" + ("union" if T["union"] else "struct") + "," + ("aligned" if align else "packed") + "," + ("compiled" if compiled else "interpreted") + "," + endian)
        kinds = ["T", "T", "T"] + (["O", "A", "W"] if thorough else [rnd.choice(["O", "A", "W"])])
        if thorough:
            kinds += ["T", "T"]
        for kind in kinds:
            n0 = len(res.violations)
            history(res, viol, rnd, cs, kind, T, cd0, endian, align, thorough)
            if len(res.violations) != n0:
                break
