"""Helpers of the C13 check (harness/props/c13.py): a richer family of comments for the layout mutants, the re-declaration
probes and the load()-option history probes.  Every evaluator below takes plain data (texts, option dictionaries, names) and
returns a list of problem descriptions, so that the generator in c13.run and c13.replay share the same predicate.

Round 3: the re-declaration environments also bind names to targets without a positive byte size — zero-sized (empty struct / union,
void, zero-length array typedefs) and dynamically sized ones (structures with member-sized / null-terminated / LEB128 members, LEB128 and
null-terminated array typedefs) — and aliases of them (ZERO_NAMES, DYN_NAMES); a re-declaration may also go through the API
(`"@add_type|X|T|ref"` = cs.add_type("X", "T"), `...|obj` = cs.add_type("X", cs.resolve("T"))).
"""
from __future__ import annotations

import itertools
import re

# --------------------------------------------------------------------------------------------------------------------
# comments
# --------------------------------------------------------------------------------------------------------------------
WS = [" ", "  ", "\t", "\n", "\n\n", " \n "]
WS_NONL = [" ", "  ", "\t"]
# fragments of block comment bodies: the comment openers/closers of the other comment kind, quotes, stars and slashes, text
# that looks like definitions, newlines.  ("*/" cannot occur in a block comment; it is broken up after concatenation.)
BLOCK_FRAGS = ["//", "//", "/*", "/*", '"', "'", "*", "*", "/", "/", "\n", "\n", " ", " ", "word", "see https://example.com/spec/v2",
               "a // b", "**", "/ /", ";", "{", "}", "struct X { uint8 a; };", "typedef uint8 Y;", "#define Z 1", "\t", "=", ",",
               "[2]", "://", "''", '""', "\n * ", "\n// line", "0x10", "don't", 'say "hi"', "enum", ":", "\n#define W 2\n", "//*", "/**"]
# fragments of line comment bodies (no CR / LF, no trailing backslash)
LINE_FRAGS = ["/*", "/*", "*/", "*/", '"', "'", "//", "//", "*", "/", " ", " ", "word", "http://x//y", "/* reserved: none", "*/ int x;", ";",
              "}", "{", "struct", "#define Q 1", "''", '""', "don't", 'say "hi"', "/**/", "/* closed */", "\t", "=", ",", "typedef", "***", "///"]


def block_comment(rnd, nonl=False) -> str:
    body = "".join(rnd.choice(BLOCK_FRAGS) for _ in range(rnd.choice([0, 1, 1, 2, 3, 4, 6])))
    if nonl:
        body = body.replace("\n", " ")
    while "*/" in body:
        body = body.replace("*/", "* /")
    return "/*" + body + "*/"


def line_comment(rnd) -> str:
    """a // comment including the newline that ends it"""
    body = "".join(rnd.choice(LINE_FRAGS) for _ in range(rnd.choice([0, 1, 1, 2, 3, 4])))
    return "//" + body + "\n"


def rich_sep(rnd, need: bool, nonl: bool) -> str:
    """a separator for one token boundary: 1..4 adjacent pieces (white space, block comment, line comment).
    need: the two tokens need white space between them (a comment is removed, not replaced by a blank, so one piece of white
    space is always kept there); nonl: no newline may be introduced (inside an enum member, finding F20)."""
    pieces = []
    for _ in range(rnd.choice([1, 1, 2, 2, 3, 4])):
        r = rnd.random()
        if r < 0.25:
            pieces.append(rnd.choice(WS_NONL if nonl else WS))
        elif r < 0.75 or nonl:
            pieces.append(block_comment(rnd, nonl))
        else:
            pieces.append(line_comment(rnd))
    if need and not any(p.isspace() for p in pieces):
        pieces.insert(rnd.randint(0, len(pieces)), rnd.choice(WS_NONL if nonl else WS))
    return "".join(pieces)


def rich_between(rnd) -> str:
    """separator between two top-level definitions (always contains a newline or a blank)"""
    return rich_sep(rnd, True, False)


def comment_features(text: str) -> list[str]:
    """which of the interesting comment shapes occur in a mutant text (evidence bookkeeping only, approximate)"""
    out = []
    for m in re.finditer(r"/\*.*?\*/|//[^\n]*", text, re.DOTALL):
        c = m.group(0)
        if c.startswith("/*"):
            b = c[2:-2]
            for k, s in (("block-with-//", "//"), ("block-with-/*", "/*"), ("block-with-quote", '"'), ("block-with-quote", "'"), ("block-with-newline", "\n")):
                if s in b:
                    out.append(k)
        else:
            b = c[2:]
            for k, s in (("line-with-/*", "/*"), ("line-with-*/", "*/"), ("line-with-quote", '"'), ("line-with-quote", "'"), ("line-with-//", "//")):
                if s in b:
                    out.append(k)
    if re.search(r"\*/(/\*|//)", text):
        out.append("adjacent-comments")
    return sorted(set(out))


# --------------------------------------------------------------------------------------------------------------------
# re-declaration probes
# --------------------------------------------------------------------------------------------------------------------
SCALARS = ["uint8", "int16", "uint32", "uint64", "char", "int24", "unsigned int", "long long", "DWORD", "unsigned short", "float", "long", "BYTE", "int"]
BUILTIN_NAMES = ["uint32", "DWORD", "char", "int", "uint8", "BYTE", "WORD", "uint16", "void", "uleb128"]
# names the environment binds to targets without a positive byte size: zero-sized (empty struct / union, void, zero-length arrays) and
# dynamically sized ones (structures with member-sized / null-terminated arrays, LEB128, null-terminated array typedefs)
ZERO_NAMES = ["Z0", "Z1", "Z2", "V0", "V1", "P0", "P1", "ZA"]
DYN_NAMES = ["D0", "D1", "D2", "L0", "L1", "T0", "T1", "DA"]
LOAD_OPTS = [{}, {}, {"compiled": False}, {"compiled": True}, {"align": True}]


def _body(rnd, tag: str) -> str:
    """a member list that no environment declaration uses (member names carry `tag`)"""
    n = rnd.randint(1, 3)
    parts = []
    for i in range(n):
        t = rnd.choice(["uint8", "uint16", "uint32", "uint64", "char", "int24"])
        r = rnd.random()
        if r < 0.2:
            parts.append(f"{t} {tag}{i}[{rnd.randint(2, 5)}];")
        elif r < 0.3:
            parts.append(f"{t} *{tag}{i};")
        else:
            parts.append(f"{t} {tag}{i};")
    return " ".join(parts)


def gen_environment(rnd):
    """a list of declarations [(text, [names it binds])] covering every declaration form, in a dependency-respecting order"""
    decls = []
    sc = rnd.choice(["uint32", "uint16", "uint64", "int16", "unsigned int", "DWORD"])
    decls.append((f"typedef {sc} A1;", ["A1"]))
    decls.append(("typedef A1 A2;", ["A2"]))
    kind = rnd.choice(["struct", "union"])
    decls.append((f"{kind} S {{ {_body(rnd, 's')} }};", ["S"]))
    names = ["Q", "QQ", "QQQ"][: rnd.randint(1, 3)]
    decls.append((f"typedef {rnd.choice(['struct', 'union'])} _Q {{ {_body(rnd, 'q')} }} {', '.join(names)};", ["_Q"] + names))
    decls.append((f"typedef struct {{ {_body(rnd, 'n')} }} AN;", ["AN"]))
    decls.append((f"enum E : {rnd.choice(['uint8', 'uint16', 'uint32'])} {{ E_A = 1, E_B }};", ["E"]))
    decls.append(("flag F { F_A, F_B };", ["F"]))
    tail = [("typedef S S2;", ["S2"]), (f"typedef {kind} S S3;", ["S3"]), ("typedef E E2;", ["E2"]), ("typedef Q Q2;", ["Q2"]), ("typedef AN AN2;", ["AN2"]),
            ("typedef A2 A3;", ["A3"])]
    rnd.shuffle(tail)
    head, body = decls[:2], decls[2:]
    # targets without a positive byte size (sizeless): zero-sized and dynamically sized ones, and aliases of them
    special = []
    zk = rnd.choice(["struct", "struct", "union"])
    special.append(([(f"{zk} Z0 {{ }};", ["Z0"])], [("typedef Z0 Z1;", ["Z1"]), (f"typedef {zk} Z0 Z2;", ["Z2"])]))
    special.append(([(f"typedef void V0;", ["V0"])], [("typedef V0 V1;", ["V1"])]))
    special.append(([(f"typedef {rnd.choice(['uint8', 'uint32', 'char', 'A1', 'S'])} P0[{rnd.choice(['0', '0x0', '1 - 1'])}];", ["P0"])], [("typedef P0 P1;", ["P1"])]))
    special.append(([(f"typedef {rnd.choice(['struct', 'union'])} {{ }} ZA;", ["ZA"])], []))
    dyn_body = rnd.choice(["uint8 n; char d[n];", "uint16 k; char s[];", "uint8 n; uint16 d[n * 2]; uint8 t;", "uleb128 v;", "uint8 n; A1 d[n & 3];",
                           "wchar w[]; uint8 t;", "uint8 n; S d[n];"])
    special.append(([(f"struct D0 {{ {dyn_body} }};", ["D0"])], [("typedef D0 D1;", ["D1"]), ("typedef struct D0 D2;", ["D2"])]))
    special.append(([(f"typedef {rnd.choice(['uleb128', 'ileb128'])} L0;", ["L0"])], [("typedef L0 L1;", ["L1"])]))
    special.append(([(f"typedef {rnd.choice(['char', 'uint16', 'wchar', 'A2'])} T0[];", ["T0"])], [("typedef T0 T1;", ["T1"])]))
    special.append(([(f"typedef struct {{ uint8 n; uint8 d[n]; }} DA;", ["DA"])], []))
    rnd.shuffle(special)
    for first, later in special[: rnd.randint(3, len(special))]:
        body += first
        tail += [t for t in later if rnd.random() < 0.6]
    rnd.shuffle(body)
    rnd.shuffle(tail)
    # members of S / D0 / P0 may use A1 and S: keep S in front of the declarations that use it
    body.sort(key=lambda d: 0 if d[1] == ["S"] else 1)
    return head + body + tail[: rnd.randint(2, len(tail))]


def gen_redeclaration(rnd, cs, dc, env_names, k: int):
    """one re-declaration of a bound name: (text, form, name, 'same' | 'different', names the text introduces besides `name`).
    `cs` is an instance that holds the environment; same/different is decided by the identity of the resolved types."""
    structs = [n for n in env_names if issubclass(cs.resolve(n), dc.Structure)]
    form = rnd.choice(["alias", "alias", "alias-same", "alias-same", "tag-body", "tag-body", "tag-body", "body-name", "body-names", "anon-name", "plain", "plain", "enum",
                       "api", "api", "api-same"])
    sizeless = [n for n in env_names if n in ZERO_NAMES or n in DYN_NAMES]
    targets = env_names + BUILTIN_NAMES + sizeless
    X = rnd.choice(targets)
    zz = f"zz{k}_"
    if form in ("alias", "alias-same", "api", "api-same"):
        pool = env_names + SCALARS + BUILTIN_NAMES + sizeless
        if form.endswith("-same"):
            same = [t for t in pool if cs.resolve(t) is cs.resolve(X)]
            T = rnd.choice(same)
        else:
            T = rnd.choice(pool)
        if form.startswith("api"):
            # through the API: cs.add_type(X, "T") (a reference by name) or cs.add_type(X, <the type object T resolves to>)
            # (a reference whose chain of names leads back to X would declare a cyclic alias: the type object is passed instead)
            mode = rnd.choice(["ref", "obj"])
            n = T
            for _ in range(20):
                if n == X:
                    mode = "obj"
                n = cs.typedefs.get(n)
                if not isinstance(n, str):
                    break
            text = f"@add_type|{X}|{T}|{mode}"
            return text, "add_type", X, "same" if cs.resolve(T) is cs.resolve(X) else "different", []
        kw = ""
        if T in structs and rnd.random() < 0.4:
            kw = "union " if issubclass(cs.resolve(T), dc.Union) else "struct "
        text = f"typedef {kw}{T} {X};"
        return text, "alias", X, "same" if cs.resolve(T) is cs.resolve(X) else "different", []
    kind = rnd.choice(["struct", "struct", "union"])
    if form == "tag-body":
        fresh = [f"N{k}a", f"N{k}b", f"N{k}c"][: rnd.randint(1, 3)]
        return f"typedef {kind} {X} {{ {_body(rnd, zz)} }} {', '.join(fresh)};", form, X, "different", fresh
    if form == "body-name":
        return f"typedef {kind} _N{k} {{ {_body(rnd, zz)} }} {X};", form, X, "different", [f"_N{k}"]
    if form == "body-names":
        fresh = [f"N{k}a", f"N{k}b"][: rnd.randint(1, 2)]
        allnames = fresh + [X]
        rnd.shuffle(allnames)
        return f"typedef {kind} _N{k} {{ {_body(rnd, zz)} }} {', '.join(allnames)};", form, X, "different", [f"_N{k}"] + fresh
    if form == "anon-name":
        return f"typedef {kind} {{ {_body(rnd, zz)} }} {X};", form, X, "different", []
    if form == "plain":
        return f"{kind} {X} {{ {_body(rnd, zz)} }};", form, X, "different", []
    base = rnd.choice(["", " : uint8", " : uint16"])
    return f"{rnd.choice(['enum', 'flag'])} {X}{base} {{ {zz}A = 1, {zz}B = {rnd.randint(2, 9)} }};", "enum", X, "different", []


def _partition(objs: dict) -> tuple:
    return tuple(sorted((a, b) for a, b in itertools.combinations(sorted(objs), 2) if objs[a] is objs[b]))


def eval_redeclaration(dc, describe, env_loads, probe_text, probe_opts, expect, names, new_names, same_text: bool):
    """env_loads: [(text, opts)], the environment; then the re-declaration `probe_text` (in a further load() call, or — same_text —
    appended to the last environment text).  Returns (problems, outcome)."""
    problems = []
    ref = dc.cstruct()
    for text, opts in env_loads:
        ref.load(text, **opts)
    ref_objs = {n: ref.resolve(n) for n in names}
    ref_desc = {n: describe(ref_objs[n]) for n in names}
    ref_part = _partition(ref_objs)
    if same_text and not probe_text.startswith("@"):
        cs = dc.cstruct()
        loads = list(env_loads[:-1]) + [(env_loads[-1][0] + "\n" + probe_text, env_loads[-1][1])]
        before = None
    else:
        cs = ref
        loads = [(probe_text, probe_opts)]
        before = ref_objs
    outcome = "accepted"
    try:
        for text, opts in loads:
            if text.startswith("@add_type|"):
                _, X, T, mode = text.split("|")
                probe_text = f"cs.add_type({X!r}, " + (repr(T) if mode == "ref" else f"cs.resolve({T!r})") + ")"
                cs.add_type(X, T if mode == "ref" else cs.resolve(T))
            else:
                cs.load(text, **opts)
    except Exception as e:  # noqa: BLE001
        outcome = f"rejected:{type(e).__name__}"
    if expect == "different" and outcome == "accepted":
        problems.append(f"re-declaring a bound name with a different target is accepted: {probe_text!r}")
    if expect == "same" and outcome != "accepted":
        problems.append(f"re-declaring a name with the very same target is refused ({outcome[9:]}): {probe_text!r}")
    # whatever the outcome: every name of the environment still resolves to the very same type as before
    now = {}
    for n in names:
        try:
            now[n] = cs.resolve(n)
        except Exception as e:  # noqa: BLE001
            problems.append(f"after the re-declaration {probe_text!r} ({outcome}) the name {n} no longer resolves ({type(e).__name__})")
            return problems, outcome
    if before is not None:
        changed = [n for n in names if now[n] is not before[n]]
        if changed:
            problems.append(f"after the re-declaration {probe_text!r} ({outcome}) {changed} resolve to another type object than before")
    changed = [n for n in names if describe(now[n]) != ref_desc[n]]
    if changed:
        problems.append(f"after the re-declaration {probe_text!r} ({outcome}) the types of {changed} differ from the ones declared first")
    if _partition(now) != ref_part:
        problems.append(f"after the re-declaration {probe_text!r} ({outcome}) the names that denote the very same type changed: "
                        f"{sorted(set(ref_part) ^ set(_partition(now)))}")
    if outcome == "accepted" and new_names:
        # the names one (struct) typedef introduces are aliases of one type
        objs = []
        for n in new_names:
            try:
                objs.append(cs.resolve(n))
            except Exception:  # noqa: BLE001
                problems.append(f"{probe_text!r} was accepted but its name {n} does not resolve")
                return problems, outcome
        if any(o is not objs[0] for o in objs):
            problems.append(f"the names {new_names} introduced by one typedef {probe_text!r} do not resolve to the very same type")
    return problems, outcome


# --------------------------------------------------------------------------------------------------------------------
# load() option histories
# --------------------------------------------------------------------------------------------------------------------
OPTION_SETS = [{}, {}, {"align": True}, {"align": True}, {"compiled": False}, {"align": True, "compiled": False}, {"compiled": True}, {"align": False},
               {"align": False, "compiled": False}]
FAILING_LOADS = ["typedef nosuchtype ZZ1;", "struct ZZ2 { nosuchtype a; };", "struct ZZ3 { uint8 a; ", "typedef uint8 uint16;"]


def eval_option_history(dc, signature, groups, order, probe: bytes):
    """groups: [(text, opts, names)] — definition sets that do not refer to each other, each with its own load() options.
    order: the history on one instance: indices into groups, or strings (texts whose load() fails, ignored).
    Every group must end up with the signature it has when loaded with its own options into a fresh instance."""
    problems = []
    want = []
    for text, opts, names in groups:
        c = dc.cstruct()
        c.load(text, **opts)
        want.append(signature(c, names, probe, dc))
    cs = dc.cstruct()
    for step in order:
        if isinstance(step, str):
            try:
                cs.load(step)
            except Exception:  # noqa: BLE001
                pass
            continue
        text, opts, names = groups[step]
        try:
            cs.load(text, **opts)
        except Exception as e:  # noqa: BLE001
            problems.append((step, f"load() #{order.index(step) + 1} of the history (options {opts}) is rejected ({type(e).__name__}: {e}) "
                                   f"although the definition loads into a fresh instance", "", ""))
            return problems
    for gi, (text, opts, names) in enumerate(groups):
        got = signature(cs, names, probe, dc)
        if got != want[gi]:
            i = next((j for j in range(min(len(want[gi]), len(got))) if want[gi][j] != got[j]), 0)
            problems.append((gi, f"a definition loaded with options {opts} as load() #{order.index(gi) + 1} of a history with other options "
                                 f"differs from the same definition loaded with these options into a fresh instance",
                             want[gi][max(0, i - 150): i + 150], got[max(0, i - 150): i + 150]))
    return problems
