"""u1: C01 probe family "every array form x every scalar element type of the built-in table".

The random definition generator (defs.Gen) draws array element types from short hand-picked lists; most combinations of an
array FORM (fixed / expression / null-terminated / to-end-of-stream, one and two dimensional) with an ELEMENT TYPE (every
entry of the library's built-in type table - the canonical types and every alias - and an enum and a flag over every integer
type of the table) never occur, although every type class has its own `_read_array` / `_read_0` / `_write_array` /
`_write_0` with their own fast paths per form.  This module enumerates the product:

  element types   read off the live `cstruct().typedefs` table (so a new table entry is picked up without editing this file),
                  plus `enum EN_<int type>` / `flag FL_<int type>` over every integer entry;
  forms           a[k], a[<expression over an earlier member / constants>], a[], a[EOF], a[k][2], a[EOF][2];
  positions       as a member  struct { <count> n; ELEM a[..]; <tail>; }  (the to-end-of-stream forms as last member) and as a
                  stand-alone array type (typedef ELEM name[..]; and cs.resolve(ELEM)[..]);
  values          (a) parsed from valid-by-construction bytes in which most elements have their most significant bit set (sign
                  bit of signed integers, enums over them, floats; high code units; LEB128 continuation and sign bits),
                  (b) constructed directly from Python values at the edges of the element type.

The property's predicate itself is evaluated by the caller (props/c01.py); this module only generates.
"""
from __future__ import annotations

import random

from . import defs, impl, refimpl
from .common import A

S = lambda n: ("sc", n)  # noqa: E731


def F(name, ty, bits=None):
    return {"name": name, "ty": ty, "bits": bits}


FORMS = ["fixed", "expr", "null", "eof", "fixed2d", "eof2d"]
ENUMS: dict[str, tuple] = {}      # name -> (kind, base, members); filled by table()
_TABLE: dict[str, str] = {}


def table() -> dict[str, str]:
    """{type name: canonical name} of every scalar entry of the built-in type table (void aside), read off the live library"""
    if not _TABLE:
        cs = impl.dc().cstruct()
        for name in cs.typedefs:
            c = name
            for _ in range(10):
                if not isinstance(cs.typedefs.get(c), str):
                    break
                c = cs.typedefs[c]
            if c in refimpl.SC and c != "void":
                _TABLE[name] = c
        for b, c in _TABLE.items():
            if b != c or refimpl.SC[c][0] != "int":
                continue
            _, size, signed, _ = refimpl.SC[c]
            hi = (1 << (8 * size - 1)) - 1 if signed else (1 << (8 * size)) - 1
            ENUMS[f"EN_{b}"] = ("enum", b, [("A", 1), ("B", 2), ("M", -1 if signed else hi)])
            ENUMS[f"FL_{b}"] = ("flag", b, [("X", 1), ("Y", 2), ("T", 1 << (8 * size - 2))])
    return _TABLE


def preamble() -> str:
    table()
    out = []
    for name, (kind, base, members) in ENUMS.items():
        out.append(f"{kind} {name} : {base} {{ " + ", ".join(f"{name}_{m} = {v}" for m, v in members) + " };")
    return "\n".join(out) + "\n"


def info(elem):
    """-> (kind, size, signed, alignment, is_flag) of an element descriptor; kind in int/flt/char/wchar/leb/enum"""
    t = table()
    if elem[0] == "enum":
        kind, base, _ = ENUMS[elem[1]]
        _, size, signed, al = refimpl.SC[t[base]]
        return "enum", size, signed, al, kind == "flag"
    k, size, signed, al = refimpl.SC[t[elem[1]]]
    return k, size, signed, al, False


def elements(rnd: random.Random, tier: str):
    """element descriptors: every canonical type, an enum and a flag over every integer type, every alias of a one byte type,
    and (quick: a sample of / thorough: all) the remaining aliases"""
    t = table()
    canon = [S(n) for n, c in t.items() if n == c]
    enums = [("enum", n) for n in ENUMS]
    alias1 = [S(n) for n, c in t.items() if n != c and refimpl.SC[c][1] == 1]
    rest = [S(n) for n, c in t.items() if n != c and refimpl.SC[c][1] != 1]
    if tier == "quick":
        rest = rnd.sample(rest, 20)
    return canon + enums + alias1 + rest


# ------------------------------------------------------------------------------------------------ definitions

EXPRS = [("n", 0), ("n & 7", 0), ("n * 1", 0), ("K2 + n - 2", 0), ("n - 1", 1), ("(n)", 0)]   # (text, n - length)


def member_tree(rnd: random.Random, elem, form):
    """-> (tree, plan) for  struct { CT n; ELEM a<form>; [TT tail;] }"""
    ct = rnd.choice(["uint8", "uint8", "uint16", "int8", "uint32"])
    plan = {"form": form, "ct": ct, "k": rnd.randint(1, 4), "expr": None, "tail": None}
    if form == "fixed":
        ty = ("arr", elem, ("fixed", plan["k"]))
    elif form == "expr":
        plan["expr"] = rnd.choice(EXPRS)
        ty = ("arr", elem, ("expr", plan["expr"][0]))
    elif form == "null":
        ty = ("arr", elem, ("null",))
    elif form == "eof":
        ty = ("arr", elem, ("eof",))
    elif form == "fixed2d":
        ty = ("arr", ("arr", elem, ("fixed", 2)), ("fixed", plan["k"]))
    elif form == "eof2d":
        ty = ("arr", ("arr", elem, ("fixed", 2)), ("eof",))
    else:
        raise ValueError(form)
    fields = [F("n", S(ct)), F("a", ty)]
    if form not in ("eof", "eof2d"):
        plan["tail"] = rnd.choice(["uint8", "uint16", "int8"])
        fields.append(F("tail", S(plan["tail"])))
    return ("struct", fields), plan


def ty_sexp(tree, T, aligned):
    """impl.real_ty_sexp for trees that mention this module's enums"""
    k = tree[0]
    if k == "enum" and tree[1] in ENUMS:
        kind, base, _ = ENUMS[tree[1]]
        return [A(kind), base]
    if k in ("sc", "enum"):
        return impl.real_ty_sexp(tree, T, aligned)
    if k == "ptr":
        return [A("ptr"), ty_sexp(tree[1], T.type, aligned)]
    if k == "arr":
        l = tree[2]
        ls = {"fixed": lambda: [A("fixed"), l[1]], "expr": lambda: [A("expr"), l[1]], "null": lambda: A("null"), "eof": lambda: A("eof")}[l[0]]()
        return [A("arr"), ty_sexp(tree[1], T.type, aligned), ls]
    fs = []
    for f, rf in zip(tree[1], T.__fields__):
        fs.append([A("f"), rf._name, 1 if f["name"] is None else 0, ty_sexp(f["ty"], rf.type, aligned), f["bits"] or 0])
    return [A(k), 1 if aligned else 0, fs]


# ------------------------------------------------------------------------------------------------ bytes

TOP = [0x80, 0xFF, 0xFE, 0x81, 0xC0]
LOW = [0x7F, 0x01, 0x00, 0x40]
ANY = [0x00, 0x01, 0x7F, 0x80, 0xFF, 0xFE]


def elem_bytes(rnd: random.Random, elem, endian: str, *, nonzero=False) -> tuple[bytes, bool]:
    """one valid encoding of an element, most of the time with its most significant bit set -> (bytes, top bit set)"""
    kind, size, signed, _, _ = info(elem)
    top = rnd.random() < 0.75
    if kind == "leb":
        body = bytes(0x80 | rnd.randrange(128) for _ in range(rnd.choice([0, 0, 1, 2, 4, 9])))
        last = rnd.randrange(1 if nonzero else 0, 64) | (0x40 if top else 0)
        return body + bytes([last]), top or bool(body)
    if kind == "flt":
        msb = rnd.choice([0x80, 0xBF, 0xC0, 0xFB] if top else [0x3F, 0x40, 0x00, 0x7B])
    elif kind == "wchar":
        msb = rnd.choice([0x80, 0xFF, 0xE0, 0xAC] if top else [0x00, 0x20, 0x4E])
    else:
        msb = rnd.choice(TOP if top else LOW)
    rest = [rnd.choice(ANY) if rnd.random() < 0.7 else rnd.randrange(256) for _ in range(size - 1)]
    be = [msb] + rest
    if nonzero and not any(b & 0x7F for b in be):   # also no negative float zero: it compares equal to the terminator
        be[-1] |= 1
    return bytes(be if endian == ">" else reversed(be)), top


def enc_int(v: int, size: int, endian: str) -> bytes:
    return (v % (1 << (8 * size))).to_bytes(size, "big" if endian == ">" else "little")


def pad(out: bytearray, rnd, al: int):
    while len(out) % al:
        out.append(rnd.choice([0, 0xFF, 0x80, 0xCC]))


def element_run(rnd, elem, form, endian, n):
    """n elements (for the two dimensional forms n rows of 2) [+ terminator] -> (bytes, number of elements with the top bit set)"""
    nz = form == "null"
    per = 2 if form in ("fixed2d", "eof2d") else 1
    out, ntop = bytearray(), 0
    for _ in range(n * per):
        b, t = elem_bytes(rnd, elem, endian, nonzero=nz)
        out += b
        ntop += t
    if nz:
        size = info(elem)[1]
        out += bytes(size if size is not None else 1)
    return bytes(out), ntop


def member_input(rnd: random.Random, elem, plan, endian: str, align: bool):
    """valid-by-construction input for member_tree's structure -> (bytes, elements with the top bit set, tail padding free)
    In an aligned structure that ends in a to-end-of-stream array the element count is chosen so that the structure ends on
    a multiple of its alignment (otherwise the dump gets tail padding: known finding F30); when no such count exists the
    third component is False."""
    _, esize, _, eal, _ = info(elem)
    _, csize, _, cal = refimpl.sc(plan["ct"])
    form = plan["form"]
    n = plan["k"] if form in ("fixed", "fixed2d") else rnd.choice([1, 2, 2, 3, 3, 4, 5, 7])
    nval = n + plan["expr"][1] if form == "expr" else rnd.choice([n, 0x80, 0xFF, 1])
    if form == "expr" and plan["expr"][0] == "n & 7" and rnd.random() < 0.5 and csize == 1 and plan["ct"] != "int8":
        nval += 0x80 + 8 * rnd.randrange(8)
    out = bytearray(enc_int(nval, csize, endian))
    if align:
        pad(out, rnd, eal)
    salign = max(cal, eal)
    aligned_end = True
    if form in ("eof", "eof2d") and align:
        per = (2 if form == "eof2d" else 1)
        if esize is not None:
            n = next((m for m in [n, n + 1, n + 2, n + 3, 4, 8] if (len(out) + m * per * esize) % salign == 0), None)
            if n is None:
                n, aligned_end = 4, False
    body, ntop = element_run(rnd, elem, form, endian, n)
    if form in ("eof", "eof2d") and align and esize is None:
        for _try in range(12):
            if (len(out) + len(body)) % salign == 0:
                break
            more, t = element_run(rnd, elem, form, endian, 1)
            body += more
            ntop += t
        aligned_end = (len(out) + len(body)) % salign == 0
    out += body
    if plan["tail"]:
        _, tsize, _, tal = refimpl.sc(plan["tail"])
        if align:
            pad(out, rnd, tal)
            salign = max(salign, tal)
        out += bytes(rnd.choice(TOP) for _ in range(tsize))
        if align:
            pad(out, rnd, salign)
    return bytes(out), ntop, aligned_end


# ------------------------------------------------------------------------------------------------ constructed values

def edge_values(rnd: random.Random, elem, *, nonzero=False):
    """Python values at the edges of the element type (flags over signed types: non-negative only - IntFlag folds negative
    values, C12's finding F22)"""
    kind, size, signed, _, is_flag = info(elem)
    if kind in ("int", "enum"):
        bits = 8 * size
        if signed and not is_flag:
            vs = [-(1 << (bits - 1)), -(1 << (bits - 1)) + 1, -1, -2, 0, 1, (1 << (bits - 1)) - 2, (1 << (bits - 1)) - 1]
        elif signed:
            vs = [0, 1, 2, 3, (1 << (bits - 2)), (1 << (bits - 1)) - 1]
        else:
            vs = [0, 1, (1 << (bits - 1)) - 1, 1 << (bits - 1), (1 << bits) - 2, (1 << bits) - 1]
    elif kind == "flt":
        vs = [-1.5, 0.0, 1.0, -1024.0, 65504.0 if size == 2 else 2.0 ** 127 if size == 4 else -(2.0 ** 1000), 2.0 ** -14, -0.5]
    elif kind == "leb":
        vs = [0, 1, 63, 64, 127, 128, 300, 1 << 40] + ([-1, -64, -65, -128, -(1 << 40)] if signed else [])
    elif kind == "char":
        vs = [0x80, 0xFF, 0x01, 0x7F, 0x00, 0x41]
    else:  # wchar
        vs = [0x8000, 0xFFFF, 0x41, 0xE000, 0x00, 0x20AC]
    if nonzero:
        vs = [v for v in vs if v]
    return vs


def constructed(rnd: random.Random, cs, elem, form, n: int):
    """a value for ELEM a<form> with n elements (rows), built from Python values: list (of lists) / bytes / str; integer and
    float elements are plain Python numbers or instances of the element type; -> value, or None when the element type refuses
    one of the edge values"""
    kind = info(elem)[0]
    per = 2 if form in ("fixed2d", "eof2d") else 1
    pool = edge_values(rnd, elem, nonzero=form == "null")
    flat = [rnd.choice(pool) for _ in range(n * per)]
    if kind in ("int", "flt", "enum") and n * per >= 2:
        flat[0], flat[-1] = pool[0], pool[-1]   # the extreme values are always among them
    et = cs.resolve(elem[1])
    wrap = kind in ("enum", "flt") or (kind == "int" and rnd.random() < 0.5)   # (a plain Python float has no width)
    try:
        if kind == "char":
            rows = [bytes(flat[i: i + per]) for i in range(0, len(flat), per)]
            return rows if per == 2 else bytes(flat)
        if kind == "wchar":
            rows = ["".join(map(chr, flat[i: i + per])) for i in range(0, len(flat), per)]
            return rows if per == 2 else "".join(map(chr, flat))
        vals = [et(v) if wrap else v for v in flat]
        if any(int(getattr(x, "value", x)) != v for x, v in zip(vals, flat) if kind != "flt"):
            return None
    except Exception:  # noqa: BLE001
        return None
    if per == 2:
        return [vals[i: i + 2] for i in range(0, len(vals), 2)]
    return vals


# ------------------------------------------------------------------------------------------------ stand-alone array types

def standalone_types(rnd: random.Random, sess: impl.Session, elem, tag: str):
    """[(form, type, text)] stand-alone array types of ELEM on the session's instance: by typedef and through the API"""
    m = impl.dc()
    cs = sess.cs
    name = elem[1]
    k = rnd.randint(1, 4)
    text = (f"typedef {name} {tag}_fix[{k}]; typedef {name} {tag}_null[]; typedef {name} {tag}_eof[EOF]; typedef {name} {tag}_2d[{k}][2]; "
            f"typedef {name} {tag}_e2d[EOF][2];")
    out = []
    try:
        sess.load_text(text)
        out += [("fixed", getattr(cs, f"{tag}_fix"), f"cs.{tag}_fix", k), ("null", getattr(cs, f"{tag}_null"), f"cs.{tag}_null", None),
                ("eof", getattr(cs, f"{tag}_eof"), f"cs.{tag}_eof", None), ("fixed2d", getattr(cs, f"{tag}_2d"), f"cs.{tag}_2d", k),
                ("eof2d", getattr(cs, f"{tag}_e2d"), f"cs.{tag}_e2d", None)]
    except Exception:  # noqa: BLE001
        pass
    et = cs.resolve(name)
    k2 = rnd.randint(1, 4)
    out.append(("fixed", et[k2], f"cs.resolve({name!r})[{k2}]", k2))
    out.append(("null", et[None], f"cs.resolve({name!r})[None]", None))
    out.append(("eof", et[m.expression.Expression(cs, "EOF")] if _expr_takes_cs() else et[m.expression.Expression("EOF")],
                f"cs.resolve({name!r})[Expression('EOF')]", None))
    out.append(("expr", et[m.expression.Expression(cs, "K2 + 1")] if _expr_takes_cs() else et[m.expression.Expression("K2 + 1")],
                f"cs.resolve({name!r})[Expression('K2 + 1')]", 3))
    return out


def _expr_takes_cs() -> bool:
    import inspect

    return "cstruct" in inspect.signature(impl.dc().expression.Expression.__init__).parameters
