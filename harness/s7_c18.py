"""Helpers for the C18 check: observing the *reader itself* of a structure class and its behaviour away from offset 0.

`reader_sig(T)`      what kind of reader the class carries: the `__compiled__` flag, whether `_read` is the generic interpreted
                     loop, and for a generated reader its source with the `_N` type tokens renumbered in order of first use, the
                     types the tokens are bound to, and the plan `srcplan.parse_source` extracts from the source.
`reader_diff(a, b)`  None if two signatures describe the same reader, else a short text naming the first difference.
`observations(...)`  parse results of a class from several start positions of a stream (0, odd positions), as the member of a
                     packed outer structure behind an odd number of bytes, and as the element of an array read from an odd
                     position; plus what the writer puts into a stream that is not at position 0.
`behaviour(...)`     instance behaviour: ==, hash, bool, positional construction, repr for objects that differ in a single byte.
`rebuild(...)`       the structure declared in one piece from the field list (names, types, bit widths) of an existing class.
"""
from __future__ import annotations

import io
import re

from . import impl, srcplan

POSITIONS = (0, 1, 3)


# ------------------------------------------------------------------------------------------------ the reader itself

def norm_source(src: str):
    """-> (source with the `_N` tokens renumbered in order of first appearance, the original tokens in that order)"""
    order: list[str] = []

    def sub(m):
        t = m.group(0)
        if t not in order:
            order.append(t)
        return f"_T{order.index(t)}"

    return re.sub(r"(?<![A-Za-z0-9_\]\)\"])_\d+\b", sub, src), order


def type_desc(t):
    try:
        size = t.size
    except Exception:  # noqa: BLE001
        size = "?"
    return (getattr(t, "__name__", repr(t)), size, getattr(t, "alignment", None))


def reader_sig(T) -> dict:
    from dissect.cstruct.types.structure import StructureMetaType

    fn = getattr(T._read, "__func__", T._read)
    sig = {"compiled": bool(T.__compiled__), "interpreted_loop": fn is StructureMetaType._read, "source": None, "tokens": None, "plan": None}
    src = getattr(fn, "__source__", None)
    if src is not None:
        ns, order = norm_source(src)
        sig["source"] = ns
        g = getattr(fn, "__globals__", {})
        sig["tokens"] = [type_desc(g[t]) if t in g else ("unbound", t) for t in order]
        try:
            sig["plan"] = srcplan.parse_source(src)
        except srcplan.Unknown as e:
            sig["plan"] = ("unparsed", str(e))
        except Exception as e:  # noqa: BLE001
            sig["plan"] = ("unparsed", f"{type(e).__name__}: {e}")
    return sig


def _plan_brief(plan):
    out = []
    for ins in plan:
        if ins[0] == "block":
            out.append(("block", ins[1], ins[2], [(s["name"], s["src"], s["decode"], s["size"]) for s in ins[3]]))
        else:
            out.append(ins)
    return out


def reader_diff(want: dict, got: dict, requested: bool):
    """`want`: the one-shot class, `got`: the class under test, `requested`: compilation was asked for"""
    if got["compiled"] != want["compiled"]:
        return f"__compiled__ is {got['compiled']}, the one-shot structure has {want['compiled']}"
    if not requested and (got["compiled"] or not got["interpreted_loop"]):
        return "compilation was not requested but the class does not carry the interpreted reader"
    if got["compiled"] == got["interpreted_loop"]:
        return f"__compiled__ is {got['compiled']} but _read is{'' if got['interpreted_loop'] else ' not'} the interpreted loop"
    if got["interpreted_loop"] != want["interpreted_loop"]:
        return f"reader kind differs: interpreted loop {got['interpreted_loop']} vs one-shot {want['interpreted_loop']}"
    if got["source"] != want["source"]:
        if isinstance(got["plan"], list) and isinstance(want["plan"], list):
            gp, wp = _plan_brief(got["plan"]), _plan_brief(want["plan"])
            for i in range(max(len(gp), len(wp))):
                a = gp[i] if i < len(gp) else None
                b = wp[i] if i < len(wp) else None
                if a != b:
                    return f"compiled reader differs from the one-shot one at plan step {i}: {a} vs one-shot {b}"
        gl, wl = (got["source"] or "").split("\n"), (want["source"] or "").split("\n")
        for i in range(max(len(gl), len(wl))):
            a = gl[i].strip() if i < len(gl) else None
            b = wl[i].strip() if i < len(wl) else None
            if a != b:
                return f"generated reader source differs from the one-shot one at line {i}: {a!r} vs one-shot {b!r}"
    if got["tokens"] != want["tokens"]:
        return f"generated reader binds its type tokens to {got['tokens']}, the one-shot one to {want['tokens']}"
    if got["plan"] != want["plan"]:
        return f"plan of the generated reader {got['plan']} differs from the one-shot plan {want['plan']}"
    return None


# ------------------------------------------------------------------------------------------------ reads away from 0

def summ(r, inner=None):
    """impl.parse result -> comparable summary"""
    if r[0] != "ok":
        return ("err", r[1])
    v = r[1]
    c = impl.canon(v)
    try:
        d = v.dumps() if hasattr(v, "dumps") and not impl.contains_nan(c) else None
    except Exception as e:  # noqa: BLE001
        d = "dumps raises " + impl.err_class(e)
    sizes = None
    tgt = v
    if inner:
        tgt = getattr(v, inner, None)
    if isinstance(tgt, list):
        sizes = [sorted((k, s) for k, s in getattr(x, "_sizes", {}).items() if s) for x in tgt]
    elif hasattr(tgt, "_sizes"):
        sizes = sorted((k, s) for k, s in tgt._sizes.items() if s)
    return ("ok", c, r[2], d, sizes)


def same_summ(w, g) -> bool:
    if w[0] != g[0]:
        return False
    if w[0] == "err":
        return w[1] == g[1]
    return impl.same_val(w[1], g[1]) and w[2:] == g[2:]


def outer_of(cs, T, k, compiled):
    """packed outer structure that puts T behind k bytes"""
    from dissect.cstruct import compiler
    from dissect.cstruct.types.structure import Field

    O = cs._make_struct(f"Outer{k}", [Field("pad", cs.uint8[k]), Field("t", T), Field("tail", cs.uint8)], align=False)
    return compiler.compile(O) if compiled else O


def observations(cs, T, data: bytes, prefix: bytes, compiled: bool, positions=POSITIONS, outer=(1, 3), array_pos=(1,)):
    """-> [(label, summary)]; `data` are the bytes of the structure, `prefix` supplies what precedes it"""
    out = []
    for p in positions:
        out.append((f"stream position {p}", summ(impl.parse(T, prefix[:p] + data, p))))
    for k in outer:
        try:
            O = outer_of(cs, T, k, compiled)
        except Exception as e:  # noqa: BLE001
            out.append((f"member of a packed structure at offset {k}", ("err", "outer:" + impl.err_class(e))))
            continue
        out.append((f"member of a packed structure at offset {k}", summ(impl.parse(O, prefix[:k] + data + b"\x5a", 0), inner="t")))
    for p in array_pos:
        try:
            AT = T[2]
        except Exception as e:  # noqa: BLE001
            out.append((f"element of T[2] read at stream position {p}", ("err", "array:" + impl.err_class(e))))
            continue
        out.append((f"element of T[2] read at stream position {p}", summ(impl.parse(AT, prefix[:p] + data + data[::-1] + data, p))))
    return out


def written(T, obj, positions=(1, 3)):
    """what the writer puts into a stream that already holds some bytes"""
    out = []
    for p in positions:
        s = io.BytesIO(b"\xaa" * p)
        s.seek(p)
        try:
            n = T._write(s, obj)
            out.append((p, n, s.getvalue()))
        except Exception as e:  # noqa: BLE001
            out.append((p, "err", impl.err_class(e)))
    return out


def behaviour(T, data: bytes, flips):
    """instance behaviour that the generated methods implement; -> comparable list"""
    out = []
    r = impl.parse(T, data)
    if r[0] != "ok":
        return [("parse", r[1])]
    a = r[1]

    def tryit(f):
        try:
            return f()
        except Exception as e:  # noqa: BLE001
            return "raises " + type(e).__name__

    out.append(("bool", tryit(lambda: bool(a)), "repr", tryit(lambda: re.sub(r" object at 0x[0-9a-fA-F]+", " object", repr(a))), "len", tryit(lambda: len(a))))
    out.append(("written", written(T, a)))
    vals = [getattr(a, f._name) for f in T.__fields__]
    b = tryit(lambda: T(*vals))
    out.append(("positional", tryit(lambda: a == b), tryit(lambda: b.dumps() == a.dumps())))
    for j in flips:
        if j >= len(data):
            continue
        d2 = data[:j] + bytes([data[j] ^ 0x55]) + data[j + 1:]
        r2 = impl.parse(T, d2)
        if r2[0] != "ok":
            out.append(("flip", j, r2[1]))
            continue
        c = r2[1]
        ha, hc = tryit(lambda: hash(a)), tryit(lambda: hash(c))
        out.append(("flip", j, tryit(lambda: a == c), tryit(lambda: a != c),
                    (ha == hc) if isinstance(ha, int) and isinstance(hc, int) else (ha, hc), tryit(lambda: bool(c))))
    return out


def rebuild(cs, T, compiled: bool, name=None):
    """the structure with T's field list (names, types, bit widths; no offsets) declared in one piece"""
    from dissect.cstruct import compiler
    from dissect.cstruct.types.structure import Field

    R = cs._make_struct(name or T.__name__, [Field(f.name, f.type, bits=f.bits) for f in T.__fields__], align=T.__align__)
    return compiler.compile(R) if compiled else R
