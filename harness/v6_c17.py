"""C17 probe (agent v6): assignment with every value kind a field's writer accepts; members whose type brings its own `==` / hash.

Both families work on definition trees (harness/defs.py form) whose byte image is computed HERE, from the C layout rule and the
standard encodings (two's complement integers in the instance's byte order, IEEE floats, latin-1 for char, UTF-16 in the
instance's byte order for wchar, bit-fields filled from the least significant bit of their unit for little endian and from the
most significant for big endian, zero padding): `image(fields, values)` is what dumps() of an instance holding `values` has to be.
Every definition is loaded packed / aligned, compiled / interpreted, little / big endian, with a 2 / 4 / 8 byte pointer.

(a) VALUE KINDS (`run_values`).  Flat fixed-size structures of 2..7 members: integers of 1..16 bytes, bit-field runs over integer
and enum storage types, enums / a flag, char, char[k], wchar, wchar[k], float16 / float / double, pointers, integer arrays.  The
other probes of C17 assign values of the field's own kind (what the reader returns).  Here every field is given, one at a time,
each of the Python value kinds that the type's writer encodes on the unmodified library:
    char      : bytes of length 1, bytearray, the char type's own instance, int 0..255 (also as bool, int subclass, member of a
                Python IntEnum, member of a cstruct enum, instance of a cstruct integer type), str of one latin-1 character;
                ALL 256 character codes as int, as str and as bytes by attribute assignment, by keyword and positionally
    char[k]   : bytes, bytearray, memoryview, the array type's own instance, str of latin-1 characters, list of ints
    wchar, wchar[k] : str, str subclass, the type's own instance (characters of the basic plane in both byte orders)
    integers, bit-fields : int, bool, int subclass, Python IntEnum member, cstruct enum member, instance of another cstruct integer
                type
    enums, enum bit-fields : the member by value (named or not), by name, a composed flag; a plain int / bool is tried as well:
                the unmodified library's writer rejects it at dumps() (AttributeError: no `.value`), which is counted, not an
                alarm - if a library accepts it the laws below apply to it too
    floats    : float, float subclass, int, bool, int subclass, IntEnum member, instances of the cstruct float types
    pointers  : int, bool, int subclass, IntEnum member, cstruct integer instance, a Pointer obtained by pointer arithmetic
    integer arrays : lists whose elements are drawn from the integer kinds above
three ways: attribute assignment on a parsed instance, keyword construction, positional construction (behind own-kind values for
the preceding fields).  Oracle (the property's last sentence and its construction sentence, on the observable behaviour):
  * the operation and dumps() succeed (an exception is a violation for the kinds listed as accepted);
  * dumps() after `y.f = v` is len(T) bytes long, equals the dump before outside the byte range (bit-fields: the bits) of f, and
    holds there the standard encoding of the value v denotes (latin-1 for char): in short it equals image(values with f := v);
  * T(f=v) / T(v0, .., v) dump as image(zero values with the given fields), are `==` to and hash like the default instance on
    which the same values were assigned, and that one dumps the same;
  * the dump parses back to an instance whose fields are the own-kind values; `back == y` / `y == back` / `!=` agree with the
    property's predicate (same type and every field equal, evaluated field by field in the same orientation - so an int 65 held
    in a char field makes the two instances unequal, as the predicate says, whereas True / IntEnum members / 3 for 3.0 leave them
    equal), and when they are equal and both hashable they hash equally.

(b) MEMBERS WITH THEIR OWN `==` / HASH (`run_special`).  Structures of 2..6 members of which at least one is: a scalar `void`, a
fixed-count `void` array (0..3 entries; never null-terminated / to-EOF: known finding F64), a named or anonymous nested structure
or an array of structures containing a void, a pointer to void, an enum / flag - also ones that name a value twice (aliases) -, a
nested structure of plain members (generated `==` / hash), a union of integers (`==` on the serialisation); next to integers,
bit-fields, char[k], wchar, floats and integer arrays.  Equal instances are obtained by parsing the same bytes twice, by keyword
construction (void members given or left out), by assignment on T() (fields of anonymous members through the outer instance), and
positionally.  Oracle, the property as stated:
  * instances holding equal fields are `==`, not `!=` (both orders); `==` agrees with the field-wise predicate over the folded
    field names; an instance differing in one non-void member is `!=`;
  * WHENEVER hash(a) and hash(b) both succeed and a == b, hash(a) == hash(b), `b in {a}` and `{a: 1}[b]` work.  Unhashable
    instances (TypeError: void and list-valued members on the unmodified library) are counted, not reported;
  * bool(x) is any(bool(field)) (a void is falsy; a void array with entries is a non-empty list);
  * assigning a fresh void value to a void member leaves dumps() (len(T) bytes) and equality untouched.

Restriction of the domain (see HASH_ENUM_NAME_PAIRS): the unmodified library lets a member of an enum / flag compare equal to
its integer value and to same-valued members of its class (C12: "members compare equal to their integer value and to same-class
members with that value") but hashes a member by (class, NAME, value), not by value, so
    enum AL8 : uint8 { A1 = 1, B1 = 1 };  struct T { AL8 e; uint8 x; };
    a = T(e=cs.AL8.A1, x=0); b = T(e=cs.AL8.B1, x=0)      ->  a == b is True, hash(a) != hash(b)
(also against the parsed instance T(b"\\x01\\x00"), whose member is the last-declared name of the value), and
    struct S { uint8 a; uint8 x; };   y = S(); y.a = cs.E8.B      ->  S(b"\\x02\\x00") == y is True, the hashes differ.
That contradicts "equal instances hash equally" and is reported to the framework's owner; until it is decided the HASH law leaves
out exactly the pairs of equal instances in which some field holds, on one side, a cstruct enum / flag member and, on the other,
anything but the member of that class with the same NAME (a differently named same-valued member, an integer); `==`, `!=`, bool
and every dump law are evaluated there too.
"""
from __future__ import annotations

import enum as _enum
import struct as _struct

from . import defs
from .refimpl import SC

# Evaluate the hash law also for pairs of equal instances in which a field holds a cstruct enum / flag member on one side and a
# differently named same-valued member or a plain integer on the other.
# False: see the module docstring ("Restriction of the domain"); with True the unmodified library fails on
#   enum AL8 : uint8 { A1 = 1, B1 = 1 }; struct T { AL8 e; uint8 x; };   hash(T(e=cs.AL8.A1)) != hash(T(e=cs.AL8.B1)) although ==
#   struct S { uint8 a; uint8 x; }; y = S(); y.a = cs.E8.B;   hash(S(b"\x02\x00")) != hash(y) although ==
HASH_ENUM_NAME_PAIRS = False

ALIAS_PRE = ("enum AL8 : uint8 { A0 = 0, Z0 = 0, A1 = 1, B1 = 1, A2 = 2, B2 = 2, C2 = 2, A9 = 9 };\n"
             "flag FA16 : uint16 { X1 = 1, X2 = 1, Y1 = 2, Y2 = 2, W = 0x100 };\n")
PRE = defs.PREAMBLE + ALIAS_PRE
# name -> (kind, underlying type, {value: [member names in declaration order]})
ENUMS = {k: (kind, base, {}) for k, (kind, base, _) in defs.ENUMS.items()}
for _k, (_kind, _base, _members) in defs.ENUMS.items():
    for _n, _v in _members:
        ENUMS[_k][2].setdefault(_v, []).append(_n)
ENUMS["AL8"] = ("enum", "uint8", {0: ["A0", "Z0"], 1: ["A1", "B1"], 2: ["A2", "B2", "C2"], 9: ["A9"]})
ENUMS["FA16"] = ("flag", "uint16", {1: ["X1", "X2"], 2: ["Y1", "Y2"], 0x100: ["W"]})

CHAR, WCHAR, VOID_T = ("sc", "char"), ("sc", "wchar"), ("sc", "void")
INT_NAMES = ["uint8", "int8", "uint16", "int16", "uint32", "int32", "uint64", "int64", "uint24", "int24", "uint48", "int48", "uint128", "int128"]
FLOATS = ["float16", "float", "double"]
BIT_BASES = ["uint8", "uint16", "uint32", "uint64", "E8", "F16", "AL8"]
WSAFE = "\x00aZ\xe9\xff\u0416\u4e2d\uffee\ud7ff"
SCRIPT_HEAD = ["import enum", "class MyInt(int): pass", "class MyStr(str): pass", "class MyFloat(float): pass",
               "def PyEnum(v): return enum.IntEnum('PyEnum', {'M': v}).M"]


class MyInt(int):
    pass


class MyStr(str):
    pass


class MyFloat(float):
    pass


def PyEnum(v):
    return _enum.IntEnum("PyEnum", {"M": v}).M


class Void:
    """the canonical value of a void member"""

    def __repr__(self):
        return "void"


VOID = Void()


class Cfg:
    def __init__(self, endian, align, pointer):
        self.endian, self.align, self.pointer = endian, align, pointer
        self.bo = "little" if endian == "<" else "big"
        self.psize = SC[pointer][1]
        self.wcodec = "utf-16-le" if endian == "<" else "utf-16-be"


# ------------------------------------------------------------------------------------------------ layout and image (the oracle)

def roundup(o, a):
    return (o + a - 1) // a * a


def size_align(ty, cfg):
    k = ty[0]
    if k == "sc":
        _, size, _, al = SC[ty[1]]
        return size, al
    if k == "enum":
        return size_align(("sc", ENUMS[ty[1]][1]), cfg)
    if k == "ptr":
        return cfg.psize, cfg.psize
    if k == "arr":
        s, a = size_align(ty[1], cfg)
        return s * ty[2][1], a
    if k == "struct":
        lay = layout(ty[1], cfg)
        return lay["size"], lay["align"]
    sizes = [size_align(f["ty"], cfg) for f in ty[1]]     # union
    al = max(a for _, a in sizes)
    size = max(s for s, _ in sizes)
    return (roundup(size, al) if cfg.align else size), al


def layout(fields, cfg):
    """C rule -> {"size", "align", "slots"}; slot = ("bytes", offset, size) | ("bits", unit offset, unit size, bits used before, bits)"""
    off, maxal, slots, unit = 0, 1, [], None
    for f in fields:
        size, al = size_align(f["ty"], cfg)
        maxal = max(maxal, al)
        if f["bits"]:
            base = f["ty"][1] if f["ty"][0] == "sc" else ENUMS[f["ty"][1]][1]
            if unit is None or unit[0] != base or unit[3] + f["bits"] > size * 8:
                if cfg.align:
                    off = roundup(off, al)
                unit = [base, off, size, 0]
                off += size
            slots.append(("bits", unit[1], unit[2], unit[3], f["bits"]))
            unit[3] += f["bits"]
            continue
        unit = None
        if cfg.align:
            off = roundup(off, al)
        slots.append(("bytes", off, size))
        off += size
    return {"size": roundup(off, maxal) if cfg.align else off, "align": maxal, "slots": slots}


def enum_int(v):
    return v[1] if isinstance(v, tuple) else v


def encode(ty, v, cfg):
    k = ty[0]
    if k == "enum":
        return encode(("sc", ENUMS[ty[1]][1]), enum_int(v), cfg)
    if k == "sc":
        kind, size, signed, _ = SC[ty[1]]
        if kind == "int":
            return int(v).to_bytes(size, cfg.bo, signed=signed)
        if kind == "flt":
            return _struct.pack(cfg.endian + {2: "e", 4: "f", 8: "d"}[size], v)
        if kind == "char":
            return bytes(v)
        if kind == "wchar":
            return v.encode(cfg.wcodec, "surrogatepass")
        return b""
    if k == "ptr":
        return int(v).to_bytes(cfg.psize, cfg.bo)
    if k == "arr":
        if ty[1] == CHAR:
            return bytes(v)
        if ty[1] == WCHAR:
            return v.encode(cfg.wcodec, "surrogatepass")
        return b"".join(encode(ty[1], x, cfg) for x in v)
    if k == "struct":
        return image(ty[1], v, cfg)
    size, _ = size_align(ty, cfg)      # union: the value of its first (largest) member, zero filled
    b = encode(ty[1][0]["ty"], v, cfg)
    return b + bytes(size - len(b))


def patch(img, f, slot, v, cfg):
    """the image with field f (at `slot`) holding v"""
    buf = bytearray(img)
    if slot[0] == "bytes":
        b = encode(f["ty"], v, cfg)
        if len(b) != slot[2]:
            raise ValueError(f"harness: value {v!r} of {f['name']} encodes to {len(b)} bytes, the member has {slot[2]}")
        buf[slot[1]:slot[1] + slot[2]] = b
    else:
        _, uoff, usize, used, bits = slot
        shift = used if cfg.endian == "<" else usize * 8 - used - bits
        unit = int.from_bytes(buf[uoff:uoff + usize], cfg.bo)
        unit = (unit & ~(((1 << bits) - 1) << shift)) | (enum_int(v) << shift)
        buf[uoff:uoff + usize] = unit.to_bytes(usize, cfg.bo)
    return bytes(buf)


def image(fields, vals, cfg, lay=None):
    lay = lay or layout(fields, cfg)
    img = bytes(lay["size"])
    for f, slot, v in zip(fields, lay["slots"], vals):
        img = patch(img, f, slot, v, cfg)
    return img


def field_mask(f, slot, size, cfg):
    """the bits of the image that belong to the field"""
    m = bytearray(size)
    if slot[0] == "bytes":
        m[slot[1]:slot[1] + slot[2]] = b"\xff" * slot[2]
    else:
        _, uoff, usize, used, bits = slot
        shift = used if cfg.endian == "<" else usize * 8 - used - bits
        m[uoff:uoff + usize] = ((((1 << bits) - 1) << shift)).to_bytes(usize, cfg.bo)
    return bytes(m)


# ------------------------------------------------------------------------------------------------ canonical values

def int_range(name):
    _, size, signed, _ = SC[name]
    bits = size * 8
    return (-(1 << (bits - 1)), (1 << (bits - 1)) - 1) if signed else (0, (1 << bits) - 1)


def rand_int(rnd, lo, hi):
    r = rnd.random()
    if r < 0.2:
        return rnd.choice([lo, hi, min(1, hi), max(hi - 1, lo)])
    if r < 0.45:
        return rnd.randint(max(lo, -3), min(hi, 3))
    return rnd.randint(lo, hi)


def rand_char(rnd):
    r = rnd.random()
    return rnd.randrange(128, 256) if r < 0.6 else rnd.randrange(128) if r < 0.9 else rnd.choice([0, 1, 0x7F, 0x80, 0xFF])


def rand_enum(rnd, ename, hi=None):
    _, base, members = ENUMS[ename]
    lo, top = int_range(base)
    if hi is not None:
        lo, top = 0, hi
    ok = [v for v in members if lo <= v <= top]
    if ok and rnd.random() < 0.65:
        return rnd.choice(ok)
    if ENUMS[ename][0] == "flag" and ok and rnd.random() < 0.5:
        v = 0
        for m in rnd.sample(ok, rnd.randint(1, len(ok))):
            v |= m
        return v if v <= top else rnd.choice(ok)
    return rand_int(rnd, lo, top)


def rand_val(rnd, ty, cfg, bits=None):
    k = ty[0]
    if bits:
        return rand_enum(rnd, ty[1], (1 << bits) - 1) if k == "enum" else rand_int(rnd, 0, (1 << bits) - 1)
    if k == "sc":
        kind = SC[ty[1]][0]
        if kind == "int":
            return rand_int(rnd, *int_range(ty[1]))
        if kind == "flt":
            v = rnd.randint(-64, 64) / 4.0       # exactly representable in 16 bits; never -0.0 / NaN
            return 0.0 if v == 0 else v
        if kind == "char":
            return bytes([rand_char(rnd)])
        if kind == "wchar":
            return rnd.choice(WSAFE)
        return VOID
    if k == "enum":
        return rand_enum(rnd, ty[1])
    if k == "ptr":
        return rand_int(rnd, 0, (1 << (8 * cfg.psize)) - 1)
    if k == "arr":
        n = ty[2][1]
        if ty[1] == CHAR:
            return bytes(rand_char(rnd) for _ in range(n))
        if ty[1] == WCHAR:
            return "".join(rnd.choice(WSAFE) for _ in range(n))
        return [rand_val(rnd, ty[1], cfg) for _ in range(n)]
    if k == "struct":
        return [rand_val(rnd, g["ty"], cfg, g["bits"]) for g in ty[1]]
    return rand_val(rnd, ty[1][0]["ty"], cfg)      # union: its first member


def zero_val(ty, bits=None):
    k = ty[0]
    if bits or k in ("enum", "ptr", "union"):
        return 0
    if k == "sc":
        return {"int": 0, "flt": 0.0, "char": b"\x00", "wchar": "\x00", "void": VOID}[SC[ty[1]][0]]
    if k == "arr":
        n = ty[2][1]
        return bytes(n) if ty[1] == CHAR else "\x00" * n if ty[1] == WCHAR else [zero_val(ty[1]) for _ in range(n)]
    return [zero_val(g["ty"], g["bits"]) for g in ty[1]]


def real(cs, C, ty, v):
    """the canonical value as the library's own kind of Python value; C: the library's class of the member's type"""
    k = ty[0]
    if k == "sc":
        return cs.void() if ty[1] == "void" else v
    if k == "enum":
        E = getattr(cs, ty[1])
        return getattr(E, v[0]) if isinstance(v, tuple) else E(v)
    if k == "ptr":
        return v
    if k == "arr":
        if ty[1] in (CHAR, WCHAR):
            return v
        return [real(cs, C.type, ty[1], x) for x in v]
    if k == "struct":
        return C(**{C.__fields__[i]._name: real(cs, C.__fields__[i].type, g["ty"], x) for i, (g, x) in enumerate(zip(ty[1], v))})
    return C(**{C.__fields__[0]._name: v})


def show(ty, v, cexpr):
    """the canonical value as a Python expression (replay script); cexpr: an expression for the member type's class"""
    k = ty[0]
    if k == "sc":
        return "cs.void()" if ty[1] == "void" else repr(v)
    if k == "enum":
        return f"cs.{ty[1]}.{v[0]}" if isinstance(v, tuple) else f"cs.{ty[1]}({v})"
    if k == "ptr":
        return repr(v)
    if k == "arr":
        if ty[1] in (CHAR, WCHAR):
            return repr(v)
        return "[" + ", ".join(show(ty[1], x, cexpr + ".type") for x in v) + "]"
    if k == "struct":
        return f"{cexpr}(" + ", ".join(f"**{{{cexpr}.__fields__[{i}]._name: {show(g['ty'], x, f'{cexpr}.__fields__[{i}].type')}}}" if g["name"] is None
                                       else f"{g['name']}={show(g['ty'], x, f'{cexpr}.__fields__[{i}].type')}" for i, (g, x) in enumerate(zip(ty[1], v))) + ")"
    return f"{cexpr}({ty[1][0]['name']}={v!r})"


def kind_of(f):
    ty = f["ty"]
    if f["bits"]:
        return "enum-bits" if ty[0] == "enum" else "bits"
    if ty[0] == "sc":
        return {"int": "int", "flt": "float", "char": "char", "wchar": "wchar", "void": "void"}[SC[ty[1]][0]]
    if ty[0] == "arr":
        e = ty[1]
        if e == CHAR:
            return "char[k]"
        if e == WCHAR:
            return "wchar[k]"
        if e == VOID_T:
            return "void[k]"
        if e[0] == "sc" and SC[e[1]][0] == "int":
            return "int[k]"
        return e[0] + "[k]"
    return ty[0]      # enum | ptr | struct | union


def hash_of(x):
    try:
        return ("hash", hash(x))
    except TypeError:
        return ("unhashable",)


def enum_name_gap(x, y):
    """x == y holds; is one of them a cstruct enum / flag member (hashed by class, name and value) and the other not the member of
    that class with that name?  (lists and structures are looked into)"""
    from . import impl
    dc = impl.dc()
    kinds = (dc.Enum, dc.Flag)
    if isinstance(x, kinds) or isinstance(y, kinds):
        return not (type(x) is type(y) and x.name == y.name)
    if isinstance(x, list) and isinstance(y, list):
        return any(enum_name_gap(p, q) for p, q in zip(x, y))
    if isinstance(x, dc.Structure) and type(x) is type(y):
        return any(enum_name_gap(getattr(x, f._name), getattr(y, f._name)) for f in type(x).__fields__)
    return False


class Loaded:
    """one definition in one cstruct instance"""

    def __init__(self, dc, fields, cfg, compiled, extra=""):
        self.fields, self.cfg, self.compiled = fields, cfg, compiled
        self.text = defs.render_struct("T", ("struct", fields))
        self.script = [*SCRIPT_HEAD, f"from dissect.cstruct import cstruct; cs = cstruct(endian={cfg.endian!r}, pointer={cfg.pointer!r})",
                       f"cs.load({PRE + extra!r}, compiled={compiled}, align={cfg.align})",
                       f"cs.load({self.text!r}, compiled={compiled}, align={cfg.align}); T = cs.T"]
        self.cd0 = {"endian": cfg.endian, "align": cfg.align, "compiled": compiled, "pointer": cfg.pointer, "definition": self.text,
                    "script": self.script}
        self.cs = dc.cstruct(endian=cfg.endian, pointer=cfg.pointer)
        self.cs.load(PRE + extra, compiled=compiled, align=cfg.align)
        self.cs.load(self.text, compiled=compiled, align=cfg.align)
        self.T = self.cs.T
        self.lay = layout(fields, cfg)
        self.size = self.lay["size"]
        self.key = (cfg.endian, cfg.align, compiled, cfg.pointer, self.text)

    def attr(self, i):
        """the keyword / attribute name of top-level member i (an anonymous member is named after its generated type)"""
        return self.fields[i]["name"] or self.T.__fields__[i]._name

    def cls(self, i):
        return self.T.__fields__[i].type

    def real(self, i, v):
        return real(self.cs, self.cls(i), self.fields[i]["ty"], v)

    def show(self, i, v):
        return show(self.fields[i]["ty"], v, f"T.__fields__[{i}].type")

    def image(self, vals):
        return image(self.fields, vals, self.cfg, self.lay)

    def zeros(self):
        return [zero_val(f["ty"], f["bits"]) for f in self.fields]

    def rand_vals(self, rnd):
        return [rand_val(rnd, f["ty"], self.cfg, f["bits"]) for f in self.fields]

    def leaves(self):
        """the folded field names the generated methods are built from: members of anonymous structures count as the outer one's"""
        out = []
        for f in self.fields:
            out += [g["name"] for g in f["ty"][1]] if f["name"] is None else [f["name"]]
        return out


class Budget:
    """at most `cap` reports per definition (a broken writer fails for every value of a sweep)"""

    def __init__(self, viol, cap=3):
        self.viol, self.cap, self.n = viol, cap, 0

    def __call__(self, what, data, sig=None):
        self.n += 1
        if self.n <= self.cap:
            self.viol(what, data)

    @property
    def spent(self):
        return self.n >= self.cap


def check_layout(L, viol):
    """len(T) against the C rule (everything below is computed from it)"""
    try:
        n = len(L.T)
        names = [f._name for f in L.T.__fields__]
    except Exception as e:  # noqa: BLE001
        viol(f"the size / member list of the structure cannot be read: {type(e).__name__}: {e}", L.cd0)
        return False
    if n != L.size or len(names) != len(L.fields):
        viol(f"len(T) is {n} with {len(names)} members; the C layout rule gives {L.size} bytes for the {len(L.fields)} declared members", L.cd0)
        return False
    return True


# ================================================================================================ (a) value kinds

def gen_flat(rnd):
    """-> fields of a flat fixed-size structure"""
    m = rnd.randint(2, 6)
    fields, n, prev_base = [], 0, None

    def name():
        nonlocal n
        n += 1
        return f"f{n - 1}"
    while len(fields) < m:
        k = rnd.choice(["char", "char", "char", "char[k]", "char[k]", "wchar", "wchar[k]", "int", "int", "bits", "enum", "float", "ptr", "int[k]"])
        if k == "bits":
            bt = rnd.choice([b for b in BIT_BASES if (ENUMS[b][1] if b in ENUMS else b) != prev_base])
            under = ENUMS[bt][1] if bt in ENUMS else bt
            left = SC[under][1] * 8
            for _ in range(rnd.randint(2, 4)):
                if left == 0:
                    break
                b = rnd.randint(1, min(left, rnd.choice([1, 2, 3, 5, 9, 17])))
                fields.append({"name": name(), "ty": ("enum", bt) if bt in ENUMS else ("sc", bt), "bits": b})
                left -= b
            prev_base = under
            continue
        prev_base = None
        if k == "char":
            ty = CHAR
        elif k == "char[k]":
            ty = ("arr", CHAR, ("fixed", rnd.randint(1, 5)))
        elif k == "wchar":
            ty = WCHAR
        elif k == "wchar[k]":
            ty = ("arr", WCHAR, ("fixed", rnd.randint(1, 3)))
        elif k == "int":
            ty = ("sc", rnd.choice(INT_NAMES))
        elif k == "enum":
            ty = ("enum", rnd.choice(["E8", "F16", "E32", "E24", "FA16"]))
        elif k == "float":
            ty = ("sc", rnd.choice(FLOATS))
        elif k == "ptr":
            ty = ("ptr", ("sc", rnd.choice(["uint8", "uint32", "char", "void"])))
        else:
            ty = ("arr", ("sc", rnd.choice(INT_NAMES[:10])), ("fixed", rnd.randint(1, 3)))
        fields.append({"name": name(), "ty": ty, "bits": None})
    return fields


def int_kinds(rnd, cs, lo, hi, out, wrap=lambda c: c):
    """the kinds of Python integers the integer / bit-field / pointer / float writers encode; out(label, canonical value, value, expr)"""
    c = rand_int(rnd, lo, hi)
    out("int", wrap(c), c, repr(c))
    c = rand_int(rnd, lo, hi)
    out("int subclass", wrap(c), MyInt(c), f"MyInt({c})")
    c = rand_int(rnd, lo, hi)
    out("Python IntEnum member", wrap(c), PyEnum(c), f"PyEnum({c})")
    for b in (0, 1):
        if lo <= b <= hi:
            out("bool", wrap(b), bool(b), repr(bool(b)))
    c = rand_int(rnd, max(lo, -(1 << 31)), min(hi, (1 << 31) - 1))
    en = "E32" if c < 0 or c > 255 or rnd.random() < 0.3 else rnd.choice(["E8", "AL8"])
    out("cstruct enum member", wrap(c), getattr(cs, en)(c), f"cs.{en}({c})")
    c = rand_int(rnd, lo, hi)
    tn = rnd.choice([t for t in ("int8", "uint8", "int32", "uint64", "int64", "uint24", "int128", "uint128") if int_range(t)[0] <= c <= int_range(t)[1]])
    out("cstruct integer instance", wrap(c), getattr(cs, tn)(c), f"cs.{tn}({c})")


def variants(rnd, L, i):
    """-> [(label, required, canonical value, Python value, expression)] for member i"""
    f, cs, cfg = L.fields[i], L.cs, L.cfg
    ty, k = f["ty"], kind_of(f)
    res = []

    def out(label, c, v, expr, required=True):
        res.append((label, required, c, v, expr))
    if k == "char":
        c = rand_char(rnd)
        out("bytes", bytes([c]), bytes([c]), repr(bytes([c])))
        c = rand_char(rnd)
        out("bytearray", bytes([c]), bytearray([c]), f"bytearray({bytes([c])!r})")
        c = rand_char(rnd)
        out("char instance", bytes([c]), cs.char(bytes([c])), f"cs.char({bytes([c])!r})")
        c = rand_char(rnd)
        out("str", bytes([c]), chr(c), repr(chr(c)))
        c = rand_char(rnd)
        out("str subclass", bytes([c]), MyStr(chr(c)), f"MyStr({chr(c)!r})")
        int_kinds(rnd, cs, 0, 255, lambda lb, cc, v, e: out(lb, cc, v, e), wrap=lambda c: bytes([c]))
        c = rnd.randrange(128, 256)
        out("int", bytes([c]), c, repr(c))
    elif k == "char[k]":
        n = ty[2][1]
        mk = lambda: bytes(rand_char(rnd) for _ in range(n))  # noqa: E731
        c = mk()
        out("bytes", c, c, repr(c))
        c = mk()
        out("bytearray", c, bytearray(c), f"bytearray({c!r})")
        c = mk()
        out("memoryview", c, memoryview(c), f"memoryview({c!r})")
        c = mk()
        out("char[k] instance", c, cs.char[n](c), f"cs.char[{n}]({c!r})")
        c = mk()
        out("str", c, c.decode("latin-1"), repr(c.decode("latin-1")))
        c = mk()
        out("str subclass", c, MyStr(c.decode("latin-1")), f"MyStr({c.decode('latin-1')!r})")
        c = mk()
        out("list of ints", c, list(c), repr(list(c)))
    elif k in ("wchar", "wchar[k]"):
        n = 1 if k == "wchar" else ty[2][1]
        mk = lambda: "".join(rnd.choice(WSAFE) for _ in range(n))  # noqa: E731
        c = mk()
        out("str", c, c, repr(c))
        c = mk()
        out("str subclass", c, MyStr(c), f"MyStr({c!r})")
        c = mk()
        W = cs.wchar if k == "wchar" else cs.wchar[n]
        out(k + " instance", c, W(c), f"cs.wchar({c!r})" if k == "wchar" else f"cs.wchar[{n}]({c!r})")
    elif k == "int":
        int_kinds(rnd, cs, *int_range(ty[1]), out)
    elif k == "bits":
        int_kinds(rnd, cs, 0, (1 << f["bits"]) - 1, out)
    elif k in ("enum", "enum-bits"):
        en = ty[1]
        E = getattr(cs, en)
        hi = (1 << f["bits"]) - 1 if f["bits"] else None
        c = rand_enum(rnd, en, hi)
        out("member by value", c, E(c), f"cs.{en}({c})")
        named = [(v, ns) for v, ns in ENUMS[en][2].items() if hi is None or 0 <= v <= hi]
        if named:
            v, ns = rnd.choice(named)
            nm = rnd.choice(ns)
            out("member by name", v, getattr(E, nm), f"cs.{en}.{nm}")
        if ENUMS[en][0] == "flag" and len(named) >= 2:
            (v1, n1), (v2, n2) = rnd.sample(named, 2)
            out("composed flag", v1 | v2, getattr(E, n1[0]) | getattr(E, n2[0]), f"cs.{en}.{n1[0]} | cs.{en}.{n2[0]}")
        lo, top = (0, hi) if hi is not None else int_range(ENUMS[en][1])
        c = rand_int(rnd, lo, top)
        out("plain int (not a member)", c, c, repr(c), required=False)
        out("bool (not a member)", 1, True, "True", required=False)
    elif k == "float":
        mk = lambda: rand_val(rnd, ty, cfg)  # noqa: E731
        c = mk()
        out("float", c, c, repr(c))
        c = mk()
        out("float subclass", c, MyFloat(c), f"MyFloat({c!r})")
        tn = rnd.choice(FLOATS)
        c = mk()
        out("cstruct float instance", c, getattr(cs, tn)(c), f"cs.{tn}({c!r})")
        int_kinds(rnd, cs, -64, 64, out, wrap=float)
    elif k == "ptr":
        top = (1 << (8 * cfg.psize)) - 1
        int_kinds(rnd, cs, 0, top, out)
        c = rand_int(rnd, 0, top)
        out("Pointer (pointer arithmetic)", c, getattr(L.T(), f["name"]) + c, f"T().{f['name']} + {c}")
    elif k == "int[k]":
        n = ty[2][1]
        lo, hi = int_range(ty[1][1])
        out("list of ints", *(lambda c: (c, list(c), repr(c)))([rand_int(rnd, lo, hi) for _ in range(n)]))
        cv, vv, ev = [], [], []
        for _ in range(n):
            sub = []
            int_kinds(rnd, cs, lo, hi, lambda lb, cc, v, e: sub.append((cc, v, e)))
            cc, v, e = rnd.choice(sub)
            cv.append(cc), vv.append(v), ev.append(e)
        out("list of mixed integer kinds", cv, vv, "[" + ", ".join(ev) + "]")
    return res


def describe_diff(before, after, want, mask):
    if len(after) != len(want):
        return f"dumps() is {len(after)} bytes long, len(T) is {len(want)}"
    outside = [j for j in range(len(want)) if (after[j] ^ before[j]) & ~mask[j] & 0xFF]
    if outside:
        return f"bytes outside the field changed (offsets {outside[:8]})"
    return "the field's bytes are not the standard encoding of the value"


def eq_pred_law(L, viol, a, b, cd, what):
    """`==` / `!=` of two instances of T against the field-wise predicate in the same orientation; equal + hashable -> equal hashes"""
    names = L.leaves()
    for p, q, o in ((a, b, "a == b"), (b, a, "b == a")):
        pred = all(getattr(p, n) == getattr(q, n) for n in names)
        got, ne = p == q, p != q
        if got != pred or ne == pred:
            viol(f"{what}: {o} is {got}, != is {ne}, but every field compares {'equal' if pred else 'unequal somewhere'} "
                 f"(fields {[getattr(p, n) for n in names]!r} vs {[getattr(q, n) for n in names]!r})", cd)
            return None
    if a == b:
        ha, hb = hash_of(a), hash_of(b)
        if ha[0] == hb[0] == "hash" and ha != hb:
            if not HASH_ENUM_NAME_PAIRS and any(enum_name_gap(getattr(a, n), getattr(b, n)) for n in names):
                return True       # (see "Restriction of the domain")
            viol(f"{what}: the instances are == but hash differently ({ha[1]} / {hb[1]})", cd)
    return a == b


def check_after(L, res, viol, y, before, want, i, c, vals, cd, what):
    """y holds `vals` with member i := c (given as some other kind of value): dump, locality, encoding, re-parse"""
    out = y.dumps()
    if out != want:
        mask = field_mask(L.fields[i], L.lay["slots"][i], L.size, L.cfg)
        viol(f"{what}: {describe_diff(before, out, want, mask)}: dump before {before.hex()}, after {out.hex()}, expected {want.hex()} "
             f"(bits of the field: {mask.hex()})", cd)
        return False
    back = L.T(out)
    now = list(vals)
    now[i] = c
    for j in range(len(L.fields)):
        got, own = getattr(back, L.attr(j)), L.real(j, now[j])
        if not (got == own) or (isinstance(own, bytes) and not isinstance(got, bytes)) or (isinstance(own, str) and not isinstance(got, str)):
            viol(f"{what}: the dump parses back with {L.attr(j)} = {got!r}, expected {own!r}", cd)
            return False
    eq_pred_law(L, viol, back, y, cd, what + ", the re-parsed dump (a) against the instance (b)")
    return True


def values_def(res, viol, rnd, L, thorough, sweep_all):
    T, cs, fields = L.T, L.cs, L.fields
    n = len(fields)

    def guard(what, cd, fn, required=True):
        try:
            return fn()
        except Exception as e:  # noqa: BLE001 - the property says these operations succeed for the kinds the writer accepts
            if required:
                viol(f"{what} raises {type(e).__name__}: {str(e)[:200]}", cd)
            else:
                res.feat("v6a:not-accepted:" + what.split(":")[0])
            return None

    vals = L.rand_vals(rnd)
    raw = L.image(vals)
    zeros = L.zeros()
    zimg = L.image(zeros)
    vexpr = ", ".join(f"{L.attr(j)}={L.show(j, vals[j])}" for j in range(n))
    cdp = dict(L.cd0, call=f"T(bytes.fromhex({raw.hex()!r})).dumps()   # = T({vexpr}).dumps()")

    def base_law():
        p = T(raw)
        d = p.dumps()
        if d != raw:
            viol(f"dumps of the instance parsed from {raw.hex()} (the image of {vexpr}) is {d.hex()}", cdp)
            return None
        d = T().dumps()
        if d != zimg:
            viol(f"the default instance dumps as {d.hex()}, not as len(T) = {L.size} zero bytes", dict(L.cd0, call="T().dumps()"))
            return None
        return True
    if not guard("parsing / dumping the base instance", cdp, base_law):
        return

    def one(i, label, required, c, v, expr, way):
        f = fields[i]
        nm = L.attr(i)
        slot = L.lay["slots"][i]
        kind = kind_of(f)
        res.feat(f"v6a:{kind} <- {label}")
        res.feat(f"v6a:way:{way}")
        if way == "attribute":
            call = f"y = T(bytes.fromhex({raw.hex()!r})); y.{nm} = {expr}; y.dumps()"
            cd = dict(L.cd0, call=call, field=nm, value_kind=label)
            res.count((L.key, raw, i, label, expr, way), True)

            def law():
                y = T(raw)
                setattr(y, nm, v)
                return check_after(L, res, viol, y, raw, patch(raw, f, slot, c, L.cfg), i, c, vals, cd, f"y.{nm} = {expr} ({kind} <- {label})")
            return guard(f"{kind} <- {label}: {call}", cd, law, required)
        # construction: the value for member i, own-kind values for the other given members
        if way == "keyword":
            given = [i] + [j for j in range(n) if j != i and rnd.random() < 0.3]
            args, kw = [], given
        else:
            given = list(range(i + 1))
            if len(given) == 1 and n > 1:
                given.append(1)      # (one positional bytes-like argument means "parse these bytes" by design)
            args, kw = given, []
        gv = {j: (v if j == i else L.real(j, vals[j])) for j in given}
        ge = {j: (expr if j == i else L.show(j, vals[j])) for j in given}
        call = "T(" + ", ".join([ge[j] for j in args] + [f"{L.attr(j)}={ge[j]}" for j in kw]) + ")"
        cd = dict(L.cd0, call=call + ".dumps()", field=nm, value_kind=label)
        res.count((L.key, i, label, call, way), True)
        want_vals = [c if j == i else vals[j] if j in given else zeros[j] for j in range(n)]
        want = L.image(want_vals)

        def law():
            built = T(*[gv[j] for j in args], **{L.attr(j): gv[j] for j in kw})
            base_vals = [zeros[j] if j == i else want_vals[j] for j in range(n)]
            if not check_after(L, res, viol, built, L.image(base_vals), want, i, c, base_vals, cd, f"{call} ({kind} <- {label})"):
                return False
            manual = T()
            for j in given:
                setattr(manual, L.attr(j), v if j == i else L.real(j, vals[j]))
            d = manual.dumps()
            if d != want:
                viol(f"the default instance with the fields of {call} assigned dumps as {d.hex()}, expected {want.hex()}", cd)
                return False
            if eq_pred_law(L, viol, built, manual, cd, f"{call} (a) against the default instance with the same values assigned (b)") is False:
                viol(f"{call} is not equal to the default instance on which the same values were assigned", cd)
                return False
            return True
        return guard(f"{kind} <- {label}: {call}", cd, law, required)

    for i in range(n):
        for label, required, c, v, expr in variants(rnd, L, i):
            ways = ["attribute", "keyword", "positional"] if thorough else ["attribute", rnd.choice(["keyword", "positional"])]
            for way in ways:
                one(i, label, required, c, v, expr, way)
        if viol.spent:
            return

    # every character code through a char member: as int, as str, as bytes
    for i in range(n):
        if kind_of(fields[i]) != "char":
            continue
        nm, f, slot = L.attr(i), fields[i], L.lay["slots"][i]
        for label, conv in (("int", lambda b: b), ("str", chr), ("bytes", lambda b: bytes([b]))):
            if viol.spent:
                return
            codes = list(range(256))
            rnd.shuffle(codes)
            res.feat(f"v6a:char-sweep:{label}:attribute")

            def sweep(label=label, conv=conv, codes=codes, nm=nm, f=f, slot=slot, i=i):
                y = T(raw)
                before = raw
                for b in codes:
                    v = conv(b)
                    res.count((L.key, raw, i, "sweep", label, b), True)
                    setattr(y, nm, v)
                    d = y.dumps()
                    want = patch(raw, f, slot, bytes([b]), L.cfg)
                    if d != want:
                        mask = field_mask(f, slot, L.size, L.cfg)
                        viol(f"y.{nm} = {v!r} (char <- {label}, character code {b}): {describe_diff(before, d, want, mask)}: dump before "
                             f"{before.hex()}, after {d.hex()}, expected {want.hex()}",
                             dict(L.cd0, call=f"y = T(bytes.fromhex({raw.hex()!r})); y.{nm} = {v!r}; y.dumps()", field=nm, value_kind=label))
                        return
                    before = want
            guard(f"char <- {label}: assigning every character code to {nm} / dumping", dict(L.cd0, field=nm, value_kind=label), sweep)
            if not sweep_all and not thorough:
                codes = [0, 1, 0x7F, 0x80, 0xC3, 0xE9, 0xFF] + rnd.sample(range(128, 256), 6) + rnd.sample(range(128), 3)
            way = rnd.choice(["keyword", "positional"])
            res.feat(f"v6a:char-sweep:{label}:{way}" + (":all-256" if len(codes) == 256 else ":sample"))
            for b in codes:
                if not one(i, label, True, bytes([b]), conv(b), repr(conv(b)), way):
                    break


def run_values(env, res, viol, rnd, reps):
    from . import impl
    dc = impl.dc()
    thorough = env["tier"] != "quick"
    for rep in range(reps):
        cfg = Cfg(rnd.choice("<>"), rnd.random() < 0.4, rnd.choice(["uint16", "uint32", "uint64"]))
        compiled = rnd.random() < 0.5
        fields = gen_flat(rnd)
        try:
            L = Loaded(dc, fields, cfg, compiled)
        except Exception as e:  # noqa: BLE001
            viol(f"definition rejected: {type(e).__name__}: {e}", {"definition": defs.render_struct("T", ("struct", fields)), "endian": cfg.endian,
                                                                    "align": cfg.align, "compiled": compiled})
            continue
        res.feat("v6a:" + ("aligned" if cfg.align else "packed") + "," + ("compiled" if compiled else "interpreted") + "," + cfg.endian)
        if not check_layout(L, viol):
            continue
        values_def(res, Budget(viol), rnd, L, thorough, sweep_all=rep % 4 == 0)


# ================================================================================================ (b) members with their own == / hash

def gen_special(rnd):
    """-> (fields, set of the special kinds used)"""
    used = set()
    n = [0]

    def name(p="f"):
        n[0] += 1
        return f"{p}{n[0] - 1}"

    def plain(depth=0):
        k = rnd.choice(["int", "int", "int", "char[k]", "wchar", "float", "int[k]", "enum", "ptr"])
        if k == "int":
            return ("sc", rnd.choice(INT_NAMES[:10]))
        if k == "char[k]":
            return ("arr", CHAR, ("fixed", rnd.randint(1, 3)))
        if k == "wchar":
            return WCHAR
        if k == "float":
            return ("sc", rnd.choice(FLOATS))
        if k == "int[k]":
            return ("arr", ("sc", rnd.choice(["uint8", "int16", "uint32"])), ("fixed", rnd.randint(1, 2)))
        if k == "enum":
            return ("enum", rnd.choice(["E8", "F16", "E32"]))
        return ("ptr", ("sc", "uint8"))

    def void_struct():
        inner = [{"name": name("g"), "ty": plain(), "bits": None} for _ in range(rnd.randint(1, 2))]
        inner.insert(rnd.randint(0, len(inner)), {"name": name("v"), "ty": VOID_T, "bits": None})
        return ("struct", inner)

    def special():
        k = rnd.choice(["void", "void", "void", "void[k]", "struct with void", "anonymous struct with void", "array of structs with void",
                        "void *", "alias enum", "alias enum", "enum", "struct", "union", "struct with alias enum"])
        used.add(k)
        if k == "void":
            return {"name": name("v"), "ty": VOID_T, "bits": None}
        if k == "void[k]":
            return {"name": name("v"), "ty": ("arr", VOID_T, ("fixed", rnd.choice([0, 1, 2, 3]))), "bits": None}
        if k == "struct with void":
            return {"name": name("n"), "ty": void_struct(), "bits": None}
        if k == "anonymous struct with void":
            return {"name": None, "ty": void_struct(), "bits": None}
        if k == "array of structs with void":
            return {"name": name("n"), "ty": ("arr", void_struct(), ("fixed", rnd.randint(1, 2))), "bits": None}
        if k == "void *":
            return {"name": name("p"), "ty": ("ptr", VOID_T), "bits": None}
        if k == "alias enum":
            return {"name": name("e"), "ty": ("enum", rnd.choice(["AL8", "FA16"])), "bits": None}
        if k == "enum":
            return {"name": name("e"), "ty": ("enum", rnd.choice(["E8", "F16", "E32", "E24"])), "bits": None}
        if k == "struct":
            return {"name": name("n"), "ty": ("struct", [{"name": name("g"), "ty": plain(), "bits": None} for _ in range(rnd.randint(1, 3))]), "bits": None}
        if k == "struct with alias enum":
            inner = [{"name": name("g"), "ty": plain(), "bits": None}, {"name": name("e"), "ty": ("enum", "AL8"), "bits": None}]
            rnd.shuffle(inner)
            return {"name": name("n"), "ty": ("struct", inner), "bits": None}
        big, small = rnd.choice([("uint32", ["uint16", "uint8", "int32"]), ("uint64", ["uint32", "int16"]), ("uint16", ["uint8", "int16"])])
        return {"name": name("u"), "ty": ("union", [{"name": name("g"), "ty": ("sc", big), "bits": None}] +
                                          [{"name": name("g"), "ty": ("sc", s), "bits": None} for s in rnd.sample(small, rnd.randint(1, 2))]), "bits": None}

    m = rnd.randint(2, 6)
    ns = rnd.choice([1, 1, 1, 2, 2, 3])
    slots = ["S"] * min(ns, m) + ["P"] * (m - min(ns, m))
    rnd.shuffle(slots)
    fields = []
    for s in slots:
        if s == "S":
            fields.append(special())
        elif rnd.random() < 0.15:
            bt = rnd.choice(["uint8", "uint16", "uint32"])
            left = SC[bt][1] * 8
            for _ in range(rnd.randint(2, 3)):
                if left <= 0:
                    break
                b = rnd.randint(1, min(left, 7))
                fields.append({"name": name("b"), "ty": ("sc", bt), "bits": b})
                left -= b
            fields.append(special() if rnd.random() < 0.5 else {"name": name(), "ty": plain(), "bits": None})     # ends the run
        else:
            fields.append({"name": name(), "ty": plain(), "bits": None})
    return fields, used


def alias_paths(ty, v, path=()):
    """paths to the enum values inside a canonical value whose value has more than one name"""
    k = ty[0]
    if k == "enum":
        return [(path, ty[1])] if len(ENUMS[ty[1]][2].get(enum_int(v), [])) > 1 else []
    if k == "struct":
        return [p for j, (g, x) in enumerate(zip(ty[1], v)) if not g["bits"] for p in alias_paths(g["ty"], x, path + (j,))]
    if k == "arr" and ty[1][0] in ("struct", "enum"):
        return [p for j, x in enumerate(v) for p in alias_paths(ty[1], x, path + (j,))]
    return []


def set_path(v, path, new):
    if not path:
        return new
    out = list(v)
    out[path[0]] = set_path(v[path[0]], path[1:], new)
    return out


def get_path(v, path):
    for p in path:
        v = v[p]
    return v


def has_void_only(ty):
    """no byte of the member carries a value (a pair differing in it cannot be made)"""
    k = ty[0]
    if k == "sc":
        return ty[1] == "void"
    if k == "arr":
        return ty[2][1] == 0 or has_void_only(ty[1])
    if k == "struct":
        return all(has_void_only(g["ty"]) for g in ty[1])
    return False


def special_def(res, viol, rnd, L, used, thorough):
    T, cs, fields = L.T, L.cs, L.fields
    n = len(fields)
    names = L.leaves()

    def guard(what, cd, fn):
        try:
            return fn()
        except Exception as e:  # noqa: BLE001 - the property says these operations succeed
            viol(f"{what} raises {type(e).__name__}: {str(e)[:200]}", cd)
            return None

    def kwexpr(vals, skip=()):
        return "T(" + ", ".join((f"**{{T.__fields__[{j}]._name: {L.show(j, vals[j])}}}" if fields[j]["name"] is None else f"{fields[j]['name']}={L.show(j, vals[j])}")
                                for j in range(n) if j not in skip) + ")"

    def make(way, vals):
        """-> (instance, expression)"""
        if way in ("parse", "parse again"):
            raw = L.image(vals)
            return T(raw), f"T(bytes.fromhex({raw.hex()!r}))"
        if way == "keywords":
            return T(**{L.attr(j): L.real(j, vals[j]) for j in range(n)}), kwexpr(vals)
        if way == "keywords without the void members":
            skip = [j for j in range(n) if kind_of(fields[j]) in ("void", "void[k]")]
            return T(**{L.attr(j): L.real(j, vals[j]) for j in range(n) if j not in skip}), kwexpr(vals, skip)
        if way == "positional":
            return T(*[L.real(j, vals[j]) for j in range(n)]), "T(" + ", ".join(L.show(j, vals[j]) for j in range(n)) + ")"
        x, ex = T(), ["x = T()"]       # assignment; the members of an anonymous structure through the outer instance
        for j, f in enumerate(fields):
            if f["name"] is None:
                inner = L.real(j, vals[j])
                # (a private zero member first: the default one is shared between default-constructed instances, known finding F8)
                setattr(x, L.attr(j), L.real(j, zero_val(f["ty"])))
                ex.append(f"x.{L.attr(j)} = {L.show(j, zero_val(f['ty']))}")
                for g, gv in zip(f["ty"][1], vals[j]):
                    setattr(x, g["name"], getattr(inner, g["name"]))
                    ex.append(f"x.{g['name']} = {show(g['ty'], gv, '?')}")
            else:
                setattr(x, f["name"], L.real(j, vals[j]))
                ex.append(f"x.{f['name']} = {L.show(j, vals[j])}")
        return x, "; ".join(ex)

    def truth(x):
        return any(bool(getattr(x, nm)) for nm in names)

    vals = L.rand_vals(rnd)
    if rnd.random() < 0.15:
        vals = L.zeros()
    ways = ["parse", "parse again", "keywords", "assignment", "positional"]
    if any(kind_of(f) in ("void", "void[k]") for f in fields):
        ways.append("keywords without the void members")
    inst = {}
    for way in ways:
        cd = dict(L.cd0, made_by=way)
        r = guard(f"making an instance ({way})", cd, lambda: make(way, vals))  # noqa: B023
        if r is None:
            return
        inst[way] = r
        res.feat("v6b:made-by:" + way)

    def pair_law(wa, wb, a, ea, b, eb, want_equal, alias_pair=False):
        cd = dict(L.cd0, a=ea, b=eb, call="a == b, hash(a) == hash(b)")
        res.count((L.key, ea, eb), True)
        pred = all(getattr(a, nm) == getattr(b, nm) for nm in names) and all(getattr(b, nm) == getattr(a, nm) for nm in names)
        if pred != want_equal:
            viol(f"instances made by {wa} / {wb}: the fields read back {'unequal' if want_equal else 'equal'}: "
                 f"{[getattr(a, nm) for nm in names]!r} vs {[getattr(b, nm) for nm in names]!r}", cd)
            return
        rs = (a == b, b == a, not (a != b), not (b != a))
        if any(r != want_equal for r in rs):
            viol(f"instances made by {wa} / {wb} hold {'equal' if want_equal else 'different'} fields but a == b, b == a, not a != b, not b != a are {rs}", cd)
            return
        if not want_equal:
            return
        ha, hb = hash_of(a), hash_of(b)
        res.feat("v6b:hash:" + ("both hashable" if ha[0] == hb[0] == "hash" else "unhashable (void / list-valued members): counted"))
        if ha[0] != "hash" or hb[0] != "hash":
            return
        if not HASH_ENUM_NAME_PAIRS and any(enum_name_gap(getattr(a, nm), getattr(b, nm)) for nm in names):
            res.feat("v6b:hash law not evaluated: pair of differently named same-valued enum members (reported finding)")
            return
        if ha != hb:
            viol(f"instances made by {wa} / {wb} are == but hash differently: {ha[1]} / {hb[1]}", cd)
            return
        if b not in {a} or {a: 1}.get(b) != 1 or a not in {b: 1}:
            viol(f"instances made by {wa} / {wb} are == and hash equally but do not find each other in a set / dict", cd)

    def eq_laws():
        ws = list(inst)
        for wa, wb in zip(ws, ws[1:] + ws[:1]):
            pair_law(wa, wb, *inst[wa], *inst[wb], True)
        if thorough:
            wa, wb = rnd.sample(ws, 2)
            pair_law(wa, wb, *inst[wa], *inst[wb], True)
        # the same instance twice: hashing is repeatable
        a, ea = inst["parse"]
        if hash_of(a) != hash_of(a):
            viol("hashing one instance twice gives two results", dict(L.cd0, a=ea, call="hash(a) == hash(a)"))
        for w, (x, ex) in inst.items():
            if bool(x) != truth(x):
                viol(f"bool(instance made by {w}) is {bool(x)} but any(bool(field)) is {truth(x)} (fields {[getattr(x, nm) for nm in names]!r})",
                     dict(L.cd0, a=ex, call="bool(a)"))
                break
        res.feat("v6b:bool:" + ("truthy" if truth(a) else "falsy"))
    guard("comparing / hashing instances with equal fields", L.cd0, eq_laws)

    # one member differs
    def ne_laws():
        cands = [j for j in range(n) if not has_void_only(fields[j]["ty"])]
        for j in (cands if thorough else rnd.sample(cands, min(2, len(cands)))):
            for _ in range(40):
                w = rand_val(rnd, fields[j]["ty"], L.cfg, fields[j]["bits"])
                v2 = list(vals)
                v2[j] = w
                if L.image(v2) != L.image(vals):
                    break
            else:
                continue
            wa, wb = rnd.choice(ways), rnd.choice(ways)
            a, ea = inst[wa]
            b, eb = make(wb, v2)
            res.feat("v6b:pair-differing-in:" + kind_of(fields[j]))
            pair_law(wa, wb + f" with another {L.attr(j)}", a, ea, b, eb, False)
    guard("making / comparing an instance that differs in one member", L.cd0, ne_laws)

    # the same value under another name
    def alias_laws():
        for j in range(n):
            if fields[j]["bits"]:
                continue
            for path, en in alias_paths(fields[j]["ty"], vals[j]):
                cur = enum_int(get_path(vals[j], path))
                nms = ENUMS[en][2][cur]
                na, nb = rnd.sample(nms, 2)
                va, vb = list(vals), list(vals)
                va[j] = set_path(vals[j], path, (na, cur))
                vb[j] = set_path(vals[j], path, (nb, cur))
                wa, wb = rnd.choice(["keywords", "assignment", "positional"]), rnd.choice(["keywords", "assignment", "positional"])
                a, ea = make(wa, va)
                b, eb = make(wb, vb)
                res.feat("v6b:alias-pair:" + en)
                pair_law(wa + f" ({en}.{na})", wb + f" ({en}.{nb})", a, ea, b, eb, True, alias_pair=True)
                p, ep = inst["parse"]
                pair_law(wa + f" ({en}.{na})", "parse", a, ea, p, ep, True, alias_pair=True)
    guard("making / comparing instances that name one enum value differently", L.cd0, alias_laws)

    # a fresh void value assigned to a void member: nothing changes
    def void_laws():
        raw = L.image(vals)
        for j in range(n):
            k = kind_of(fields[j])
            if k not in ("void", "void[k]"):
                continue
            y = T(raw)
            new = L.real(j, vals[j])
            setattr(y, L.attr(j), new)
            d = y.dumps()
            cd = dict(L.cd0, call=f"y = T(bytes.fromhex({raw.hex()!r})); y.{L.attr(j)} = {L.show(j, vals[j])}; y.dumps()", field=L.attr(j))
            res.count((L.key, raw, "void-assign", j), True)
            res.feat("v6b:assign:" + k)
            if d != raw:
                viol(f"assigning a fresh void value to {L.attr(j)} changes the dump from {raw.hex()} to {d.hex()} (len(T) = {L.size})", cd)
                continue
            p, ep = inst["parse"]
            pair_law("parse, then a fresh void assigned", "parse", y, cd["call"], p, ep, True)
        d = inst["keywords"][0].dumps()
        if d != raw:
            viol(f"the keyword-constructed instance dumps as {d.hex()}, the image of its values is {raw.hex()}", dict(L.cd0, call=inst["keywords"][1] + ".dumps()"))
    guard("assigning a void member / dumping", L.cd0, void_laws)


def run_special(env, res, viol, rnd, reps):
    from . import impl
    dc = impl.dc()
    thorough = env["tier"] != "quick"
    for _ in range(reps):
        cfg = Cfg(rnd.choice("<>"), rnd.random() < 0.4, rnd.choice(["uint16", "uint32", "uint64"]))
        compiled = rnd.random() < 0.5
        fields, used = gen_special(rnd)
        try:
            L = Loaded(dc, fields, cfg, compiled)
        except Exception as e:  # noqa: BLE001
            viol(f"definition rejected: {type(e).__name__}: {e}", {"definition": defs.render_struct("T", ("struct", fields)), "endian": cfg.endian,
                                                                    "align": cfg.align, "compiled": compiled})
            continue
        for k in sorted(used):
            res.feat("v6b:member:" + k)
        res.feat("v6b:" + ("aligned" if cfg.align else "packed") + "," + ("compiled" if compiled else "interpreted") + "," + cfg.endian)
        if not check_layout(L, viol):
            continue
        special_def(res, Budget(viol), rnd, L, used, thorough)
