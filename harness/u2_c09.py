"""Generators and probes for the C09 checks added by u2 (round 3):

* `run_tail`   aligned records, valid by construction: structures whose LAST member is dynamically sized (expression-sized or
               null-terminated array of char / wchar / integers / enum / LEB128 / structures, a LEB128 scalar, a nested
               structure that itself ends in such an array, arrays of it) placed behind static heads of every alignment, so
               that the member starts at aligned and unaligned static offsets and the real end of the value is, or is not,
               on an alignment boundary.  An own encoder lays the record out (padding = noise); the independent reference
               parser says what the value and the encoded size are.  Checked on the real library: every stream call form at
               aligned start offsets p leaves the stream at p + encoded size with the reference value; the compiled and the
               interpreted reader agree; three different records back to back on one stream; the array type T[k] over k
               records; buffer forms with trailing noise.  Packed twins and "a static field follows" run as controls.
* `run_kinds`  the input-kind axis with memoryviews that are not plain byte views: item sizes 2/4/8 (`cast("H"/"I"/"Q"/...)`
               over bytes, bytearray and array.array), multi-dimensional views, 0-dimensional views, offset slices, and
               non-contiguous views (accepted or uniformly rejected), for every type kind (scalars, enums, fixed / 2-d /
               null-terminated arrays, char and char arrays, typedefs and typedefs of typedefs of them, structures and unions
               around them) with lengths chosen so that the ITEM count, the first dimension or the byte count collides with
               the type size.  Every call form must give what the reference parser gives for `view.tobytes()`.
* `view_forms` a sample of the same view kinds for the generic offset / kind / form matrix of props/c09.py:probe.
"""
from __future__ import annotations

import array
import io
import itertools
import random
import re

from . import defs, impl, refimpl, s3_c09
from .common import A
from .structprops import load

S = s3_c09.S
F = s3_c09.F


def _c09():
    from .props import c09  # late: props/c09.py imports this module
    return c09


def roundup(n, a):
    return (n + a - 1) // a * a


# ------------------------------------------------------------------------------------------------ encoder (valid by construction)

def _pad_to(out: bytearray, n: int, rnd):
    while len(out) < n:
        out.append(rnd.choice([0, 0xFF, 0x41, rnd.randrange(256)]))


def _elem_name(ty):
    return ty[1]  # ("sc", name) / ("enum", name): the names of s3_c09.ELEMS


def emit(ty, out: bytearray, rnd, endian, cfg, f=None, ctx=None):
    """append one valid encoding of `ty` at position len(out) (relative to an aligned record start; alignment gaps and tail
    padding are noise).  Integer members return their value; a field dict may carry  gen: rnd -> value of this integer,
    count: rnd -> number of elements of this null-terminated array."""
    order = "little" if endian == "<" else "big"
    k = ty[0]
    if k == "enum":
        return emit(("sc", defs.ENUMS[ty[1]][1]), out, rnd, endian, cfg, f, ctx)
    if k == "sc":
        kind, size, signed, _ = refimpl.sc(ty[1])
        if kind == "int":
            if f is not None and "gen" in f:
                v = f["gen"](rnd)
                out += v.to_bytes(size, order, signed=signed)
                return v
            bs = bytes(rnd.choice([0, 0xFF, 0x80, 1, rnd.randrange(256)]) for _ in range(size))
            out += bs
            return int.from_bytes(bs, order, signed=signed)
        if kind == "char":
            out.append(rnd.choice([0, 0x41, 0xFF, rnd.randrange(256)]))
        elif kind == "wchar":
            out += s3_c09.enc_elem(rnd, "wchar", endian)
        elif kind == "leb":
            out += s3_c09.enc_elem(rnd, "uleb128", endian)
        elif kind == "void":
            pass
        else:
            raise ValueError(kind)
        return None
    if k == "arr":
        elem, ln = ty[1], ty[2]
        if ln[0] == "null":
            en = _elem_name(elem)
            for _ in range(f["count"](rnd)):
                out += s3_c09.enc_elem(rnd, en, endian)
            out += s3_c09.zero_elem(en)
            return None
        n = ln[1] if ln[0] == "fixed" else max(0, refimpl.eval_expr(ln[1], ctx or {}, cfg.consts))
        for _ in range(n):
            if elem[0] in ("sc", "enum") and _elem_name(elem) in ("wchar", "uleb128", "ileb128"):
                out += s3_c09.enc_elem(rnd, _elem_name(elem), endian)
            else:
                emit(elem, out, rnd, endian, cfg)
        return None
    if k == "struct":
        maxal, mine = 1, {}
        for g in ty[1]:
            _, al = refimpl.size_align(g["ty"], cfg)
            maxal = max(maxal, al)
            if cfg.align:
                _pad_to(out, roundup(len(out), al), rnd)
            v = emit(g["ty"], out, rnd, endian, cfg, g, mine)
            if isinstance(v, int) and g["name"] is not None:
                mine[g["name"]] = ["int", v]
        end = len(out)
        if cfg.align:
            _pad_to(out, roundup(len(out), maxal), rnd)
        return ("struct", end)  # where the last member really ends (before the tail padding)
    raise ValueError(k)


# ------------------------------------------------------------------------------------------------ aligned records with a dynamic tail

SCALAR_ELEMS = ["char", "char", "wchar", "uint8", "uint16", "uint32", "uint24", "int64", "E8", "uleb128"]
STRUCT_ELEMS = {
    "pair": s3_c09.PAIR,
    "u8u16": ("struct", [F("x", S("uint8")), F("y", S("uint16"))]),
    "u32u8": ("struct", [F("id", S("uint32")), F("flag", S("uint8"))]),
    "u16c3": ("struct", [F("a", S("uint16")), F("c", ("arr", S("char"), ("fixed", 3)))]),
}
HEAD_POOL = [
    lambda: S("uint8"), lambda: S("uint16"), lambda: S("uint32"), lambda: S("uint64"), lambda: S("char"), lambda: S("int128"),
    lambda: ("enum", "E8"), lambda: ("enum", "E32"), lambda: ("arr", S("char"), ("fixed", 3)), lambda: ("arr", S("uint16"), ("fixed", 2)),
    lambda: ("struct", [F("hx", S("uint8")), F("hy", S("uint32"))]), lambda: S("void"),
]
COUNT_EXPRS = ["n", "n", "n", "n & 7", "n + 1", "n * 2", "K2 + n", "n % 5"]


def _elem(rnd, allow_struct=True):
    if allow_struct and rnd.random() < 0.25:
        k = rnd.choice(sorted(STRUCT_ELEMS))
        return k, STRUCT_ELEMS[k]
    en = rnd.choice(SCALAR_ELEMS)
    return en, s3_c09.ELEMS[en]


def _count_gen(hi):
    return lambda r: min(hi, r.choice([0, 1, 1, 2, 3, 3, 5, 6, 7, 9, 13, r.randint(0, 40)]))


def _dyn_member(rnd, name, cnt_name="n"):
    """-> (label, [fields]) one dynamically sized member (the count field it needs is supplied by the caller)"""
    kind = rnd.choice(["expr", "expr", "expr", "null", "null", "leb"])
    if kind == "expr":
        en, et = _elem(rnd)
        ex = rnd.choice(COUNT_EXPRS).replace("n", cnt_name)
        return f"expr:{en}", F(name, ("arr", et, ("expr", ex)))
    if kind == "null":
        en, et = _elem(rnd, allow_struct=False)
        f = F(name, ("arr", et, ("null",)))
        f["count"] = _count_gen(40)
        return f"null:{en}", f
    return "leb", F(name, S(rnd.choice(["uleb128", "ileb128"])))


def tail_case(rnd: random.Random):
    """-> dict(label, tree).  struct { <0..2 static heads> CT n; <0..1 static> <dynamic member(s)> [static follower]; }"""
    cnt_ty = rnd.choice(["uint8", "uint16", "uint32", "uint32", "uint32", "uint64"])
    k = [0]

    def nm():
        k[0] += 1
        return f"h{k[0]}"

    fs = [F(nm(), rnd.choice(HEAD_POOL)()) for _ in range(rnd.choice([0, 0, 0, 1, 1, 2]))]
    n = F("n", S(cnt_ty))
    n["gen"] = _count_gen(40)
    fs.append(n)
    if rnd.random() < 0.25:
        fs.append(F(nm(), rnd.choice(HEAD_POOL)()))
    shape = rnd.choice(["last", "last", "last", "last", "two", "inner", "inner-arr", "follow"])
    if shape in ("last", "follow"):
        lab, f = _dyn_member(rnd, "s")
        fs.append(f)
        if shape == "follow":
            fs.append(F("after", rnd.choice([S("uint8"), S("uint16"), S("uint32"), S("char")])))
    elif shape == "two":
        lab1, f1 = _dyn_member(rnd, "s")
        lab2, f2 = _dyn_member(rnd, "t")
        fs += [f1, f2]
        lab = f"{lab1}+{lab2}"
    else:
        m = F("m", S(rnd.choice(["uint8", "uint16", "uint32"])))
        m["gen"] = _count_gen(40)
        lab, f = _dyn_member(rnd, "s", cnt_name="m")
        inner = ("struct", [*([F("tag", S(rnd.choice(["uint8", "uint16", "uint64"])))] if rnd.random() < 0.4 else []), m, f])
        fs.append(F("r", inner if shape == "inner" else ("arr", inner, ("fixed", rnd.choice([1, 2, 3])))))
    return {"label": f"{shape}:{lab}", "shape": shape, "tree": ("struct", fs)}


def _ref(tree, body, cfg):
    try:
        v, end, _ = refimpl.parse(tree, body, 0, cfg)
        return ("ok", v, end)
    except refimpl.Short:
        return ("err", "EOFError")
    except refimpl.Bad:
        return ("err", "Bad")


STREAM_FORMS = {
    "T(BytesIO)": lambda T, cs, s: T(s), "T.read(BytesIO)": lambda T, cs, s: T.read(s), "cs.read(name, BytesIO)": lambda T, cs, s: cs.read("T", s),
    "T(file-like)": lambda T, cs, s: T(s), "T.read(file-like)": lambda T, cs, s: T.read(s), "cs.read(name, file-like)": lambda T, cs, s: cs.read("T", s),
}


def _stream(form, data, pos):
    if "file-like" in form:
        return _c09().MiniFile(data, pos)
    s = io.BytesIO(data)
    s.seek(pos)
    return s


def _noise(rnd, n):
    return bytes(rnd.randrange(256) for _ in range(n))


def run_tail(env, eng, res, rnd):
    c09 = _c09()
    eq = c09.eq
    tier = env["tier"]
    for _ in range(140 if tier == "quick" else 2500):
        case = tail_case(rnd)
        tree = case["tree"]
        for endian, align, compiled in itertools.product("<>", (True, True, False), (True, False)):
            if rnd.random() < (0.72 if tier == "quick" else 0.4):
                continue
            L, err = load(tree, endian=endian, align=align, compiled=compiled)
            if L is None:
                eng.report(f"definition rejected: {type(err).__name__}: {err}", {"definition": defs.render_struct("T", tree)}, [])
                continue
            T = L.T
            sigs = eng.sigs(L)
            cfg = refimpl.Cfg(endian, align, "uint64", impl.CONSTS)
            recs, refs, ends = [], [], []
            for _j in range(3):
                out = bytearray()
                ends.append(emit(tree, out, rnd, endian, cfg)[1])
                r = _ref(tree, bytes(out), cfg)
                if r[0] != "ok" or r[2] != len(out):
                    break
                recs.append(bytes(out))
                refs.append(r)
            if len(recs) < 3:
                res.feat("tail: constructed record not accepted by the reference parser")
                continue
            Aln = max(1, refimpl.size_align(tree, cfg)[1]) if align else 1
            lay = refimpl.struct_layout(tree[1], cfg)
            last_off = lay["offsets"][-1]
            unpadded = bool(ends[0] % Aln)
            mode = "aligned" if align else "packed"
            res.feat(f"tail:{mode}:{case['shape']}")
            res.feat(f"tail:{mode}:{case['label'].split(':', 1)[1].split(':')[0]}")
            if align:
                res.feat("tail: dynamic last member at a static offset that is " + ("not known statically" if last_off is None else "a multiple of the structure alignment" if last_off % Aln == 0 else "not a multiple of the structure alignment"))
                res.feat("tail: real end of the value " + ("not " if unpadded else "") + "on an alignment boundary")
            if compiled:
                res.feat("tail: compiled reader " + ("active" if getattr(T, "__compiled__", False) else "fell back to the interpreter"))
            twin = None
            if compiled:
                twin, _e = load(tree, endian=endian, align=align, compiled=False)
            # (1) one record at aligned start offsets, every stream call form: reference value, stream at p + encoded size
            offsets = sorted({0, Aln, 3 * Aln, Aln * rnd.randint(1, 40)} | (set() if align else {1, 3, 7}))
            body, ref = recs[0], refs[0]
            for p in offsets:
                data = _noise(rnd, p) + body + _noise(rnd, rnd.choice([0, 1, 9, 16]))
                for form in rnd.sample(sorted(STREAM_FORMS), 3 if p else 6):
                    s = _stream(form, data, p)
                    try:
                        obj = STREAM_FORMS[form](T, L.cs, s)
                        got = ("ok", impl.canon(obj), s.tell())
                    except Exception as e:  # noqa: BLE001
                        got = ("err", impl.err_class(e))
                    res.count((L.text, endian, align, compiled, body, p, form, "tail"), True)
                    res.feat("tail-form:" + form)
                    if got[0] != "ok" or not eq(got[1], ref[1]) or got[2] != p + ref[2]:
                        eng.report(f"{case['label']} ({mode}, {'compiled' if compiled else 'interpreted'}): {form} from offset {p} gives {str(got[1])[:160]} and leaves the "
                                   f"stream at {got[2] if got[0] == 'ok' else None}; the reference parser gives {str(ref[1])[:160]} with encoded size {ref[2]}, "
                                   f"i.e. the stream belongs at {p + ref[2]}", eng.case_data(L, data=data, pos=p, form=form), sigs)
                # (2) the interpreted reader of the same definition
                if twin is not None:
                    s1, s2 = _stream("B", data, p), _stream("B", data, p)
                    try:
                        a = (impl.canon(T.read(s1)), s1.tell())
                        b = (impl.canon(twin.T.read(s2)), s2.tell())
                        same = eq(a[0], b[0], False) and a[1] == b[1]
                    except Exception as e:  # noqa: BLE001
                        a, b, same = repr(e), None, False
                    res.count((L.text, endian, align, body, p, "tail-twin"), True)
                    res.feat("tail: compiled reader against the interpreted reader")
                    if not same:
                        eng.report(f"{case['label']} ({mode}) from offset {p}: the compiled reader gives (value, position) {str(a)[:200]}, the interpreted reader {str(b)[:200]}",
                                   eng.case_data(L, data=data, pos=p), sigs)
            # (3) three different records back to back on one stream (forms mixed)
            p = Aln * rnd.choice([0, 1, 2, 5])
            data = _noise(rnd, p) + b"".join(recs) + _noise(rnd, rnd.choice([0, 8]))
            for form0 in rnd.sample(sorted(STREAM_FORMS), 2):
                s = _stream(form0, data, p)
                kind = "file-like" if "file-like" in form0 else "BytesIO"
                seq = [form0] + [rnd.choice([x for x in STREAM_FORMS if kind in x]) for _j in range(2)]
                want, at = [], p
                for r in refs:
                    at += r[2]
                    want.append((r[1], at))
                got = []
                try:
                    for form in seq:
                        obj = STREAM_FORMS[form](T, L.cs, s)
                        got.append((impl.canon(obj), s.tell()))
                    ok = all(eq(g[0], w[0], False) and g[1] == w[1] for g, w in zip(got, want))
                except Exception as e:  # noqa: BLE001
                    ok = False
                    got.append((repr(e), None))
                res.count((L.text, endian, align, compiled, data, p, tuple(seq), "tail-seq"), True)
                res.feat("tail: three different records back to back")
                if not ok:
                    eng.report(f"{case['label']} ({mode}, {'compiled' if compiled else 'interpreted'}): reads {seq} back to back from offset {p} leave the stream at "
                               f"{[g[1] for g in got]} (expected {[w[1] for w in want]}) with values {str([g[0] for g in got])[:240]}; each record's bytes on their own give "
                               f"{str([r[1] for r in refs])[:240]}", eng.case_data(L, data=data, pos=p, forms=seq, record_lengths=[len(b) for b in recs]), sigs)
            # (4) the array type T[k] over k records
            for kk in (2, 3):
                AT = T[kk]
                s = _stream("B", data, p)
                want_end = p + sum(r[2] for r in refs[:kk])
                try:
                    v = AT.read(s) if p else AT(s)
                    got = ("ok", impl.canon(v), s.tell())
                except Exception as e:  # noqa: BLE001
                    got = ("err", impl.err_class(e))
                res.count((L.text, endian, align, compiled, data, p, kk, "tail-array"), True)
                res.feat("tail: array type T[k] over k records")
                if got[0] != "ok" or not eq(got[1], [A("list"), *[r[1] for r in refs[:kk]]], False) or got[2] != want_end:
                    eng.report(f"{case['label']} ({mode}, {'compiled' if compiled else 'interpreted'}): T[{kk}] from offset {p} gives {str(got[1])[:200]} and leaves the stream at "
                               f"{got[2] if got[0] == 'ok' else None}; the records on their own give {str([r[1] for r in refs[:kk]])[:200]}, ending at {want_end}",
                               eng.case_data(L, data=data, pos=p, type=f"T[{kk}]"), sigs)
            # (5) buffer inputs with trailing noise
            data = body + _noise(rnd, rnd.choice([0, 3, 8]))
            for name, fn in (("T(bytes)", lambda: T(data)), ("T(bytearray)", lambda: T(bytearray(data))), ("T.read(memoryview)", lambda: T.read(memoryview(data))),
                             ("T.reads(bytes)", lambda: T.reads(data)), ("cs.read(name, bytearray)", lambda: L.cs.read("T", bytearray(data)))):
                try:
                    got = ("ok", impl.canon(fn()))
                except Exception as e:  # noqa: BLE001
                    got = ("err", impl.err_class(e))
                res.count((L.text, endian, align, compiled, data, name, "tail-buffer"), True)
                if got[0] != "ok" or not eq(got[1], ref[1]):
                    eng.report(f"{case['label']} ({mode}): {name} gives {str(got[1])[:200]}; the reference parser gives {str(ref[1])[:200]}",
                               eng.case_data(L, data=data, form=name), sigs)
    eng.flush()


# ------------------------------------------------------------------------------------------------ input kinds: views that are not byte views

ITEM_FORMATS = ["H", "I", "Q", "h", "i", "q", "f", "d", "c", "b", "B", "?"]


def _lengths(S_, e, k):
    """byte lengths (multiples of k, >= e) for an encoding of e bytes of a type of size S_: the item count equals the size, the
    byte count equals the size (rounded up), one item more"""
    out = {roundup(e, k), roundup(e, k) + k}
    if S_ is not None and S_ * k >= e:
        out |= {S_ * k, S_ * k + k}
    return sorted(out)


def view_kinds(rnd, enc, size):
    """yield (label, object, expected bytes) : buffer objects whose tobytes() starts with `enc` (an encoding of a type of
    static size `size`, or None), followed by noise up to the length the view kind needs"""
    e = len(enc)
    for fmt in ITEM_FORMATS:
        k = memoryview(b"").cast(fmt).itemsize
        for n in _lengths(size, e, k):
            raw = enc + _noise(rnd, n - e)
            src = rnd.choice(["bytes", "bytearray", "array"]) if fmt in "HIQhiqfd" else rnd.choice(["bytes", "bytearray"])
            if src == "array":
                a = array.array(fmt)
                if a.itemsize != k:
                    continue
                a.frombytes(raw)
                v = memoryview(a)
            else:
                v = memoryview(raw if src == "bytes" else bytearray(raw)).cast(fmt)
            yield f"memoryview[{fmt}] over {src}, {len(v)} items", v, raw
    # multi-dimensional: the first dimension is what len() reports
    for fmt, k in (("B", 1), ("H", 2), ("I", 4)):
        for first in sorted({size or 1, 2, 3}):
            inner = max(rnd.choice([2, 3, 4]), -(-e // (first * k)))
            n = first * inner * k
            raw = enc + _noise(rnd, n - e)
            yield f"memoryview[{fmt}] of shape {first}x{inner}", memoryview(raw).cast("B").cast(fmt, shape=[first, inner]), raw
    # 0-dimensional (len() is undefined)
    for fmt, k in (("Q", 8), ("I", 4), ("H", 2), ("B", 1)):
        if e <= k:
            raw = enc + _noise(rnd, k - e)
            yield f"0-dimensional memoryview[{fmt}]", memoryview(raw).cast("B").cast(fmt, shape=[]), raw
    # slices: a window of a larger buffer (byte items and 2-byte items)
    a, b = rnd.randint(1, 9), rnd.randint(0, 9)
    for n in sorted({e, (size or 0) if (size or 0) >= e else e, e + 3}):
        raw = enc + _noise(rnd, n - e)
        yield f"memoryview slice [{a}:{a + n}] of a {a + n + b}-byte buffer", memoryview(_noise(rnd, a) + raw + _noise(rnd, b))[a:a + n], raw
    for n in _lengths(size, e, 2):
        raw = enc + _noise(rnd, n - e)
        yield "memoryview[H] slice [1:-1]", memoryview(_noise(rnd, 2) + raw + _noise(rnd, 2)).cast("H")[1:-1], raw
    # not contiguous: accepted with the bytes the view stands for, or rejected by every call form alike
    raw = enc + _noise(rnd, rnd.choice([0, 2]))
    inter = bytes(itertools.chain.from_iterable((x, rnd.randrange(256)) for x in raw))
    yield "memoryview [::2] (not contiguous)", memoryview(inter)[::2], raw
    yield "memoryview [::-1] (not contiguous)", memoryview(raw[::-1])[::-1], raw
    # plain kinds (controls)
    yield "bytes", raw, raw
    yield "bytearray", bytearray(raw), raw
    yield "memoryview over bytearray", memoryview(bytearray(raw)), raw


KIND_SCALARS = ["char", "char", "uint8", "int8", "uint16", "int16", "uint32", "int32", "uint64", "int64", "uint24", "int128", "float16", "float", "double",
                "wchar", "uleb128", "ileb128"]
ARRAY_ELEMS = ["char", "char", "char", "uint8", "uint16", "wchar", "int32", "uint24", "E8", "F16"]


def _ty(name):
    return ("enum", name) if name in defs.ENUMS else ("sc", name)


def kind_case(rnd: random.Random):
    """-> dict(label, tree, text, name, direct)   text defines the type under `name` (typedef / struct / union, possibly through
    a second typedef); direct = (base name, [dims]) when the type can also be built as cs.<base>[d]... without a name"""
    r = rnd.random()
    direct = None
    dyn_enc = None
    if r < 0.2:
        b = rnd.choice(KIND_SCALARS + ["E8", "F16", "E32"])
        tree, label, direct = _ty(b), f"scalar:{b}", (b, [])
        if b in ("uleb128", "ileb128"):
            dyn_enc = lambda endian: s3_c09.enc_elem(rnd, b, endian)  # noqa: E731
    elif r < 0.5:
        b = rnd.choice(ARRAY_ELEMS)
        n = rnd.choice([0, 1, 2, 3, 4, 4, 5, 7, 8, 16])
        tree, label, direct = ("arr", _ty(b), ("fixed", n)), f"array:{b}[{n}]", (b, [n])
    elif r < 0.58:
        b = rnd.choice(["char", "char", "uint8", "uint16"])
        n, m = rnd.choice([1, 2, 3]), rnd.choice([1, 2, 4])
        tree, label, direct = ("arr", ("arr", _ty(b), ("fixed", m)), ("fixed", n)), f"array2d:{b}[{n}][{m}]", (b, [m, n])
    elif r < 0.68:
        b = rnd.choice(["char", "char", "wchar", "uint16", "uint8"])
        tree, label, direct = ("arr", _ty(b), ("null",)), f"array:{b}[]", (b, [None])
        cnt = rnd.choice([0, 1, 2, 3, 4, 7, 8])
        dyn_enc = lambda endian: b"".join(s3_c09.enc_elem(rnd, b, endian) for _ in range(cnt)) + s3_c09.zero_elem(b)  # noqa: E731
    elif r < 0.9:
        n = rnd.choice([1, 2, 3, 4, 4, 8])
        fs = rnd.choice([
            lambda: [F("a", ("arr", S("char"), ("fixed", n)))],                       # the single char/bytes member shortcut of structures
            lambda: [F("c", S("char"))],
            lambda: [F("a", ("arr", S("char"), ("fixed", n))), F("b", S("uint8"))],
            lambda: [F("b", S("uint16")), F("a", ("arr", S("char"), ("fixed", n)))],
            lambda: [F("c", S("char"), rnd.randint(1, 8))],
            lambda: [F("w", ("arr", S("wchar"), ("fixed", n)))],
            lambda: [F("x", S("uint32"))],
            lambda: [F("x", S("uint8")), F("y", S("uint64"))],
        ])()
        tree, label = ("struct", fs), "struct:" + "+".join(defs.render_field(f, None) for f in fs)
    else:
        n = rnd.choice([1, 2, 4, 8])
        fs = rnd.choice([
            lambda: [F("a", ("arr", S("char"), ("fixed", n))), F("b", S("uint32"))],
            lambda: [F("a", ("arr", S("char"), ("fixed", n)))],
            lambda: [F("c", S("char")), F("d", S("uint16"))],
        ])()
        tree, label = ("union", fs), "union:" + "+".join(defs.render_field(f, None) for f in fs)
    depth = rnd.choice([1, 1, 2])
    if tree[0] in ("struct", "union"):
        text = defs.render_struct("X" if depth == 2 else "T", tree) + ("typedef X T;\n" if depth == 2 else "")
    else:
        text = "typedef " + defs.render_field(F("X" if depth == 2 else "T", tree), None) + "\n" + ("typedef X T;\n" if depth == 2 else "")
    return {"label": label + f":typedef-depth-{depth}", "kind": label.split(":")[0], "tree": tree, "text": text, "direct": direct, "dyn_enc": dyn_enc}


def _static_bytes(rnd, n):
    mode = rnd.random()
    if mode < 0.5:
        return bytes(rnd.randrange(1, 0x80) for _ in range(n))  # never an ill-formed UTF-16 unit / NaN
    if mode < 0.75:
        return bytes(rnd.choice([0, 1, 0x41, 0x7F, 0x80, 0xFF]) for _ in range(n))
    return _noise(rnd, n)


def check_view(eng, res, L, what, forms, view, raw, want, sigs, extra):
    """one buffer object under every call form: the reference value of view.tobytes(); a view that is not contiguous may
    instead be rejected by every form alike"""
    outs = {}
    for name, fn in forms.items():
        try:
            outs[name] = ("ok", impl.canon(fn(view)))
        except Exception as e:  # noqa: BLE001
            outs[name] = ("err", impl.err_class(e))
    contiguous = not isinstance(view, memoryview) or view.c_contiguous
    if not contiguous and all(o[0] == "err" for o in outs.values()):
        res.feat("kinds: view that is not contiguous rejected by every call form")
        return
    eq = _c09().eq
    for name, o in outs.items():
        if o[0] != "ok" or not eq(o[1], want):
            others = {k: str(v[1])[:60] for k, v in outs.items() if k != name}
            eng.report(f"{what}: {name} with {extra['input']} ({len(raw)} bytes) gives {str(o[1])[:160]}; the same bytes as `bytes` parse to {str(want)[:160]} "
                       f"(other call forms: {others})", eng.case_data(L, data=raw, form=name, **extra), sigs)


def run_kinds(env, eng, res, rnd):
    tier = env["tier"]
    m = impl.dc()
    for _ in range(260 if tier == "quick" else 4000):
        case = kind_case(rnd)
        tree = case["tree"]
        endian = rnd.choice("<>")
        align = rnd.random() < 0.3 and tree[0] in ("struct", "union")
        compiled = rnd.random() < 0.5
        L = object.__new__(impl.Loaded)
        L.tree, L.endian, L.align, L.compiled, L.pointer = tree, endian, align, compiled, "uint64"
        L.text = defs.PREAMBLE + case["text"]
        L.cs = m.cstruct(endian=endian, pointer="uint64")
        try:
            L.cs.load(L.text, compiled=compiled, align=align)
            L.T = L.cs.T
        except Exception as e:  # noqa: BLE001
            res.feat(f"kinds: definition rejected:{case['kind']}:{type(e).__name__}")
            continue
        cfg = refimpl.Cfg(endian, align, "uint64", impl.CONSTS)
        size = refimpl.size_align(tree, cfg)[0]
        types = [("T", L.T, True)]
        if case["direct"]:
            base, dims = case["direct"]
            D = getattr(L.cs, base)
            for d in dims:
                D = D[d]
            types.append((f"cs.{base}" + "".join(f"[{'' if d is None else d}]" for d in reversed(dims)), D, False))
        if L.T.size != size:
            res.feat("kinds: type size differs from the reference layout (skipped)")
            continue
        for _i in range(2):
            enc = case["dyn_enc"](endian) if case["dyn_enc"] else _static_bytes(rnd, size)
            r = _ref(tree, enc, cfg)
            if r[0] != "ok" or r[2] != len(enc):
                res.feat("kinds: input not a value for the reference parser (" + str(r[1]) + ")")
                continue
            want = r[1]
            res.feat("kinds-type:" + case["kind"])
            res.feat("kinds:" + case["label"].rsplit(":", 1)[1])
            for tname, T, named in types:
                forms = {"T(x)": lambda x, T=T: T(x), "T.read(x)": lambda x, T=T: T.read(x), "T.reads(x)": lambda x, T=T: T.reads(x)}
                if named:
                    forms["cs.read(name, x)"] = lambda x: L.cs.read("T", x)
                for vlabel, view, raw in view_kinds(rnd, enc, size):
                    r2 = _ref(tree, raw, cfg)
                    if r2[0] != "ok" or r2[2] != len(enc) or not impl.same_val(r2[1], want):
                        continue  # cannot happen for these types (the noise is outside the extent)
                    res.count((L.text, tname, endian, align, compiled, raw, vlabel, "kinds"), True)
                    res.feat("kinds-input:" + re.sub(r"\d+x\d+|\[\d+:\d+\] of a \d+-byte buffer", "", vlabel.split(",")[0]).strip())
                    if isinstance(view, memoryview) and view.ndim == 1 and view.itemsize > 1 and size is not None and len(view) == size:
                        res.feat("kinds: item count of the view equals the type size")
                    if isinstance(view, memoryview) and view.ndim > 1 and size is not None and len(view) == size:
                        res.feat("kinds: first dimension of the view equals the type size")
                    check_view(eng, res, L, f"{case['label']} as {tname}", forms, view, raw, want, eng.sigs(L) if tree[0] in ("struct", "union") else [],
                               {"input": vlabel, "type": tname})


def view_forms(rnd, T, cs, body, consumed, keep, named=True):
    """a sample of non-byte views of `body` for the generic matrix: name -> thunk.  keep=True: the input must stay as it is
    (to-end-of-stream arrays), so only item sizes that divide its length are used; otherwise the bytes after the extent are
    replaced by noise up to the length the view needs (T.size items when the type has a static size)."""
    out = {}
    calls = [("T({})", lambda x: T(x)), ("T.read({})", lambda x: T.read(x)), ("T.reads({})", lambda x: T.reads(x))]
    if named:
        calls.append(("cs.read(name, {})", lambda x: cs.read("T", x)))
    size = getattr(T, "size", None)
    for fmt, k in rnd.sample([("H", 2), ("I", 4), ("Q", 8), ("h", 2), ("d", 8)], 3):
        if keep:
            if len(body) % k:
                continue
            raw = body
        else:
            n = rnd.choice([size * k if size else roundup(consumed, k), roundup(consumed, k), roundup(max(consumed, len(body)), k) + k])
            n = max(n, roundup(consumed, k))
            raw = body[:consumed].ljust(consumed, b"\x00") + _noise(rnd, n - consumed)
        src = rnd.choice(["bytes", "bytearray", "array"])
        if src == "array":
            a = array.array(fmt)
            a.frombytes(raw)
            v = memoryview(a)
        else:
            v = memoryview(raw if src == "bytes" else bytearray(raw)).cast(fmt)
        cname, call = rnd.choice(calls)
        out[cname.format(f"memoryview[{fmt}]")] = (lambda call=call, v=v: call(v))
    if not keep:
        first = size if size else 2
        raw = body[:consumed].ljust(consumed, b"\x00")
        n = max(first, 1) * 2
        while n < consumed:
            n += max(first, 1) * 2
        raw = raw + _noise(rnd, n - consumed)
        cname, call = rnd.choice(calls)
        out[cname.format("memoryview 2-d")] = (lambda call=call, v=memoryview(raw).cast("B", shape=[n // 2, 2]): call(v))
    return out
