"""C08 family (round 8): A VALUE RETURNED FROM A SHORTENED INPUT IS IDENTICAL IN EVERY OBSERVABLE to the value returned from
the complete input - not only field by field.

The other C08 probes compare the value a cut input returns with the value of the complete input through the canonical field
values (impl.canon, the buffer a union keeps aside).  A value of the library has more faces than its fields: `==` (unions
compare their serialisation, structures their fields), hash(), dumps() / bytes() / len() (a structure's len is the length of its
serialisation), write(), repr / str, bool, the recorded `_sizes`, dumpstruct(), and how it behaves when a member is assigned.
"Identical" in the property means identical in all of them: a value that prints the same fields but serialises to 5 bytes
where the value of the complete input serialises to 8 is a different value.

Cut inputs that still parse exist where the input ends BEHIND THE LAST DATA-CARRYING BYTE: inside the tail padding of an aligned
structure or union, of the last element of an array of them, of an aggregate that is the last member of another, behind
zero-length members.  So the family generates exactly such definitions (and controls without padding), and walks the ways in
which a value can be obtained from the bytes.

What is generated (all from the PRNG handed in):

  padded aggregates   union { WIDE a; SMALL b[n]; ... } whose largest member does not fill the aligned size (uint32 + char[5] -> 8;
                      uint64 + wchar[3]; int24 alone -> 4; double + uint16[5]; int128 + uint8[17]; nested structures / unions as
                      members, anonymous members, a third small member, any member order), struct { WIDE ...; SMALL last; } with tail
                      padding, zero-length last members, and - as controls - the same shapes where the body fills the size.
                      WIDE: integers of 2..16 bytes (int24 / uint48 included: size < alignment), floats, wchar, enums / flags,
                      pointers; SMALL: char / uint8 / int8 / BYTE / E8 (alignment 1), wchar / uint16 / F16 (2), uint32 / int24 / float (4).
  positions           the aggregate alone (T is the union / structure), as LAST member of a structure behind 0..2 leading members,
                      as anonymous last member, as last member's ARRAY (X u[n]), inside a union (union T { X inner; small c; }),
                      inside a structure that is itself the last member, and - control - followed by another member.
  random trees        a share of the rounds takes a definition from the general generator (defs.Gen, no to-end-of-stream arrays).
  configurations      {<, >} x {aligned (mostly), packed (control)} x {interpreted, compiled} x pointer size.
  inputs              accepted by T(io.BytesIO(.)), random bytes (the padding bytes of the complete input are mostly non-zero),
                      value / extent / data mask confirmed by the reference parser (refimpl), 0..3 bytes following.
  ways to a value     T(x), T.read(x), cs.read('T', x) with x = bytes | bytearray | memoryview | bytes subclass | io.BytesIO |
                      io.BufferedReader | an object that has only read / seek / tell | a real file opened 'rb' | the same unbuffered;
                      T.reads(x) with the buffer kinds; and the type INSIDE OTHER CONSTRUCTS, the cut falling into the embedded value:
                      T[2](x)[1] (second element of a bare array type), W(x).inner for struct W { uint8 lead; T inner; },
                      P(x).p.dereference() for struct P { T *p; } (the pointer target is cut off by the end of the stream).
                      x holds data[:k] for EVERY k from 0 to the end of the encoding.  Thorough tier: every way x every argument kind for
                      every cut behind the last data byte and every third other cut.  Quick tier: per definition the two plain ways
                      (T(bytes), T(BytesIO)) and two argument kinds drawn for each of the seven ways; one of the cuts behind the last
                      data byte goes through all of these, the other ones through the plain ways and four drawn ones, cuts before it
                      through the plain ways and two drawn ones (harness/v8_c08.py walks every way x every cut for EOFError).

Oracle (the property, per (definition, configuration, input, k, way)):
  * k at or before the last data-carrying byte (reference data mask): the call must raise EOFError; a returned value is fabricated.
  * k behind it: EOFError, or a value that is IDENTICAL to the value of the complete input: the same outcome (result or exception
    class) for repr, str, dumps(), bytes(), len(), hash(), bool(), _sizes, type(v).dumps(v), v.write(stream), dumpstruct(v) and the
    class name - on the value itself and on every member / array element below it (unions inside structures, structures inside
    unions, their wrappers) -, `short == full`, `full == short`, `short != full`, equal hashes and a dict lookup `{full: 1}[short]`
    (where hashable) at every aggregate level; after assigning every member its own current value (a no-op on a value) the
    serialisation and repr are still those of the complete input's value treated the same way; a stream argument stands where it
    stands after the complete input.
    Which observables are functions of the value is calibrated, not assumed: an observable / relation is compared only where TWO
    independent parses of the complete input agree on it (hash and == of a structure holding a NaN float do not).
  * the complete input returns, through every way, a value identical in the same sense (an exception there is a violation).
  * after the failing calls of a cut the complete input parses as before (no residue).
A part of the definitions also runs through the props module's cuts_and_faults (Lean model beside every cut, every read call faulted).

Not generated here: to-end-of-stream arrays (aside by the property); bit-fields on int24 in aligned mode (finding F23: declared size
and parsed extent disagree there, so "the end of the encoding" is not defined); the private `_buf` of a union is not an observable
(it holds the bytes that were read, so it is shorter for a shortened input by construction - only what the public interface derives
from it counts, and that is all compared).
"""
from __future__ import annotations

import io
import os
import re
import shutil
import tempfile

from . import defs, impl, refimpl
from .structprops import load, real_parse, rand_bytes, has_eof, small_unit_bits

# ------------------------------------------------------------------------------------------------ definitions

WIDE = ["uint16", "int16", "uint32", "int32", "uint64", "int64", "uint24", "int24", "uint48", "int48", "int128", "uint128", "float16", "float",
        "double", "wchar", "WORD", "DWORD", "QWORD", "unsigned int", "long long", "uint32", "uint32", "uint64"]
WIDE_ENUMS = ["E32", "F16", "E24"]
SMALL1 = [("sc", "char"), ("sc", "char"), ("sc", "uint8"), ("sc", "int8"), ("sc", "BYTE"), ("sc", "signed char"), ("enum", "E8"), ("sc", "unsigned char")]
SMALL2 = [("sc", "wchar"), ("sc", "uint16"), ("sc", "int16"), ("enum", "F16"), ("sc", "float16")]
SMALL4 = [("sc", "uint32"), ("sc", "int24"), ("sc", "uint24"), ("sc", "float"), ("enum", "E32")]


def F(ty, name, bits=None):
    return {"name": name, "ty": ty, "bits": bits}


def arr(ty, n):
    return ("arr", ty, ("fixed", n))


class Names:
    def __init__(self):
        self.n = 0

    def __call__(self):
        self.n += 1
        return f"m{self.n}"


def wide(rnd):
    r = rnd.random()
    if r < 0.78:
        return ("sc", rnd.choice(WIDE))
    if r < 0.90:
        return ("enum", rnd.choice(WIDE_ENUMS))
    return ("ptr", ("sc", rnd.choice(["char", "uint8", "uint32"])))


def small_body(rnd, al):
    """a member of alignment smaller than `al` (1 if al is 1 or 2), mostly an array whose size is no multiple of `al`"""
    pool = SMALL1 if al <= 2 or rnd.random() < 0.6 else SMALL2 if al <= 4 or rnd.random() < 0.6 else SMALL4
    el = rnd.choice(pool)
    n = rnd.choice([1, 1, 2, 3, 3, 5, 5, 6, 7, 9, 11, 13, 17])
    r = rnd.random()
    if r < 0.08:
        return el
    if r < 0.14:
        return arr(arr(el, rnd.randint(1, 3)), rnd.randint(1, 3))
    return arr(el, n)


def padded_union(rnd, names, depth, cfg):
    w = wide(rnd)
    if rnd.random() < 0.15 and depth > 0:
        w = padded_struct(rnd, names, depth - 1, cfg)
    _, al = refimpl.size_align(w, cfg)
    ms = [F(w, names())]
    r = rnd.random()
    if r < 0.85:
        ms.append(F(small_body(rnd, al), names()))
    if r > 0.7:
        ms.append(F(rnd.choice([("sc", "uint8"), ("sc", "uint16"), ("sc", "char"), arr(("sc", "char"), 2), ("enum", "E8")]), names()))
    if rnd.random() < 0.12 and depth > 0:
        inner = padded_struct(rnd, names, depth - 1, cfg) if rnd.random() < 0.6 else padded_union(rnd, names, depth - 1, cfg)
        ms.append(F(inner, None if rnd.random() < 0.35 else names()))
    rnd.shuffle(ms)
    return ("union", ms)


def padded_struct(rnd, names, depth, cfg):
    ms = [F(wide(rnd), names())]
    for _ in range(rnd.choice([0, 0, 1, 2])):
        ms.append(F(wide(rnd) if rnd.random() < 0.5 else small_body(rnd, 16), names()))
    r = rnd.random()
    _, al = refimpl.size_align(("struct", ms), cfg)
    if r < 0.62:
        ms.append(F(small_body(rnd, al), names()))
    elif r < 0.74 and depth > 0:
        ms.append(F(padded_union(rnd, names, depth - 1, cfg), None if rnd.random() < 0.3 else names()))
    elif r < 0.80:
        ms.append(F(rnd.choice([("sc", "uint8"), ("sc", "char")]), names()))
        ms.append(F(arr(rnd.choice([("sc", "char"), ("sc", "uint32"), ("sc", "uint8")]), 0), names()))   # a zero-length last member
    elif r < 0.86:
        ms.append(F(("sc", rnd.choice(["uint8", "uint16"])), names(), rnd.choice([1, 3, 7])))             # a lone bit-field at the end
    else:
        ms.append(F(("sc", rnd.choice(["uint8", "char", "int8"])), names()))
    return ("struct", ms)


def leading(rnd, names):
    return [F(rnd.choice([("sc", "uint8"), ("sc", "uint16"), ("sc", "char"), ("sc", "uint32"), arr(("sc", "char"), 3), ("enum", "E8"), ("sc", "uint64")]), names())
            for _ in range(rnd.choice([0, 1, 1, 2]))]


POSITIONS = ["alone", "alone", "alone", "last member", "last member", "anonymous last member", "array as last member", "inside a union",
             "inside the last member", "followed by a member (control)"]


def place(rnd, X, pos, names):
    """the aggregate X at position `pos` of the definition T"""
    if pos == "alone":
        return X
    if pos == "last member":
        return ("struct", leading(rnd, names) + [F(X, names())])
    if pos == "anonymous last member":
        return ("struct", leading(rnd, names) + [F(X, None)])
    if pos == "array as last member":
        return ("struct", leading(rnd, names) + [F(arr(X, rnd.choice([1, 2, 2, 3])), names())])
    if pos == "inside a union":
        ms = [F(X, names()), F(rnd.choice([("sc", "uint8"), ("sc", "uint16"), arr(("sc", "char"), 2)]), names())]
        rnd.shuffle(ms)
        return ("union", ms)
    if pos == "inside the last member":
        return ("struct", leading(rnd, names) + [F(("struct", leading(rnd, names) + [F(X, names())]), names())])
    return ("struct", [F(X, names()), F(rnd.choice([("sc", "uint8"), ("sc", "char"), ("sc", "uint32")]), names())])


C, U8, U32 = ("sc", "char"), ("sc", "uint8"), ("sc", "uint32")
# every seed starts with these (the padded union of the textbook, alone and in every position; a padded structure; controls)
_U = ("union", [F(U32, "a"), F(arr(C, 5), "b")])
_S = ("struct", [F(U32, "a"), F(U8, "b")])
DIRECTED = [
    ("alone", _U), ("alone", _S),
    ("last member", ("struct", [F(U8, "x"), F(_U, "u")])),
    ("anonymous last member", ("struct", [F(U8, "x"), F(_U, None)])),
    ("array as last member", ("struct", [F(("sc", "uint16"), "x"), F(arr(_U, 2), "u")])),
    ("array as last member", ("struct", [F(arr(_S, 2), "s")])),
    ("inside a union", ("union", [F(_S, "s"), F(("sc", "uint16"), "c")])),
    ("inside a union", ("union", [F(_U, "u"), F(U8, "c")])),
    ("inside the last member", ("struct", [F(U8, "x"), F(("struct", [F(("sc", "uint16"), "y"), F(_U, "u")]), "in")])),
    ("alone", ("union", [F(("sc", "uint64"), "a"), F(arr(("sc", "wchar"), 3), "w")])),
    ("alone", ("union", [F(("sc", "int24"), "a")])),
    ("alone", ("union", [F(arr(U8, 9), "b"), F(("sc", "double"), "d"), F(U8, "c")])),
    ("followed by a member (control)", ("struct", [F(_U, "u"), F(U8, "after")])),
    ("alone", ("union", [F(U32, "a"), F(arr(C, 8), "b")])),
]


def copy_tree(t):
    return defs._copy_ty(t)


def gen_definition(rnd, cfg):
    """-> (kind of definition, tree)"""
    r = rnd.random()
    if r < 0.15:
        g = defs.Gen(rnd, max_depth=rnd.choice([1, 2]), allow_eof=False, max_fields=4)
        return "random tree", g.struct()
    names = Names()
    X = padded_union(rnd, names, 1, cfg) if r < 0.7 else padded_struct(rnd, names, 1, cfg)
    pos = rnd.choice(POSITIONS)
    return f"padded {X[0]} {pos}", place(rnd, X, pos, names)


# ------------------------------------------------------------------------------------------------ arguments and ways to a value

class BytesSub(bytes):
    """an instance of a subclass of bytes"""


class Duck:
    """a readable object that offers read / seek / tell and nothing else (no io base class)"""

    def __init__(self, data):
        self._s = io.BytesIO(bytes(data))

    def read(self, n=-1):
        return self._s.read(n)

    def seek(self, pos, whence=0):
        return self._s.seek(pos, whence)

    def tell(self):
        return self._s.tell()


class Files:
    """real files: one scratch file, rewritten for every argument"""

    def __init__(self):
        self.dir = None

    def path(self):
        if self.dir is None:
            self.dir = tempfile.mkdtemp(prefix="c08obs-")
        return os.path.join(self.dir, "input.bin")

    def open(self, data, buffering):
        p = self.path()
        with open(p, "wb") as fh:
            fh.write(bytes(data))
        return open(p, "rb", buffering=buffering)   # noqa: SIM115 - closed by attempt()

    def close(self):
        if self.dir is not None:
            shutil.rmtree(self.dir, ignore_errors=True)
            self.dir = None


FILES = Files()

# (label, factory, source text for the repro, is a stream, has to be closed)
ARGS = [
    ("bytes", bytes, "bytes.fromhex({h!r})", False, False),
    ("bytearray", bytearray, "bytearray.fromhex({h!r})", False, False),
    ("memoryview", lambda b: memoryview(bytes(b)), "memoryview(bytes.fromhex({h!r}))", False, False),
    ("bytes-subclass", BytesSub, "type('B', (bytes,), {{}})(bytes.fromhex({h!r}))", False, False),
    ("BytesIO", lambda b: io.BytesIO(bytes(b)), "io.BytesIO(bytes.fromhex({h!r}))", True, False),
    ("BufferedReader", lambda b: io.BufferedReader(io.BytesIO(bytes(b))), "io.BufferedReader(io.BytesIO(bytes.fromhex({h!r})))", True, False),
    ("read-seek-tell object", Duck, "Duck(bytes.fromhex({h!r}))", True, False),
    ("file", lambda b: FILES.open(b, -1), "open(path_of_a_file_holding(bytes.fromhex({h!r})), 'rb')", True, True),
    ("unbuffered file", lambda b: FILES.open(b, 0), "open(path_of_a_file_holding(bytes.fromhex({h!r})), 'rb', buffering=0)", True, True),
]
NOTES = ("Duck: a class with read / seek / tell that delegate to an io.BytesIO, and nothing else; path_of_a_file_holding(b): the path of a file "
         "the bytes b were written to")
ALL = [a[0] for a in ARGS]
BUFFERS = [a[0] for a in ARGS if not a[3]]
PLAIN2 = ["bytes", "BytesIO"]

# (label, callable(ctx, x), argument kinds, which embedding it needs: then x holds that embedding's prefix in front of T's bytes)
WAYS = [
    ("T({x})", lambda c, x: c["T"](x), ALL, None),
    ("T.read({x})", lambda c, x: c["T"].read(x), ALL, None),
    ("T.reads({x})", lambda c, x: c["T"].reads(x), BUFFERS, None),
    ("cs.read('T', {x})", lambda c, x: c["cs"].read("T", x), ALL, None),
    ("T[2]({x})[1]", lambda c, x: c["T"][2](x)[1], PLAIN2 + ["memoryview", "file"], "array"),
    ("W({x}).inner", lambda c, x: c["W"](x).inner, PLAIN2 + ["bytearray", "BufferedReader"], "W"),
    ("P({x}).p.dereference()", lambda c, x: c["P"](x).p.dereference(), ["BytesIO", "BufferedReader", "read-seek-tell object", "file"], "P"),
]


def ways(ctx):
    out = []
    for label, fn, kinds, needs in WAYS:
        if needs is not None and ctx["prefix"].get(needs) is None:
            continue
        for a in ARGS:
            if a[0] in kinds:
                out.append((label, fn, a, ctx["prefix"][needs] if needs else b""))
    return out


# ------------------------------------------------------------------------------------------------ observables

MISSING = ("absent",)
HIDE = ("hash",)   # outcomes that differ from process to process (string hashing is salted): never printed, never put into a replay


_ADDR = re.compile(r" at 0x[0-9a-fA-F]+")


def _try(fn):
    try:
        r = fn()
    except Exception as e:  # noqa: BLE001
        return ("err", type(e).__name__)
    if type(r) is str and " at 0x" in r:
        r = _ADDR.sub(" at 0x...", r)   # (the default repr of an object - a void member's - names its address)
    return ("ok", r)


def _written(v):
    s = io.BytesIO()
    n = v.write(s)
    return (n, s.getvalue())


def _target(v):
    return object.__getattribute__(v, "__target__") if type(v).__name__ == "UnionProxy" else v


def is_agg(dc, v):
    return isinstance(v, dc.Structure) or type(v).__name__ == "UnionProxy"


def observe(dc, v, out=None, path="v", top=True, budget=None):
    """every public face of a value and of the values below it -> {(path, observable): ('ok', result) | ('err', class name)}"""
    out = {} if out is None else out
    budget = [80] if budget is None else budget
    budget[0] -= 1
    if budget[0] < 0:
        return out
    put = lambda name, fn: out.__setitem__((path, name), _try(fn))  # noqa: E731
    if is_agg(dc, v):
        t = _target(v)
        put("class", lambda: type(t).__name__ + ("" if t is v else " (wrapped)"))
        put("repr", lambda: repr(v))
        put("dumps()", lambda: bytes(v.dumps()))
        put("len()", lambda: len(v))
        put("hash", lambda: hash(v))
        put("bool()", lambda: bool(v))
        put("_sizes", lambda: tuple(sorted((str(k), int(n)) for k, n in v._sizes.items())))
        if top or t is not v:   # (below the top the further spellings of the serialisation are left to the wrappers: they have their own code)
            put("str", lambda: str(v))
            put("bytes()", lambda: bytes(v))
        if top:
            put("type(v).dumps(v)", lambda: bytes(type(v).dumps(v)))
            put("v.write(stream)", lambda: _written(v))
            put("dumpstruct(v)", lambda: dc.dumpstruct(v, output="string", color=False))
        fields = _try(lambda: [f._name for f in type(t).__fields__])
        if fields[0] == "ok":
            for name in fields[1]:
                m = _try(lambda: getattr(v, name))   # noqa: B023
                if m[0] == "ok":
                    observe(dc, m[1], out, f"{path}.{name}", False, budget)
                else:
                    out[(f"{path}.{name}", "access")] = m
    elif isinstance(v, list):
        put("class", lambda: type(v).__name__)
        put("repr", lambda: repr(v))
        put("number of elements", lambda: len(v))
        put("dumps()", lambda: bytes(v.dumps()))
        for i, x in enumerate(v[:6]):
            observe(dc, x, out, f"{path}[{i}]", False, budget)
    else:
        put("class", lambda: type(v).__name__)
        put("repr", lambda: repr(v))
        if isinstance(v, dc.BaseType) and not isinstance(v, dc.Pointer):
            put("dumps()", lambda: bytes(type(v).dumps(v)))
    return out


def aggregates_of(dc, v, path="v", out=None, budget=None):
    out = [] if out is None else out
    budget = [24] if budget is None else budget
    if budget[0] <= 0:
        return out
    if is_agg(dc, v):
        budget[0] -= 1
        out.append((path, v))
        try:
            names = [f._name for f in type(_target(v)).__fields__]
        except Exception:  # noqa: BLE001
            names = []
        for n in names:
            try:
                aggregates_of(dc, getattr(v, n), f"{path}.{n}", out, budget)
            except Exception:  # noqa: BLE001
                pass
    elif isinstance(v, list):
        for i, x in enumerate(v[:4]):
            aggregates_of(dc, x, f"{path}[{i}]", out, budget)
    return out


def relations(dc, a, b):
    """how value a stands to value b (b: the value of the complete input), at every aggregate level"""
    out = {}
    bs = dict(aggregates_of(dc, b, "v"))
    for path, x in aggregates_of(dc, a, "v"):
        if path not in bs:
            out[(path, "counterpart")] = MISSING
            continue
        y = bs[path]
        out[(path, "short == full")] = _try(lambda: bool(x == y))      # noqa: B023
        out[(path, "full == short")] = _try(lambda: bool(y == x))      # noqa: B023
        out[(path, "short != full")] = _try(lambda: bool(x != y))      # noqa: B023
        out[(path, "hash(short) == hash(full)")] = _try(lambda: hash(x) == hash(y))   # noqa: B023
        out[(path, "{full: 1}.get(short)")] = _try(lambda: {y: 1}.get(x))              # noqa: B023
    return out


def reassigned(dc, v):
    """assign every member of the (fresh) value its own current value - a no-op on a value - and look at it again"""
    out = {}
    for path, x in aggregates_of(dc, v, "v", budget=[6]):
        t = _target(x)
        try:
            names = [f._name for f in type(t).__fields__]
        except Exception:  # noqa: BLE001
            continue
        for n in names:
            out[(path, f"v.{n} = v.{n}")] = _try(lambda: setattr(x, n, getattr(x, n)))   # noqa: B023
    out[("v", "dumps() after the assignments")] = _try(lambda: bytes(v.dumps()))
    out[("v", "repr after the assignments")] = _try(lambda: repr(v))
    out[("v", "len() after the assignments")] = _try(lambda: len(v))
    return out


def differences(got, want, stable):
    """keys on which `got` differs from `want`, among the keys two parses of the complete input agree on"""
    out = []
    for k in want.keys() | got.keys():
        if k in want and k not in stable:
            continue
        g, w = got.get(k, MISSING), want.get(k, MISSING)
        if g != w:
            out.append((k, g, w))
    out.sort(key=lambda d: (d[0][0].count("."), d[0][0], d[0][1]))
    return out


def show(k, g, w):
    path, name = k
    if name in HIDE:
        return f"{name} of {path} differs from the one of the complete input's value"
    f = lambda o: "absent" if o is MISSING else ("raises " + o[1]) if o[0] == "err" else repr(o[1])[:90]   # noqa: E731
    return f"{name} of {path} is {f(g)}, of the complete input's value {f(w)}"


# ------------------------------------------------------------------------------------------------ the probe

def attempt(fn, ctx, arg, payload):
    """-> ('ok', value, stream position or None) | ('err', exception class name)"""
    x = arg[1](payload)
    try:
        try:
            v = fn(ctx, x)
        except Exception as e:  # noqa: BLE001
            return ("err", type(e).__name__)
        pos = None
        if arg[3]:
            try:
                pos = x.tell()
            except Exception as e:  # noqa: BLE001
                pos = "tell() raises " + type(e).__name__
        return ("ok", v, pos)
    finally:
        if arg[4]:
            try:
                x.close()
            except Exception:  # noqa: BLE001
                pass


def probe(dc, res, viol, ctx, data, end, last, key, case, rnd, thorough):
    """every way to a value x every cut of one accepted input.  end: extent of the encoding of T (T(io.BytesIO(data)));
    last: index of the last data-carrying byte or None (unknown: a cut before `end` may raise or return the complete value)."""
    wl = ways(ctx)
    plain = [w for w in wl if w[0] == "T({x})" and w[2][0] in ("BytesIO", "bytes")]
    if not thorough:
        # the quick tier takes, per definition, the two plain ways and two argument kinds for each of the ways (all of them in the thorough tier)
        by = {}
        for w in wl:
            if w not in plain:
                by.setdefault(w[0], []).append(w)
        wl = plain + [w for ws in by.values() for w in rnd.sample(ws, min(2, len(ws)))]
    nbad = [0]

    def bad(what, k, label, arg, prefix):
        nbad[0] += 1
        if nbad[0] > 4:   # one definition, one defect: a handful of witnesses is enough
            return
        h = (bytes(prefix) + bytes(data[:k])).hex()
        call = label.format(x=arg[2].format(h=h))
        viol(f"{call}: {what}", dict(case, call=call, cut=k, data=bytes(data).hex(), prefix=bytes(prefix).hex(), argument=arg[0], notes=NOTES,
                                     repro=case.get("repro", "") + f"; import io; v = {call}"))

    # --- the value of the complete input, twice (calibration: which observables are functions of the value)
    base = []
    for _ in range(2):
        o = attempt(WAYS[0][1], ctx, ARGS[4], data)
        if o[0] != "ok":
            bad(f"the complete input ({len(data)} bytes, encoding ends at {end}) raises {o[1]}", len(data), WAYS[0][0], ARGS[4], b"")
            return nbad[0]
        base.append(o[1])
    full, full2 = base
    want = observe(dc, full)
    again = observe(dc, full2)
    stable = {k for k in want if again.get(k, MISSING) == want[k]}
    rel_want = relations(dc, full2, full)
    rel_stable = set(rel_want)   # (one calibration pair: what a second complete parse gives is what a shortened parse has to give)
    for k in want:
        if k not in stable:
            res.feat("observables:not a function of the value (two complete parses differ): " + k[1])
    re_want = reassigned(dc, attempt(WAYS[0][1], ctx, ARGS[4], data)[1])
    re_again = reassigned(dc, attempt(WAYS[0][1], ctx, ARGS[4], data)[1])
    re_stable = {k for k in re_want if re_again.get(k, MISSING) == re_want[k]}

    def judge(v, k, label, arg, prefix, fresh=None):
        """is v, obtained from data[:k], the value of the complete input in every observable; -> number of differences"""
        d = differences(observe(dc, v), want, stable)
        d += differences(relations(dc, v, full), rel_want, rel_stable)
        if fresh is not None:
            o = fresh()
            if o[0] == "ok":
                d += differences(reassigned(dc, o[1]), re_want, re_stable)
        if d:
            whole = k >= end
            head = (f"the complete input ({len(data)} bytes, encoding ends at {end})" if whole else f"input cut to {k} of {end} bytes"
                    + (f" (last data-carrying byte: index {last})" if last is not None else ""))
            bad(f"{head} returns {repr(v)[:120]}, which is not the value of the complete input: " + "; ".join(show(*x) for x in d[:4])
                + (f"; and {len(d) - 4} more observables" if len(d) > 4 else ""), k, label, arg, prefix)
        return len(d)

    # --- the complete input through every way
    ends = {}
    for label, fn, arg, prefix in wl:
        o = attempt(fn, ctx, arg, prefix + data)
        res.count((*key, label, arg[0], "complete"), False)
        if o[0] != "ok":
            bad(f"the complete input ({len(data)} bytes, encoding ends at {end}) raises {o[1]}", len(data), label, arg, prefix)
            ends[(label, arg[0])] = "dead"
            continue
        ends[(label, arg[0])] = o[2]
        if not judge(o[1], len(data), label, arg, prefix):
            res.feat("observables:complete input, every observable agrees:" + label.split("(")[0])

    # --- every cut
    light = [w for w in wl if not w[2][4]]
    # the quick tier sends ONE of the cuts behind the last data byte through every way (and a sample of the ways through the others)
    pick = rnd.randint(last + 1, end - 1) if last is not None and last + 1 <= end - 1 else None
    for k in range(0, end + 1):
        tail = last is None or k > last
        if thorough and (tail or k % 3 == 0):
            todo = wl
        elif tail and k == pick:
            todo = wl
        elif tail:
            todo = plain + rnd.sample(wl, min(len(wl), 4))
        else:
            todo = plain + rnd.sample(light, 2)
        failed = False
        for label, fn, arg, prefix in todo:
            if ends.get((label, arg[0])) == "dead":
                continue
            o = attempt(fn, ctx, arg, prefix + data[:k])
            res.count((*key, label, arg[0], k), k < end)
            if o[0] == "err":
                failed = True
                if k >= end:
                    bad(f"{k} bytes hold the complete encoding ({end} bytes) but the call raises {o[1]}", k, label, arg, prefix)
                elif o[1] != "EOFError":
                    bad(f"input cut to {k} of {end} bytes raises {o[1]}, not EOFError", k, label, arg, prefix)
                else:
                    res.feat("observables:cut raises EOFError")
                continue
            if k < end and last is not None and k <= last:
                bad(f"input cut to {k} of {end} bytes (last data-carrying byte: index {last}) returns {repr(o[1])[:160]} instead of raising EOFError "
                    f"(the complete input gives {repr(full)[:160]})", k, label, arg, prefix)
                continue
            fresh = None
            if label in ("T({x})", "W({x}).inner") and arg[0] in ("bytes", "BytesIO"):
                fresh = lambda: attempt(fn, ctx, arg, prefix + data[:k])   # noqa: E731, B023
            n = judge(o[1], k, label, arg, prefix, fresh)
            if arg[3] and o[2] != ends[(label, arg[0])]:
                n += 1
                bad(f"input cut to {k} of {end} bytes returns the value of the complete input but leaves the stream at {o[2]}; after the complete "
                    f"input it stands at {ends[(label, arg[0])]}", k, label, arg, prefix)
            if not n and k < end:
                res.feat("observables:cut behind the last data byte: identical in every observable:" + label.split("(")[0])
                res.feat("observables:argument:" + arg[0])
        if failed:
            o = attempt(WAYS[0][1], ctx, ARGS[4], data)
            if o[0] != "ok":
                bad(f"after the failed calls on the input cut to {k} bytes the complete input no longer parses: {o[1]} (residue)", k, "T({x})", ARGS[4], b"")
            elif differences(observe(dc, o[1]), want, stable):
                bad(f"after the failed calls on the input cut to {k} bytes the complete input parses to another value: {repr(o[1])[:120]} (residue)", k, "T({x})", ARGS[4], b"")
    return nbad[0]


# ------------------------------------------------------------------------------------------------ inputs

def accepted_input(rnd, T, size, tries=6):
    """-> (data, full) with full = real_parse(T, data) = ('ok', value, end, sizes); data = one encoding + 0..3 following bytes"""
    for _ in range(tries):
        n = size if size is not None else rnd.choice([8, 16, 24, 40])
        r = rnd.random()
        if r < 0.5:
            cand = rand_bytes(rnd, n)
        elif r < 0.8:
            cand = bytes(rnd.choice(b"ABCDEFGHabcxyz0123 ._\x01\x7f\xff") for _ in range(n))   # no zero byte: padding is never zero already
        else:
            cand = bytes(rnd.randrange(1, 256) for _ in range(n))
        if size is None:
            cand += bytes(8)
        w, _ = real_parse(T, cand)
        if w[0] != "ok":
            continue
        data = cand[: w[2]] + bytes(rnd.choice(b"\x00Z\xff\x41") for _ in range(rnd.choice([0, 0, 1, 3])))
        full, _ = real_parse(T, data)
        if full[0] == "ok" and full[2] == w[2] and impl.same_val(w[1], full[1]):
            return data, full
    return None


def embeddings(L, T, endian, align, compiled, pointer, res, viol, case):
    """struct W { uint8 lead; T inner; } and struct P { T *p; } next to T -> ({'array' | 'W' | 'P': prefix bytes or None}, W, P)"""
    prefix = {"array": None, "W": None, "P": None}
    W = P = None
    if T.size is None:
        return prefix, W, P   # (a prefix shifts a dynamically sized aligned structure's own padding: static sizes only)
    try:
        L.cs.load("struct W { uint8 lead; T inner; }; struct P { T *p; };", compiled=compiled, align=align)
        W, P = L.cs.W, L.cs.P
        off = W.lookup["inner"].offset
        psize = P.size
    except Exception as e:  # noqa: BLE001
        viol(f"structures that embed T / point to T cannot be defined: {type(e).__name__}: {e}", case)
        return prefix, None, None
    case["repro"] += f"; cs.load('struct W {{ uint8 lead; T inner; }}; struct P {{ T *p; }};', compiled={compiled}, align={align}); W=cs.W; P=cs.P"
    prefix["array"] = "first element"
    if isinstance(off, int) and off >= 1:
        prefix["W"] = b"\x07" + b"\xa5" * (off - 1)
    if isinstance(psize, int) and psize in (1, 2, 4, 8):
        # the pointer holds the address of the byte behind it, rounded up so that the target is as aligned as T wants it
        addr = psize + (-psize % max(1, T.alignment or 1))
        prefix["P"] = addr.to_bytes(psize, "little" if endian == "<" else "big") + b"\xa5" * (addr - psize)
    return prefix, W, P


def run(env, eng, res, rnd, cuts_and_faults):
    tier = env["tier"]
    thorough = tier != "quick"
    dc = impl.dc()
    rounds = 110 if tier == "quick" else 1200
    configs = [(e, a, c) for e in "<>" for a in (True, True, True, False) for c in (False, True)]
    try:
        for it in range(rounds):
            endian, align, compiled = rnd.choice(configs)
            pointer = rnd.choice(["uint64", "uint32", "uint16"])
            cfg = refimpl.Cfg(endian, align, pointer, impl.CONSTS)
            if it < len(DIRECTED):
                kind, tree = "directed: " + DIRECTED[it][0], copy_tree(DIRECTED[it][1])
                align = True
                cfg = refimpl.Cfg(endian, align, pointer, impl.CONSTS)
            else:
                kind, tree = gen_definition(rnd, cfg)
            if has_eof(tree) or (align and small_unit_bits(tree)):
                res.feat("observables:definition outside the family (to-end-of-stream array / F23 territory)")
                continue
            L, err = load(tree, endian=endian, align=align, compiled=compiled, pointer=pointer)
            if L is None:
                if kind != "random tree":
                    # every definition of the directed / padded kinds is plain C; one that cannot be loaded cannot be parsed either
                    eng.report(f"definition rejected: {type(err).__name__}: {err}", {"definition": defs.render_struct("T", tree), "endian": endian, "align": align, "compiled": compiled}, [])
                continue
            T = L.T
            got = accepted_input(rnd, T, T.size)
            if got is None:
                res.feat("observables:no accepted input")
                continue
            data, full = got
            end = full[2]
            last = None
            try:
                rv, rend, mask = refimpl.parse(tree, data, 0, cfg)
                if impl.same_val(full[1], rv, ignore_union_buf=True) and rend == end:
                    last = max((i for i, m in enumerate(mask) if m), default=-1)
            except Exception:  # noqa: BLE001
                pass
            case = eng.case_data(L)
            viol = lambda w, d: eng.report(w, d, [])   # noqa: E731
            prefix, W, P = embeddings(L, T, endian, align, compiled, pointer, res, viol, case)
            if prefix["array"] is not None:
                prefix["array"] = bytes(data[:end])
            res.feat("observables:definition:" + kind.replace("random tree", "random tree (general generator)"))
            res.feat("observables:" + ("compiled" if compiled else "interpreted") + (", aligned" if align else ", packed"))
            res.feat("observables:inputs " + ("(value, extent and data mask as the reference parser gives them)" if last is not None else
                                              "(the reference differs: cuts are judged against the complete parse only)"))
            if last is not None:
                res.feat("observables:bytes behind the last data byte: " + ("none" if end - 1 - last == 0 else "1..3" if end - 1 - last <= 3 else "4 and more"))
            ctx = {"T": T, "cs": L.cs, "W": W, "P": P, "prefix": prefix}
            probe(dc, res, viol, ctx, data, end, last, (L.text, endian, align, compiled), case, rnd, thorough)
            if rnd.random() < (0.2 if tier == "quick" else 0.5):
                cuts_and_faults(eng, res, L, tree, data, full, eng.sigs(L), endian=endian, align=align, compiled=compiled, last_data=last)
            if len(eng.lines) > 4000:
                eng.flush()
    finally:
        FILES.close()
    eng.flush()
