"""Purity histories for C14 (helper of props/c14.py).

Several cstruct objects load *textually identical* structure definitions (same names, same array-count expressions) on top
of object-specific preambles: `#define` constants, a `len_t` typedef and a `struct hdr` whose values / sizes differ between
the objects.  Random histories interleave loads, endianness changes, good parses, failing parses (truncated at any cut
point, in particular inside bit-field units), dumps of scalars / arrays / structures and default constructions.  Every
observation is compared with two history-free oracles:

  fresh : a brand-new cstruct object with the same endianness that replays only the loads of that object and then
          performs only the observed operation (never reused for a second observation; results are cached by
          configuration, which is sound because the oracle has no history by construction);
  ref   : the independent textbook interpreter `refimpl`, given the object's own constants, typedef and `hdr`
          (it shares no process state with the library, so it also exposes state shared by *all* objects of a process).

After every step every loaded type of every object is re-observed on a fixed valid probe input, so that an operation that
leaves anything behind (in the object, the type, a compiled reader or a process-wide cache) is seen by the next parse.
"""
from __future__ import annotations

from . import defs, impl, refimpl
from .common import A
from .structprops import rand_bytes

HDRS = [
    [("a", "uint8")],
    [("a", "uint16"), ("b", "uint8")],
    [("a", "uint32"), ("b", "uint16")],
    [("a", "uint8"), ("b", "uint8"), ("c", "uint8"), ("d", "uint32")],
    [("a", "uint16")],
]
LEN_T = ["uint8", "uint16", "uint32"]
COUNT_POOL = ["({r} & 3) * SCALE", "({r} & 1) + sizeof(hdr)", "SIZE", "SIZE + 1", "SCALE + SIZE", "sizeof(hdr) * 2", "sizeof(len_t)",
              "{r} % SCALE", "({r} & 3) + K", "K", "sizeof(hdr) - 1", "SIZE * SCALE", "K << 1", "{r} & SIZE", "{r} * SCALE", "{r} + sizeof(hdr)",
              "({r} & 1) + sizeof(len_t)"]
ARR_SCALARS = ["uint16", "int16", "uint32", "int32", "uint64", "int64", "float", "double", "uint24", "int24", "float16", "uint8", "int8"]
NULL_ELEMS = ["uint16", "uint32", "int16", "uint8", "uint64", "uint24", "len_t", "int32"]
BIT_BASES = ["uint8", "uint16", "uint32", "uint64", "uint16", "uint32", "int16", "int32", "E8", "F16"]


def fld(name, ty, bits=None):
    return {"name": name, "ty": ty, "bits": bits}


def sc(n):
    return ("sc", n)


def mkdata(rnd, n):
    """bytes with runs of zeros so that null-terminated arrays of wide elements terminate"""
    out = bytearray()
    while len(out) < n:
        if rnd.random() < 0.3:
            out += bytes(rnd.randint(1, 9))
        else:
            out += rand_bytes(rnd, rnd.randint(1, 7))
    return bytes(out[:n])


# ------------------------------------------------------------------------------------------------ definitions

def gen_dyn(rnd):
    fields = [fld("n", sc("uint8"))]
    refs = ["n"]
    if rnd.random() < 0.4:
        fields.append(fld("m", sc(rnd.choice(["uint8", "uint16"]))))
        refs.append("m")
    for i in range(rnd.randint(1, 3)):
        elem = rnd.choice([sc("uint8"), sc("uint8"), sc("uint16"), sc("char"), sc("len_t"), sc("uint32"), sc("hdr")])
        expr = rnd.choice(COUNT_POOL).format(r=rnd.choice(refs))
        fields.append(fld(f"d{i}", ("arr", elem, ("expr", expr))))
        r = rnd.random()
        if r < 0.2:
            fields.append(fld(f"h{i}", sc("hdr")))
        elif r < 0.4:
            fields.append(fld(f"l{i}", sc("len_t")))
    fields.append(fld("tail", sc("uint16")))
    return ("struct", fields)


def gen_bits(rnd):
    fields = []
    k = 0
    prev = None
    for _ in range(rnd.randint(1, 3)):
        if rnd.random() < 0.35:
            fields.append(fld(f"s{k}", sc(rnd.choice(["uint8", "uint16", "uint32"]))))
            k += 1
            prev = None
        # a run on the storage type of the directly preceding run would continue that unit (and may straddle it)
        bt = rnd.choice([b for b in BIT_BASES if (defs.ENUMS[b][1] if b in defs.ENUMS else b) != prev])
        prev = defs.ENUMS[bt][1] if bt in defs.ENUMS else bt
        left = defs.WIDTH[bt]
        for _ in range(rnd.randint(1, 4)):
            if left == 0:
                break
            b = rnd.randint(1, min(left, rnd.choice([3, 9, 17, 33])))
            fields.append(fld(f"b{k}", ("enum", bt) if bt in defs.ENUMS else sc(bt), b))
            k += 1
            left -= b
    if rnd.random() < 0.7:
        fields.append(fld("tail", sc(rnd.choice(["uint8", "uint16"]))))
    return ("struct", fields)


def gen_arr(rnd):
    fields = []
    for i in range(rnd.randint(2, 6)):
        r = rnd.random()
        nm = f"f{i}"
        if r < 0.3:
            fields.append(fld(nm, sc(rnd.choice(ARR_SCALARS))))
        elif r < 0.5:
            fields.append(fld(nm, ("arr", sc(rnd.choice(ARR_SCALARS + ["len_t"])), ("fixed", rnd.randint(1, 3)))))
        elif r < 0.75:
            fields.append(fld(nm, ("arr", sc(rnd.choice(NULL_ELEMS)), ("null",))))
        elif r < 0.82:
            fields.append(fld(nm, ("arr", sc("char"), rnd.choice([("fixed", 3), ("null",)]))))
        elif r < 0.9:
            fields.append(fld(nm, sc(rnd.choice(["hdr", "len_t"]))))
        else:
            fields.append(fld(nm, ("enum", rnd.choice(["E8", "F16", "E32"]))))
    return ("struct", fields)


GENS = {"D": gen_dyn, "B": gen_bits, "R": gen_arr}


def subst(ty, u):
    """the universe's own meaning of a shared tree: typedef, hdr, sizeof(...) resolved for the reference interpreter"""
    k = ty[0]
    if k == "sc":
        if ty[1] == "len_t":
            return sc(u["len_t"])
        if ty[1] == "hdr":
            return u["hdr_tree"]
        return ty
    if k == "arr":
        l = ty[2]
        if l[0] == "expr":
            l = ("expr", l[1].replace("sizeof(hdr)", str(u["hdr_size"])).replace("sizeof(len_t)", str(u["len_t_size"])))
        return ("arr", subst(ty[1], u), l)
    if k == "struct":
        return ("struct", [fld(f["name"], subst(f["ty"], u), f["bits"]) for f in ty[1]])
    return ty


# ------------------------------------------------------------------------------------------------ observations

def observe(cs, op):
    """perform one operation on a cstruct object; the result is plain data (comparable, hashable by repr)"""
    kind = op[0]
    try:
        if kind == "parse":
            v = getattr(cs, op[1])(op[2])
            c = impl.canon(v)
            try:
                d = ("ok", v.dumps())
            except Exception as e:  # noqa: BLE001
                d = ("err", type(e).__name__)
            return ("ok", c, d)
        if kind == "default":
            v = getattr(cs, op[1])()
            return ("ok", impl.canon(v), v.dumps())
        if kind == "scalar-dump":
            return ("ok", getattr(cs, op[1])(op[2]).dumps())
        if kind == "scalar-parse":
            return ("ok", impl.canon(getattr(cs, op[1])(op[2])))
        if kind == "array-parse":
            return ("ok", impl.canon(getattr(cs, op[1])[op[2]](op[3])))
        if kind == "array-dump":
            return ("ok", getattr(cs, op[1])[op[2]](list(op[3])).dumps())
    except Exception as e:  # noqa: BLE001
        return ("err", type(e).__name__)
    raise ValueError(kind)


def compact(c):
    """canonical value -> short text for messages"""
    if isinstance(c, (bytes, bytearray)):
        return bytes(c).hex() or "-"
    if isinstance(c, list) and c:
        k = str(c[0])
        if k in ("int", "enum", "ptr") and len(c) == 2:
            return str(c[1])
        if k == "rec":
            return "{" + " ".join(compact(x) for x in c[1:]) + "}"
        if k == "list":
            return "[" + " ".join(compact(x) for x in c[1:]) + "]"
        if k in ("bytes", "flt") and len(c) == 2:
            return f"{k}:{compact(c[1]) if k == 'bytes' else c[1]}"
    return str(c)


def show(obs, n=230):
    if obs[0] == "err":
        return f"error {obs[1]}"
    parts = [compact(obs[1])]
    for x in obs[2:]:
        if isinstance(x, tuple):
            parts.append("dumps: " + (x[1].hex() if x[0] == "ok" else f"error {x[1]}"))
        elif isinstance(x, (bytes, bytearray)):
            parts.append("dumps: " + bytes(x).hex())
        elif isinstance(x, int):
            parts.append(f"end: {x}")
    t = "; ".join(parts)
    return t if len(t) <= n else t[:n] + "..."


class Abort(Exception):
    """the history cannot go on (already reported)"""


class Histories:
    def __init__(self, env, res, viol, rnd):
        self.env, self.res, self.viol, self.rnd = env, res, viol, rnd
        self.dc = impl.dc()
        self.fresh_cache = {}

    # -- oracles ----------------------------------------------------------------------------------------------------
    def fresh(self, u, op):
        key = repr((u["endian"], u["loads"], op))
        if key not in self.fresh_cache:
            cs = self.dc.cstruct(endian=u["endian"])
            for text, compiled in u["loads"]:
                cs.load(text, compiled=compiled)
            self.fresh_cache[key] = observe(cs, op)
            self.res.feat("s6:fresh-universe")
        return self.fresh_cache[key]

    def ref_parse(self, u, tree, data):
        """-> ('ok', value, end) | ('err', 'EOFError') | None (no opinion)"""
        cfg = refimpl.Cfg(u["endian"], False, "uint64", u["consts"])
        try:
            v, end, _ = refimpl.parse(subst(tree, u), data, 0, cfg)
        except refimpl.Short:
            return ("err", "EOFError")
        except refimpl.Bad:
            return None
        return ("ok", v, end)

    def check(self, ui, u, op, tree, cd, what):
        """observe `op` on the universe's own object and compare it with both oracles"""
        got = observe(u["cs"], op)
        want = self.fresh(u, op)
        self.res.feat("s6:obs:" + op[0])
        ok = True
        if repr(got) != repr(want):
            ok = False
            self.viol(f"{what}: cs{ui} gives <{show(got)}> after this history; a fresh cstruct object with the same definitions and endianness "
                      f"gives <{show(want)}>", dict(cd, op=repr(op)))
        if tree is not None and op[0] in ("parse", "array-parse", "scalar-parse"):
            data = op[-1]
            r = self.ref_parse(u, tree, data)
            if r is not None:
                self.res.feat("s6:ref-compared")
                if r[0] == "err":
                    same = got[0] == "err" and got[1] == "EOFError"
                else:
                    same = got[0] == "ok" and impl.same_val(got[1], r[1])
                if not same:
                    ok = False
                    self.viol(f"{what}: cs{ui} gives <{show(got)}>; interpreting the definition in isolation with this object's own constants, "
                              f"typedefs and endianness gives <{show(r)}>", dict(cd, op=repr(op)))
        return got, ok

    # -- one history ------------------------------------------------------------------------------------------------
    def history(self, steps_range=(10, 22)):
        rnd, res = self.rnd, self.res
        ncs = rnd.choice([2, 2, 3])
        hdrs = rnd.sample(range(len(HDRS)), ncs)
        scales = rnd.sample([1, 2, 3, 4, 5], ncs)
        sizes = rnd.sample([1, 2, 3, 4], ncs)
        ks = rnd.sample([0, 1, 2, 3], ncs)
        lens = [LEN_T[(i + rnd.randrange(3)) % 3] for i in range(ncs)]
        if len(set(lens)) == 1:
            lens[0] = LEN_T[(LEN_T.index(lens[0]) + 1) % 3]
        # shared, textually identical definitions
        shared = []
        kinds = ["D", "B", "R"] + [rnd.choice("DBR") for _ in range(rnd.randint(0, 2))]
        rnd.shuffle(kinds)
        for i, kd in enumerate(kinds):
            tree = GENS[kd](rnd)
            name = f"{kd}{i}"
            shared.append((name, tree, defs.render_struct(name, tree)))
        universes = []
        for i in range(ncs):
            hf = HDRS[hdrs[i]]
            hdr_tree = ("struct", [fld(n, sc(t)) for n, t in hf])
            consts = {"SCALE": scales[i], "SIZE": sizes[i], "K": ks[i]}
            pre = defs.PREAMBLE + "".join(f"#define {k} {v}\n" for k, v in consts.items()) + f"typedef {lens[i]} len_t;\n" + \
                "struct hdr { " + " ".join(f"{t} {n};" for n, t in hf) + " };\n"
            endian = rnd.choice("<>")
            cs = self.dc.cstruct(endian=endian)
            cs.load(pre)
            universes.append({"cs": cs, "endian": endian, "loads": ((pre, True),), "consts": consts, "hdr_tree": hdr_tree,
                              "hdr_size": refimpl.size_align(hdr_tree, refimpl.Cfg())[0], "len_t": lens[i],
                              "len_t_size": refimpl.sc(lens[i])[1], "types": {}, "probe": {}, "todo": list(range(len(shared)))})
            rnd.shuffle(universes[-1]["todo"])
        history = []

        def cd():
            return {"history": list(history), "universes": [{"endian": u["endian"], "loads": [list(x) for x in u["loads"]]} for u in universes]}

        def load_next(ui):
            u = universes[ui]
            if not u["todo"]:
                return None
            name, tree, text = shared[u["todo"].pop()]
            compiled = rnd.random() < 0.65
            try:
                u["cs"].load(text, compiled=compiled)
            except Exception as e:  # noqa: BLE001
                # the definitions are valid by construction (and load in an object that is used alone)
                self.viol(f"loading a valid definition into cs{ui} raises {type(e).__name__}: {e}", dict(cd(), definition=text, compiled=compiled))
                raise Abort from e
            u["loads"] = u["loads"] + ((text, compiled),)
            u["types"][name] = tree
            # a valid probe input for this object's meaning of the definition
            best = None
            for _ in range(12):
                data = mkdata(rnd, 160)
                r = self.ref_parse(u, tree, data)
                if r and r[0] == "ok":
                    best = data[: r[2] + rnd.choice([0, 0, 3])]
                    u["probe"][name] = (best, r[2])
                    break
            if best is None:
                u["probe"][name] = (data, None)
            res.feat("s6:type:" + name[0])
            return name

        def valid_end(u, tn):
            """the probe and where its valid parse ends under the object's CURRENT configuration (None: not a valid input now)"""
            data = u["probe"][tn][0]
            r = self.ref_parse(u, u["types"][tn], data)
            return data, (r[2] if r and r[0] == "ok" else None)

        def probe_all(tag):
            for j, uu in enumerate(universes):
                for tn, tree in uu["types"].items():
                    self.check(j, uu, ("parse", tn, uu["probe"][tn][0]), tree, cd(), f"{tag}: probe parse of {tn}")

        for ui in range(ncs):
            for _ in range(rnd.randint(0, 2)):
                nm = load_next(ui)
                if nm:
                    history.append(f"load {nm}@cs{ui}")
        nviol = len(res.violations)
        probe_all("initial")
        if len(res.violations) > nviol:
            return
        for step in range(rnd.randint(*steps_range)):
            op = rnd.choice(["load", "load", "parse", "parse", "badparse", "badparse", "badparse", "sweep", "endian", "endian", "endian",
                             "scalar-dump", "scalar-dump", "array-parse", "array-parse", "array-dump", "default", "scalar-parse"])
            ui = rnd.randrange(ncs)
            u = universes[ui]
            tn = rnd.choice(list(u["types"])) if u["types"] else None
            desc = None
            if op == "load":
                nm = load_next(ui)
                desc = f"load {nm}@cs{ui}" if nm else None
            elif op == "endian":
                u["cs"].endian = u["endian"] = rnd.choice("<>") if rnd.random() < 0.3 else ("<" if u["endian"] == ">" else ">")
                desc = f"endian {u['endian']}@cs{ui}"
            elif op == "parse" and tn:
                data = mkdata(rnd, 160)
                desc = f"parse {tn}({data.hex()})@cs{ui}"
                history.append(desc)
                self.check(ui, u, ("parse", tn, data), u["types"][tn], cd(), "parse")
                desc = ""
            elif op == "badparse" and tn:
                data, end = valid_end(u, tn)
                if end:
                    cut = rnd.choice([0, 0, 1, end - 1, rnd.randrange(end), rnd.randrange(end)])
                    desc = f"failing parse {tn}(probe[:{cut}])@cs{ui}"
                    history.append(desc)
                    self.check(ui, u, ("parse", tn, data[:cut]), u["types"][tn], cd(), "truncated parse")
                    desc = ""
            elif op == "sweep" and tn:
                # every cut point of the probe: failing parse, then the valid one again
                data, end = valid_end(u, tn)
                if end:
                    cuts = list(range(end)) if end <= 40 else sorted(rnd.sample(range(end), 40))
                    history.append(f"sweep {tn}@cs{ui}: for every cut: failing parse of probe[:cut], then parse of the probe")
                    for cut in cuts:
                        got = observe(u["cs"], ("parse", tn, data[:cut]))
                        res.feat("s6:obs:cut-parse")
                        if got != ("err", "EOFError"):
                            self.viol(f"parse of {tn} truncated to {cut} of {end} bytes gives <{show(got)}> instead of EOFError",
                                      dict(cd(), cut=cut, probe=data.hex()))
                        _, ok = self.check(ui, u, ("parse", tn, data), u["types"][tn], dict(cd(), cut=cut), f"parse after a failing parse (input cut at {cut})")
                        if not ok:
                            break
                    desc = ""
            elif op in ("scalar-dump", "scalar-parse", "array-parse", "array-dump"):
                st = rnd.choice(["uint16", "int16", "uint32", "int32", "uint64", "float", "double", "len_t", "uint24", "int64"])
                real_t = u["len_t"] if st == "len_t" else st
                kind, size, signed, _ = refimpl.sc(real_t)
                def val():
                    if kind == "flt":
                        return rnd.choice([0.5, -2.0, 1.0, 3.25, 1024.0])
                    bits = size * 8
                    v = rnd.choice([1, 2, 0x1234 & ((1 << (bits - 1)) - 1), (1 << (bits - 1)) - 1, 255, 256 % (1 << (bits - 1))])
                    return -v if (signed and rnd.random() < 0.3) else v
                if op == "scalar-dump":
                    o = ("scalar-dump", st, val())
                    tree = None
                elif op == "scalar-parse":
                    o = ("scalar-parse", st, mkdata(rnd, size))
                    tree = sc(st)
                elif op == "array-parse":
                    cnt = rnd.choice([None, None, 1, 2, 3])
                    if kind == "flt" and cnt is None:
                        cnt = 2
                    o = ("array-parse", st, cnt, mkdata(rnd, 24))
                    tree = ("arr", sc(st), ("null",) if cnt is None else ("fixed", cnt))
                else:
                    cnt = rnd.choice([None, None, 2, 3])
                    if kind == "flt" and cnt is None:
                        cnt = 2
                    vals = tuple(val() for _ in range(cnt or rnd.randint(1, 3)))
                    if cnt is None:
                        vals = tuple(v or 1 for v in vals)
                    o = ("array-dump", st, cnt, vals)
                    tree = None
                desc = f"{o!r}@cs{ui}"
                history.append(desc)
                self.check(ui, u, o, tree, cd(), op)
                desc = ""
            elif op == "default" and tn:
                desc = f"default {tn}()@cs{ui}"
                history.append(desc)
                self.check(ui, u, ("default", tn), None, cd(), "default construction")
                desc = ""
            if desc is None:
                continue
            if desc:
                history.append(desc)
            res.feat("s6:op:" + op)
            res.count(("s6", tuple(history)), len(history) >= 3)
            probe_all(f"after {history[-1][:80]}")
            if len(res.violations) > nviol:
                break   # everything after the first deviation of a history is a consequence


def run(env, res, viol, rnd, n):
    h = Histories(env, res, viol, rnd)
    for _ in range(n):
        try:
            h.history()
        except Abort:
            pass
        h.fresh_cache.clear()
