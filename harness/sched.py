"""Deterministic line-level scheduling of Python threads (sys.settrace): at every traced line of the library a thread hands
control back to the scheduler, which picks the next thread from an explicit schedule.  Used by C15."""
from __future__ import annotations

import sys
import threading


class Scheduler:
    def __init__(self, nthreads: int, schedule, trace_prefix: str):
        self.n = nthreads
        self.schedule = list(schedule)
        self.prefix = trace_prefix
        self.cv = threading.Condition()
        self.turn = None
        self.done: set[int] = set()
        self.pos = 0
        self.steps = [0] * nthreads
        self.results = [None] * nthreads

    def _advance(self):
        while self.pos < len(self.schedule) and self.schedule[self.pos] in self.done:
            self.pos += 1
        if self.pos < len(self.schedule):
            self.turn = self.schedule[self.pos]
            self.pos += 1
        else:
            rest = [t for t in range(self.n) if t not in self.done]
            self.turn = rest[0] if rest else None

    def _wait(self, tid):
        with self.cv:
            while self.turn != tid:
                self.cv.wait()

    def _yield(self, tid):
        with self.cv:
            self.steps[tid] += 1
            self._advance()
            self.cv.notify_all()
            while self.turn != tid:
                self.cv.wait()

    def _finish(self, tid):
        with self.cv:
            self.done.add(tid)
            self._advance()
            self.cv.notify_all()

    def run(self, jobs):
        """jobs: one zero-argument callable per thread; returns their results (or ('EXC', class, text))"""

        def worker(tid, job):
            def tracer(frame, event, arg):
                if not frame.f_code.co_filename.startswith(self.prefix):
                    return None
                if event == "line":
                    self._yield(tid)
                return tracer

            self._wait(tid)
            sys.settrace(tracer)
            try:
                self.results[tid] = ("ok", job())
            except BaseException as e:  # noqa: BLE001
                self.results[tid] = ("EXC", type(e).__name__, str(e)[:120])
            finally:
                sys.settrace(None)
                self._finish(tid)

        ts = [threading.Thread(target=worker, args=(i, j), daemon=True) for i, j in enumerate(jobs)]
        with self.cv:
            self._advance()
        for t in ts:
            t.start()
        for t in ts:
            t.join(timeout=60)
        return self.results, self.steps


def count_steps(job, trace_prefix):
    """number of traced line events of one job running alone"""
    s = Scheduler(1, [], trace_prefix)
    res, steps = s.run([job])
    return steps[0], res[0]
