"""Helpers for the C01 check (round 4): structures whose building history includes a fault.

A generated definition tree (harness/defs.py: every type the generator knows - scalars and aliases, enums / flags, pointers, fixed /
expression / null-terminated / to-end-of-stream arrays, nested and anonymous structures, unions, bit-field runs, void) is loaded through
the parser as `T0` on one cstruct instance; the member types the parser made for it are then used to build a second structure `T`
*incrementally* on the same instance (`cs._make_struct("T", first k fields)`, compiled if requested, `cs.add_type`), by a history of
steps over the remaining fields:

  each    `T.add_field(...)` per field (a commit per field)
  update  one `with T.start_update():` block that adds the step's fields
  extend  `T.__fields__.extend(Field(...), ...)` + `T.commit()` (what the definition parser does)
  fault   a `with T.start_update():` block in which the first j >= 0 fields of the step are added and then the body raises (the type
          name of the next field does not resolve through cs.resolve / attribute access / cs.typedefs, add_field is called with a
          missing argument, a size expression fails, the caller's own code raises) and the caller catches the exception.  The
          field on which the batch failed is retried by the next step or dropped from the history (never a field that a later
          size expression refers to).

After an interrupted batch the fields that were added before the fault are members of T (`__fields__` is what every commit works
from, and start_update commits when the block is left, however it is left).  The property is evaluated on T right after every
faulted batch, after some of the ordinary steps and at the end of the history, for the definition "exactly the fields added so far":
values parsed from random bytes, the same values rebuilt from keyword arguments (`T(name=value, ...)`), and - where every member has a
well-formed default - the default value `T()` must satisfy T(dumps(v)) == v with exactly len(dumps(v)) bytes consumed (dumps(v) is
followed by foreign bytes).  At the end T is sometimes used as a member / array element of an outer structure `W` loaded from text
(`struct W { uint8 pre; T t; T arr[2]; uint16 post; }` and variants), and W is checked the same way.  Every dump / parse also goes
to the Lean model (write / read of the structure type made of the fields present).

Every step is recorded as a line of Python in the session's history, so the replay of a violation is a script.
"""
from __future__ import annotations

import re

from . import defs, impl, refimpl
from .structprops import has, has_eof, rand_bytes

FAULTS = ("resolve", "attribute", "typedef-lookup", "add_field-args", "expression", "exception")
FAULT_CODE = {
    "resolve": "cs.resolve('no_such_type_v4')",
    "attribute": "cs.no_such_type_v4",
    "typedef-lookup": "cs.typedefs['no_such_type_v4']",
    "add_field-args": "T.add_field('oops')",
    "expression": "__import__('sys').modules['dissect.cstruct.expression'].Expression(cs, 'no_such_name_v4 + 1').evaluate()",
    "exception": "raise RuntimeError('the caller fails inside the batch')",
}


def _raise_fault(cs, T, kind):
    """the statement of FAULT_CODE[kind], executed directly"""
    if kind == "resolve":
        cs.resolve("no_such_type_v4")
    elif kind == "attribute":
        cs.no_such_type_v4  # noqa: B018
    elif kind == "typedef-lookup":
        cs.typedefs["no_such_type_v4"]
    elif kind == "add_field-args":
        T.add_field("oops")
    elif kind == "expression":
        import sys
        sys.modules["dissect.cstruct.expression"].Expression(cs, "no_such_name_v4 + 1").evaluate()
    elif kind == "exception":
        raise RuntimeError("the caller fails inside the batch")
    # (a library on which the intended statement no longer raises: the batch is still left through an exception of the caller's)
    raise RuntimeError(f"the caller fails inside the batch (the {kind} fault did not raise)")


def droppable(fields, i) -> bool:
    """may field i be left out of the structure: no later member's size expression mentions it"""
    nm = fields[i]["name"]
    if nm is None:
        return True
    pat = re.compile(r"\b" + re.escape(nm) + r"\b")
    return not any(pat.search(defs.render_field(g, None)) for g in fields[i + 1:])


def gen_history(rnd, fields, first: int, max_faults: int = 3):
    """steps over the fields first..n-1: {"mode": "each"|"update"|"extend", "add": [i, ...]} or
    {"mode": "fault", "add": [indices added before the fault], "fault": kind, "failed": index or None, "dropped": bool};
    at least one faulted batch, and at least one (whenever a field is left to add) with a field added before the fault"""
    todo = list(range(first, len(fields)))
    steps, faults, productive = [], 0, False
    sure = rnd.choice(todo) if todo else None       # the step containing this field is faulted for sure, after >= 1 added field
    while todo:
        size = rnd.randint(1, min(len(todo), 3))
        batch = todo[:size]
        forced = not productive and sure in batch
        if faults < max_faults and (forced or rnd.random() < 0.3):
            j = rnd.randint(1, len(batch)) if (forced or rnd.random() < 0.85) else 0
            failed = todo[j] if j < len(todo) else None
            dropped = failed is not None and droppable(fields, failed) and rnd.random() < 0.4
            steps.append({"mode": "fault", "add": batch[:j], "fault": rnd.choice(FAULTS), "failed": failed, "dropped": dropped})
            faults += 1
            productive = productive or j > 0
            todo = todo[j + (1 if dropped else 0):]
        else:
            steps.append({"mode": rnd.choice(["each", "update", "update", "extend"]), "add": batch})
            todo = todo[size:]
    if faults == 0:
        steps.append({"mode": "fault", "add": [], "fault": rnd.choice(FAULTS), "failed": None, "dropped": False})
    return steps


def _field_code(i):
    return f"F[{i}].name, F[{i}].type, bits=F[{i}].bits"


class Build:
    """T under construction on a Session; `present` = indices of T0's fields that are members of T now"""

    def __init__(self, sess, tree, *, align, compiled, first):
        from dissect.cstruct import compiler
        from dissect.cstruct.types.structure import Field

        self.sess, self.tree, self.align, self.compiled = sess, tree, align, compiled
        cs = self.cs = sess.cs
        self.F = list(cs.T0.__fields__)
        self.Field = Field
        self.present = list(range(first))
        sess.note(RT_DEF)
        sess.note("from dissect.cstruct import compiler; from dissect.cstruct.types.structure import Field; F = cs.T0.__fields__")
        sess.note(f"T = cs._make_struct('T', [{', '.join(f'Field({_field_code(i)})' for i in range(first))}], align={align})")
        T = cs._make_struct("T", [Field(self.F[i].name, self.F[i].type, bits=self.F[i].bits) for i in range(first)], align=align)
        if compiled:
            sess.note("T = compiler.compile(T)")
            T = compiler.compile(T)
        sess.note("cs.add_type('T', T)")
        cs.add_type("T", T)
        self.T = T

    def _add(self, i):
        f = self.F[i]
        self.T.add_field(f.name, f.type, bits=f.bits)
        self.present.append(i)

    def step(self, step):
        """-> the exception a faulted batch was left through (None for the ordinary steps)"""
        T, note, mode = self.T, self.sess.note, step["mode"]
        if mode == "each":
            for i in step["add"]:
                note(f"T.add_field({_field_code(i)})")
                self._add(i)
        elif mode == "update":
            note("with T.start_update():\n" + "\n".join(f"    T.add_field({_field_code(i)})" for i in step["add"]))
            with T.start_update():
                for i in step["add"]:
                    self._add(i)
        elif mode == "extend":
            note(f"T.__fields__.extend([{', '.join(f'Field({_field_code(i)})' for i in step['add'])}]); T.commit()")
            T.__fields__.extend(self.Field(self.F[i].name, self.F[i].type, bits=self.F[i].bits) for i in step["add"])
            self.present.extend(step["add"])
            T.commit()
        elif mode == "fault":
            body = [f"        T.add_field({_field_code(i)})" for i in step["add"]] + [f"        {FAULT_CODE[step['fault']]}"]
            note("try:\n    with T.start_update():\n" + "\n".join(body) + "\nexcept Exception as e:\n    print('caught', repr(e))")
            try:
                with T.start_update():
                    for i in step["add"]:
                        self._add(i)
                    _raise_fault(self.cs, T, step["fault"])
            except Exception as e:  # noqa: BLE001 - the caller handles whatever the body raised
                return e
        else:
            raise ValueError(mode)
        return None

    def subtree(self):
        return ("struct", [self.tree[1][i] for i in self.present])

    def view(self):
        """a Loaded view of T as the structure made of the fields present"""
        sub = self.subtree()
        return self.sess.view(sub, "T", text=defs.render_struct("T", sub), compiled=self.compiled, align=self.align)


def precheck_value(T, obj, desc, foreign=b"\xEE\xEE"):
    """the byte-level half of the predicate on one value, with nothing of the library trusted: dump it, parse the dump followed by
    foreign bytes - the second parse must succeed and stop exactly at len(dumps(v)); then both values must be inspectable member by
    member and equal (a library whose classes are in an inconsistent state must end here as a reported failure, not as an exception
    inside the canonicalisation of the finer checks).  -> None if all of that holds (or the dump is refused: the finer check reports
    that with its classification), else what fails"""
    try:
        d = obj.dumps()
    except Exception:  # noqa: BLE001
        return None
    back = impl.parse(T, d + foreign)
    if back[0] != "ok":
        return f"v = {desc}: dumps(v) = {d.hex()} cannot be parsed back: {back[1]}"
    if back[2] != len(d):
        return f"v = {desc}: parsing dumps(v) = {d.hex()} consumes {back[2]} of {len(d)} bytes"
    try:
        c = impl.canon(obj)
        impl.canon(back[1])
        same = bool(back[1] == obj) or impl.contains_nan(c)
    except Exception as e:  # noqa: BLE001
        return f"v = {desc}: v and the value parsed from dumps(v) = {d.hex()} cannot be inspected / compared: {type(e).__name__}: {e}"
    if not same:
        return f"v = {desc}: T(dumps(v)) != v, dumps(v) = {d.hex()}"
    return None


def precheck(T, data, foreign=b"\xEE\xEE"):
    """precheck_value on the value parsed from `data` (None if the input is rejected)"""
    r = impl.parse(T, data)
    if r[0] != "ok":
        return None
    return precheck_value(T, r[1], f"T({data.hex()})", foreign)


# the predicate as a line of the replay script: rt(T, v, foreign bytes)
RT_DEF = ("import io\ndef rt(T, v, foreign=b'\\xee\\xee'):\n    d = v.dumps(); s = io.BytesIO(d + foreign); w = T(s)\n"
          "    assert s.tell() == len(d), ('parsing dumps(v) consumed', s.tell(), 'of', len(d))\n    assert w == v, (w, v)")


def guarded(eng, L, sigs, what, fn, **kw):
    """run one of the property module's predicates; an exception inside it (the library hands out something the oracle cannot read)
    is a reported failure of the case, not a crash of the run"""
    try:
        return fn()
    except Exception as e:  # noqa: BLE001
        eng.report(f"{what}: evaluating the round trip raised {type(e).__name__}: {e}", eng.case_data(L, **kw), sigs)
        return None


def input_size(tree, L, dynamic: int) -> int:
    """how many input bytes a value of the definition needs, by the reference layout (not by what the class under test says of itself:
    the generated inputs must not depend on the state the library left the class in); `dynamic` for dynamically sized definitions"""
    own = getattr(L.T, "size", None)
    try:
        size = refimpl.size_align(tree, refimpl.Cfg(L.endian, L.align, L.pointer, impl.CONSTS))[0]
    except Exception:  # noqa: BLE001
        size = own
    if isinstance(size, int) and isinstance(own, int):
        size = max(size, own)       # (they differ on the unmodified tree in the territory of known finding F23 only)
    return size if isinstance(size, int) else dynamic


class Frozen:
    """the session's history as it stands (plus the lines of the case at hand): what a recorded case reproduces from, whatever
    happens to the instance afterwards"""

    def __init__(self, sess, extra=()):
        self.steps = [*sess.steps, *extra]

    def script(self, extra=()) -> str:
        return "\n".join([*self.steps, *extra])


def frozen(L, *lines):
    M = impl.retarget(L)
    M.session = Frozen(L.session, lines)
    return M


def defaults_well_formed(tree) -> str | None:
    """None if the default instance T() is a value of the type, else why the default-value case (and only that one) is left out:

    * an array whose length is an expression over other members defaults to the empty list whatever the expression evaluates to on
      the members' defaults (`uint8 n; uint8 a[(n & 1) + 1]`: T() has n = 0 and a = []), which is not a value any parse can return;
    * known finding F53 (known_findings.json; met by this probe first): the default of a `char` bit-field
      member is b'\\x00' (a parse gives an int), and dumping it raises TypeError - `struct T { char a : 3; char b : 5; }`:
      `T().dumps()` -> TypeError("'<=' not supported between instances of 'int' and 'char'").  Parsed and keyword-built values of
      such definitions are checked; only their default instance is not."""
    if has(tree, lambda t, d, u: t[0] == "arr" and t[2][0] == "expr"):
        return "a size expression decides an array's length"
    if has(tree, lambda t, d, u: t[0] == "struct" and any(f["bits"] and f["ty"] == ("sc", "char") for f in t[1])):
        return "char bit-field member: its default b'\\x00' cannot be dumped (pending)"
    return None


WRAPS = [
    # (text body with {T}, tree builder)
    ("member", "uint8 pre; T t; uint16 post;", lambda sub: [_sc("pre", "uint8"), _m("t", sub), _sc("post", "uint16")]),
    ("array", "uint8 pre; T arr[2]; uint16 post;", lambda sub: [_sc("pre", "uint8"), _m("arr", ("arr", sub, ("fixed", 2))), _sc("post", "uint16")]),
    ("member+array", "uint16 pre; T t; T arr[2]; uint8 post;",
     lambda sub: [_sc("pre", "uint16"), _m("t", sub), _m("arr", ("arr", sub, ("fixed", 2))), _sc("post", "uint8")]),
    ("counted", "uint8 n; T arr[n & 3]; uint32 post;", lambda sub: [_sc("n", "uint8"), _m("arr", ("arr", sub, ("expr", "n & 3"))), _sc("post", "uint32")]),
    ("first", "T t; uint8 post;", lambda sub: [_m("t", sub), _sc("post", "uint8")]),
]


def _sc(name, t):
    return {"name": name, "ty": ("sc", t), "bits": None}


def _m(name, ty):
    return {"name": name, "ty": ty, "bits": None}


def interrupted_builds(eng, res, rnd, tier, *, check_roundtrip, check_constructed):
    """the family: see the module docstring.  `check_roundtrip` / `check_constructed` are the property module's predicates."""
    n_hist = 160 if tier == "quick" else 3000
    for _ in range(n_hist):
        g = defs.Gen(rnd, max_depth=rnd.choice([1, 1, 2, 2, 3]), max_fields=rnd.choice([3, 5, 5, 7]))
        tree = g.struct()
        fields = tree[1]
        endian, align, compiled = rnd.choice("<>"), rnd.random() < 0.5, rnd.random() < 0.5
        ptr = rnd.choice(["uint64", "uint32", "uint16", "uint8"])
        sess = impl.Session(endian=endian, pointer=ptr)
        try:
            sess.load(tree, "T0", compiled=rnd.random() < 0.5, align=align)
        except Exception as e:  # noqa: BLE001
            res.feat("interrupted-build:definition-rejected:" + type(e).__name__)
            continue
        first = rnd.choice([0, 0, 1, 2])
        first = min(first, len(fields) - 1)
        steps = gen_history(rnd, fields, first)
        try:
            b = Build(sess, tree, align=align, compiled=compiled, first=first)
        except Exception as e:  # noqa: BLE001
            eng.report(f"an incremental structure cannot be started from the first {first} member(s) of a definition the parser accepts: "
                       f"{type(e).__name__}: {e}", {"history": list(sess.steps), "repro": sess.script()}, [])
            continue
        res.feat("interrupted-build:histories")
        res.feat(f"interrupted-build:faulted-batches:{sum(1 for s in steps if s['mode'] == 'fault')}")
        res.feat(f"interrupted-build:fields declared before the history:{first}")
        key0 = ("interrupted-build", sess.script(), endian, align, compiled, ptr)

        def probe(where, nbuf):
            """the property on T as it stands"""
            if not b.present:
                res.feat("interrupted-build:no member present (not probed)")
                return
            L = b.view()
            sub = L.tree
            sigs = eng.sigs(L)
            size = input_size(sub, L, 48)
            key = (*key0, where, tuple(b.present))
            names = [b.F[i]._name for i in b.present]
            res.feat("interrupted-build:probes:" + where.split("#")[0])
            seen = 0
            foreign = b"" if has_eof(sub) else b"\xEE\xEE"
            fsrc = "b''" if has_eof(sub) else "b'\\xee\\xee'"
            for data in [rand_bytes(rnd, size + rnd.choice([0, 5, 20])) for _ in range(nbuf)]:
                Lc = frozen(L, f"rt(T, T(bytes.fromhex({data.hex()!r})), {fsrc})   # {where}")
                bad = precheck(L.T, data, foreign)
                if bad is not None:
                    res.count((*key, data), True)
                    eng.report(f"{where}: {bad}", eng.case_data(Lc, data=data, present=names), sigs)
                    continue
                obj = guarded(eng, Lc, sigs, where, lambda: check_roundtrip(eng, res, Lc, sub, data, sigs, key=key), data=data)
                if obj is None:
                    continue
                res.feat("interrupted-build:values:parsed")
                if seen:
                    continue
                seen += 1
                # the same value built from keyword arguments (member names as the history added them)
                try:
                    kw = {nm: getattr(obj, nm) for nm in names}
                    obj_kw = L.T(**kw)
                except Exception as e:  # noqa: BLE001
                    res.feat("interrupted-build:keyword-construction-raised:" + type(e).__name__)
                    continue
                res.feat("interrupted-build:values:keyword-constructed")
                Lc = frozen(L, f"v0 = T(bytes.fromhex({data.hex()!r})); rt(T, T(**{{n: getattr(v0, n) for n in {names!r}}}), {fsrc})   # {where}")
                bad = precheck_value(L.T, obj_kw, f"T({data.hex()}) rebuilt from keyword arguments", foreign)
                if bad is not None:
                    res.count((*key, data, "keywords"), True)
                    eng.report(f"{where}: {bad}", eng.case_data(Lc, data=data, present=names), sigs)
                    continue
                guarded(eng, Lc, sigs, where, lambda: check_constructed(eng, res, Lc, sub, obj_kw, sigs, key=key, what="rebuilt from keyword arguments"),
                        data=data)
            why_not = defaults_well_formed(sub)
            if why_not is None:
                try:
                    obj0 = L.T()
                except Exception as e:  # noqa: BLE001
                    res.feat("interrupted-build:default-construction-raised:" + type(e).__name__)
                    return
                Lc = frozen(L, f"rt(T, T(), {fsrc})   # {where}")
                bad = precheck_value(L.T, obj0, "T()", foreign)
                if bad is not None:
                    res.count((*key, "default"), True)
                    eng.report(f"{where}: {bad}", eng.case_data(Lc, present=names), sigs)
                    return
                if impl.contains_nan(impl.canon(obj0)):
                    return
                res.feat("interrupted-build:values:default")
                guarded(eng, Lc, sigs, where, lambda: check_constructed(eng, res, Lc, sub, obj0, sigs, key=key, what="default value T()"))
            else:
                res.feat(f"interrupted-build:default value left out ({why_not})")

        broken = False
        for no, step in enumerate(steps):
            try:
                exc = b.step(step)
            except Exception as e:  # noqa: BLE001
                eng.report(f"step {no} ({step['mode']}) of an incremental definition raises {type(e).__name__}: {e}",
                           {"history": list(sess.steps), "repro": sess.script(), "steps": steps}, [])
                broken = True
                break
            if step["mode"] == "fault":
                res.feat("interrupted-build:fault:" + step["fault"])
                res.feat(f"interrupted-build:fields added before the fault:{min(len(step['add']), 3)}")
                res.feat("interrupted-build:failed field " + ("dropped" if step["dropped"] else "retried" if step["failed"] is not None else "none"))
                if exc is None:
                    # the caller is entitled to the exception its own block raised
                    eng.report(f"a start_update() block whose body raises ({step['fault']}) is left without an exception",
                               {"history": list(sess.steps), "repro": sess.script(), "steps": steps}, [])
                probe(f"after-faulted-batch#{no}", 2)
            elif rnd.random() < 0.25:
                probe(f"after-ordinary-step#{no}", 1)
        if broken:
            continue
        if steps[-1]["mode"] != "fault":
            res.feat("interrupted-build:successful commits after the last fault")
        probe("end-of-history", 2)

        # T as a member / array element of an outer structure defined after the history
        sub = b.subtree()
        if b.present and not has_eof(sub) and rnd.random() < 0.4:
            form, body, mk = rnd.choice(WRAPS)
            wtree = ("struct", mk(sub))
            text = f"struct W {{ {body} }};\n"
            wcomp = rnd.random() < 0.5
            try:
                LW = sess.load(wtree, "W", compiled=wcomp, align=align, text=text)
            except Exception as e:  # noqa: BLE001
                res.feat("interrupted-build:outer-definition-rejected:" + type(e).__name__)
                continue
            LW.text = defs.render_struct("W", wtree)
            res.feat("interrupted-build:outer structure:" + form)
            sigs = eng.sigs(LW)
            size = input_size(wtree, LW, 96)
            for data in [rand_bytes(rnd, size + rnd.choice([0, 5, 20])) for _ in range(2)]:
                Lc = frozen(LW, f"rt(cs.W, cs.W(bytes.fromhex({data.hex()!r})))")
                bad = precheck(LW.T, data)
                if bad is not None:
                    res.count((*key0, "outer", form, wcomp, data), True)
                    eng.report(f"outer structure W ({form}): {bad}".replace("T(", "W("), eng.case_data(Lc, data=data), sigs)
                    continue
                if guarded(eng, Lc, sigs, "outer structure", lambda: check_roundtrip(eng, res, Lc, wtree, data, sigs, key=(*key0, "outer", form, wcomp)),
                           data=data) is not None:
                    res.feat("interrupted-build:values:outer structure")
        if len(eng.lines) > 4000:
            eng.flush()
