"""s1: mixed alignment modes on one cstruct instance (probe family of C01).

A generated definition tree is split into several named definitions (defs.hoist), each loaded by its own cs.load call
with its own `align` flag, so that an aligned structure (with tail padding) ends up as member / array element of a packed
one - at an offset that need not be a multiple of its alignment and followed by more data - and vice versa.  Only the
property's own predicate is evaluated on the real code (no reference model knows mixed modes).
"""
from __future__ import annotations

from . import defs, impl, refimpl
from .structprops import has_eof, real_parse, rand_bytes, small_unit_bits, union_dump_incomplete


def with_nested(rnd, g: defs.Gen, tree):
    """the tree with one more named nested structure (or a small array of it) inserted at a random position, so that every
    tree of this probe family has something to hoist; the child comes from the same generator"""
    child = ("struct", g.fields(max(0, g.max_depth - 1), dyn=rnd.random() < 0.2, top=False))
    ty = child
    if rnd.random() < 0.5:
        ty = ("arr", child, ("fixed", rnd.choice([1, 2, 2, 3])))
    fields = list(tree[1])
    pos = rnd.randint(0, len(fields))
    if fields and fields[-1]["ty"][0] == "arr" and fields[-1]["ty"][2][0] == "eof":
        pos = rnd.randint(0, len(fields) - 1)  # an EOF array stays last
    # not between two bit-fields of one run: that would only split the run, which is legal as well, so no restriction
    fields.insert(pos, {"name": g.name(), "ty": ty, "bits": None})
    return (tree[0], fields)


def load_plan(sess: impl.Session, plan, *, compiled):
    """load every definition of a hoisting plan on the session's instance; -> view of the last one (T)"""
    V = None
    for name, sub, a in plan:
        V = sess.load(sub, name, compiled=compiled, align=a, text=defs.render_struct_refs(name, sub))
    return V


def is_mixed(plan) -> bool:
    return len({a for _, _, a in plan}) > 1


def misplaced_aligned(T, base=0) -> bool:
    """does some structure that was defined with align=True start at an absolute offset (from the top-level value's start)
    that is unknown or not a multiple of its alignment?  (then the bytes it consumes differ from len(type))"""
    m = impl.dc()

    def agg(t, off):
        if getattr(t, "__align__", False) and t.alignment and (off is None or off % t.alignment):
            return True
        for f in t.__fields__:
            if f.bits:
                continue
            fo = None if (off is None or f.offset is None) else off + f.offset
            if isinstance(t, m.types.structure.UnionMetaType):
                fo = off
            if walk(f.type, fo):
                return True
        return False

    def walk(t, off):
        if isinstance(t, m.types.structure.StructureMetaType):
            return agg(t, off)
        if hasattr(t, "type") and hasattr(t, "num_entries"):  # array type
            et = t.type
            if walk(et, off):
                return True
            # later elements: stride len(element) when known
            try:
                n = len(et)
            except TypeError:
                n = None
            cnt = t.num_entries if isinstance(t.num_entries, int) else None
            if cnt is None or cnt > 1:
                return walk(et, None if (off is None or n is None) else off + n)
            return False
        return False

    return walk(T, base)


def sigs_any_mode(tree, ptr, endian):
    """finding signatures of a mixed-mode definition: a signature counts when it matches under either alignment mode"""
    out = []
    for al in (False, True):
        cfg = refimpl.Cfg(endian, al, ptr, impl.CONSTS)
        if union_dump_incomplete(tree, cfg) and "F9F10" not in out:
            out.append("F9F10")
    if small_unit_bits(tree):
        out.append("F23")
    if has_eof(tree):
        out.append("F30")
    return out


def case_data(sess: impl.Session, **kw):
    d = {"history": list(sess.steps)}
    for k, v in kw.items():
        d[k] = v.hex() if isinstance(v, (bytes, bytearray)) else v
    d["repro"] = sess.script(["T = cs.T"])
    return d
