"""s1: mixed alignment modes on one cstruct instance (probe family of C01).

A generated definition tree is split into several named definitions (defs.hoist), each loaded by its own cs.load call
with its own `align` flag, so that an aligned structure (with tail padding) ends up as member / array element of a packed
one - at an offset that need not be a multiple of its alignment and followed by more data - and vice versa.  Only the
property's own predicate is evaluated on the real code (no reference model knows mixed modes).
"""
from __future__ import annotations

from . import defs, impl, refimpl
from .structprops import union_anon_nested, has_eof, small_unit_bits, union_dump_incomplete


def with_nested(rnd, g: defs.Gen, tree, kind="struct", dyn_p=0.2):
    """the tree with one more named nested structure / union (or a small array of it) inserted at a random position, so that
    every tree of this probe family has something to hoist; the child comes from the same generator"""
    if kind == "union":
        child = ("union", g.fields(max(0, g.max_depth - 1), dyn=False, top=False, in_union=True))
    else:
        child = ("struct", g.fields(max(0, g.max_depth - 1), dyn=rnd.random() < dyn_p, top=False))
    ty = child
    if rnd.random() < 0.5:
        ty = ("arr", child, ("fixed", rnd.choice([1, 2, 2, 3])))
    fields = list(tree[1])
    pos = rnd.randint(0, len(fields))
    if fields and fields[-1]["ty"][0] == "arr" and fields[-1]["ty"][2][0] == "eof":
        pos = rnd.randint(0, len(fields) - 1)  # an EOF array stays last
    # not between two bit-fields of one run: that would only split the run, which is legal as well, so no restriction
    fields.insert(pos, {"name": g.name(), "ty": ty, "bits": None})
    return (tree[0], fields)


def directed_dynamic(rnd, g: defs.Gen):
    """a packed outer structure with 1-3 small leading members (so that what follows sits at an odd / misaligned offset), a named
    nested structure holding a count, an array sized by it (or a null-terminated one) and then members of mixed alignments, and
    a trailing member: the shape in which dynamically placed members of an aligned structure are padded by stream position.
    -> (plan, tree2) with the nested structure loaded with align=True and the outer one packed"""
    S = lambda n: ("sc", n)  # noqa: E731
    cnt = g.name()
    elem = rnd.choice(["char", "uint8", "uint16", "int24", "uint32"])
    arr = ("arr", S(elem), ("expr", f"{cnt} & 3") if rnd.random() < 0.7 else ("null",))
    child = [{"name": cnt, "ty": S("uint8"), "bits": None}, {"name": g.name(), "ty": arr, "bits": None}]
    for _ in range(rnd.randint(1, 3)):
        child.append({"name": g.name(), "ty": S(rnd.choice(["uint8", "uint16", "uint32", "uint64", "int24", "char", "uint16", "uint32"])), "bits": None})
    ty = ("struct", child)
    if rnd.random() < 0.3:
        ty = ("arr", ty, ("fixed", 2))
    outer = [{"name": g.name(), "ty": S(rnd.choice(["uint8", "char", "int24", "uint8", "uint16"])), "bits": None} for _ in range(rnd.randint(1, 3))]
    outer.append({"name": g.name(), "ty": ty, "bits": None})
    outer.append({"name": g.name(), "ty": S(rnd.choice(["uint8", "uint16", "uint32"])), "bits": None})
    tree = ("struct", outer)
    for _ in range(16):
        plan, tree2 = defs.hoist(tree, rnd, p=1.0, top_align=False, mixed=True)
        if is_mixed(plan) and len(plan) == 2 and plan[0][2] and not plan[1][2]:
            return plan, tree2
    return defs.hoist(tree, rnd, p=1.0, top_align=False, mixed=True)


def directed_bits(rnd, g: defs.Gen):
    """a packed outer structure with 1-3 small leading members, then a named nested structure (loaded with align=True) in which runs of
    bit-fields share storage units (so that the later fields of a run have no layout offset of their own) and are followed by members
    with a layout offset, then a trailing member: the shape in which a reader that aligns the unplaced bit-fields on the stream
    position must still find the next placed member.  -> (plan, tree2)"""
    S = lambda n: ("sc", n)  # noqa: E731
    child = []
    for _ in range(rnd.randint(0, 2)):
        child.append({"name": g.name(), "ty": S(rnd.choice(["uint8", "char", "uint16", "int24"])), "bits": None})
    for _ in range(rnd.randint(1, 3)):
        base = rnd.choice(["uint8", "uint16", "uint16", "uint32", "uint32", "uint64", "int16", "int32"])
        width = {"uint8": 8, "uint16": 16, "int16": 16, "uint32": 32, "int32": 32, "uint64": 64}[base]
        left = width
        for _k in range(rnd.randint(2, 4)):
            if left <= 0:
                break
            b = rnd.randint(1, max(1, min(left, width // 2)))
            child.append({"name": g.name(), "ty": S(base), "bits": b})
            left -= b
        for _k in range(rnd.randint(0, 2)):
            child.append({"name": g.name(), "ty": S(rnd.choice(["uint8", "uint16", "uint32", "uint64", "char", "int24"])), "bits": None})
    ty = ("struct", child)
    if rnd.random() < 0.3:
        ty = ("arr", ty, ("fixed", 2))
    outer = [{"name": g.name(), "ty": S(rnd.choice(["uint8", "char", "int24", "uint8", "uint16"])), "bits": None} for _ in range(rnd.randint(1, 3))]
    outer.append({"name": g.name(), "ty": ty, "bits": None})
    outer.append({"name": g.name(), "ty": S(rnd.choice(["uint8", "uint16", "uint32"])), "bits": None})
    tree = ("struct", outer)
    for _ in range(16):
        plan, tree2 = defs.hoist(tree, rnd, p=1.0, top_align=False, mixed=True)
        if is_mixed(plan) and len(plan) == 2 and plan[0][2] and not plan[1][2]:
            return plan, tree2
    return defs.hoist(tree, rnd, p=1.0, top_align=False, mixed=True)


def load_plan(sess: impl.Session, plan, *, compiled):
    """load every definition of a hoisting plan on the session's instance; -> view of the last one (T)"""
    V = None
    for name, sub, a in plan:
        V = sess.load(sub, name, compiled=compiled, align=a, text=defs.render_struct_refs(name, sub))
    return V


def is_mixed(plan) -> bool:
    return len({a for _, _, a in plan}) > 1


def misplaced_aligned(T, base=0) -> list:
    """(class, lies inside a union) for the structure classes defined with align=True that start at an absolute offset (from the top-level value's start)
    which is unknown (behind a dynamic member) or not a multiple of their alignment; there the bytes they consume differ
    from len(type)"""
    m = impl.dc()
    S, U = m.types.structure.StructureMetaType, m.types.structure.UnionMetaType
    out = []

    def agg(t, off, under_union):
        if getattr(t, "__align__", False) and t.alignment and (off is None or off % t.alignment) and (t, under_union) not in out:
            out.append((t, under_union))
        for f in t.__fields__:
            if f.bits:
                continue
            fo = None if (off is None or f.offset is None) else off + f.offset
            if isinstance(t, U):
                fo = off
            walk(f.type, fo, under_union or isinstance(t, U))

    def walk(t, off, under_union):
        if isinstance(t, S):
            agg(t, off, under_union)
        elif hasattr(t, "type") and hasattr(t, "num_entries"):  # array type
            et = t.type
            walk(et, off, under_union)
            try:
                n = len(et)
            except TypeError:
                n = None
            cnt = t.num_entries if isinstance(t.num_entries, int) else None
            if cnt is None or cnt > 1:  # later elements: stride len(element) when known
                walk(et, None if (off is None or n is None) else off + n, under_union)

    walk(T, base, False)
    return out


def has_bitfields(t) -> bool:
    return any(f.bits for f in t.__fields__)


def flags_within(agg, own):
    """the set of align flags that govern the aggregate `agg` (own flag given) and every aggregate below it"""
    out = {own}
    for f in agg[1]:
        inner = defs.innermost(f["ty"])
        if inner[0] in ("struct", "union"):
            out |= flags_within(inner, f.get("eff_align", own))
    return out


def union_incomplete_mixed(tree2, top_align, ptr, endian) -> bool:
    """signature of finding F9F10 for a hoisted (mixed-mode) tree: for a union whose whole subtree is governed by one align
    flag the reference decides exactly; a union with two or more members whose subtree mixes flags counts as matching
    (no reference knows its member layout)"""
    def visit(agg, own):
        if agg[0] == "union":
            fl = flags_within(agg, own)
            if len(fl) == 1:
                if union_dump_incomplete(agg, refimpl.Cfg(endian, own, ptr, impl.CONSTS)):
                    return True
            elif len(agg[1]) >= 2:
                return True
        for f in agg[1]:
            inner = defs.innermost(f["ty"])
            if inner[0] in ("struct", "union") and visit(inner, f.get("eff_align", own)):
                return True
        return False
    return visit(tree2, top_align)


def sigs_mixed(tree2, top_align, ptr, endian):
    """finding signatures of a mixed-mode definition (annotated tree from defs.hoist)"""
    out = []
    if union_incomplete_mixed(tree2, top_align, ptr, endian):
        out.append("F9F10")
    if small_unit_bits(tree2):
        out.append("F23")
    if has_eof(tree2):
        out.append("F30")
    if union_anon_nested(tree2):
        out.append("F44")
    return out


def case_data(sess: impl.Session, **kw):
    d = {"history": list(sess.steps)}
    for k, v in kw.items():
        d[k] = v.hex() if isinstance(v, (bytes, bytearray)) else v
    d["repro"] = sess.script(["T = cs.T"])
    return d


def overshoot(obj) -> bool:
    """did reading this value consume more bytes for some fixed-size aggregate member (or array of aggregates) than the
    member's declared size?  Happens when a structure defined with align=True sits at a position that is not a multiple of
    its alignment and has too little tail padding: its tail is aligned by absolute stream position, past its declared end."""
    m = impl.dc()
    S = m.types.structure.StructureMetaType

    def inner_t(t):
        while not isinstance(t, S) and hasattr(t, "type") and hasattr(t, "num_entries"):
            t = t.type
        return t

    def val(v):
        if isinstance(v, m.Structure):
            return agg(v)
        if type(v).__name__ == "UnionProxy":
            return agg(object.__getattribute__(v, "__target__"))
        if isinstance(v, list):
            return any(val(x) for x in v)
        return False

    def agg(o):
        sizes = getattr(o, "_sizes", {}) or {}
        for f in type(o).__fields__:
            if f.bits:
                continue
            if isinstance(inner_t(f.type), S):
                try:
                    n = len(f.type)
                except TypeError:
                    n = None
                if n is not None and sizes.get(f._name, 0) > n:
                    return True
                if val(getattr(o, f._name, None)):
                    return True
        return False

    return val(obj)


def mixed_ty_sexp(tree, T, aligned):
    """model type S-expression of a hoisted (mixed-mode) tree: every struct/union node carries the align flag that governs
    it (f["eff_align"] as recorded by defs.hoist), field names of anonymous members come from the real class"""
    from .common import A

    k = tree[0]
    if k in ("sc", "enum"):
        return impl.real_ty_sexp(tree, T, aligned)
    if k == "ptr":
        return [A("ptr"), mixed_ty_sexp(tree[1], T.type, aligned)]
    if k == "arr":
        l = tree[2]
        ls = {"fixed": lambda: [A("fixed"), l[1]], "expr": lambda: [A("expr"), l[1]], "null": lambda: A("null"), "eof": lambda: A("eof")}[l[0]]()
        return [A("arr"), mixed_ty_sexp(tree[1], T.type, aligned), ls]
    fs = []
    for f, rf in zip(tree[1], T.__fields__):
        fs.append([A("f"), rf._name, 1 if f["name"] is None else 0, mixed_ty_sexp(f["ty"], rf.type, f.get("eff_align", aligned)), f["bits"] or 0])
    return [A(k), 1 if aligned else 0, fs]
