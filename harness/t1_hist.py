"""t1: endianness histories on ONE cstruct instance for the bit-field property (C06).

C06 quantifies over endianness; the library takes the byte order AND the bit order of a storage unit from the live
attribute `cs.endian`, which users switch between operations (one set of definitions for little and big endian data).
The ordinary C06 probes build a fresh instance per configuration, so whatever a definition keeps from the endianness
that was in effect when it was loaded (generated reader source, cached readers/writers, a BitBuffer that survives) is
never observed.  The driver here keeps one instance (impl.Session) alive through epochs

    load | nothing / a first parse / a first parse and dump | cs.endian switched | operations | switched back | ...

with definitions that are loaded in different epochs, each with its own compiled/align flags, and hands every operation
to the property module's own predicate together with a view whose recorded endianness is the one in effect at that step
(so the reference is the bit-slicing reference for the byte order of that step).

This differs from s1_hist.endian_history in what C06 needs: the switch may come directly after `cs.load` (no operation
has run on the definition yet) or after a parse that was never dumped, several definitions share the instance, and the
first endianness / the compiled flag are chosen by the caller so that the grid storage type x compiled x first endianness
is covered deterministically rather than by chance.
"""
from __future__ import annotations

from . import impl

FIRST = ("nothing", "parse", "parse+dump")  # what happens to a definition between its load and the next switch


def epochs(rnd, start):
    """endianness epochs beginning with `start` that change at least once: both directions, switched back"""
    other = ">" if start == "<" else "<"
    return rnd.choice([[start, other], [start, other, start], [start, other, start], [start, other, start, other]])


def endian_history(rnd, items, *, start, inputs_for, on_input, on_carried=None, first=None):
    """items: [{"tree", "align", "compiled"}, ...].  The first definition is loaded in epoch 0, the others in a random epoch
    (so some are loaded after a switch and then live through the switch back).  In the epoch in which a definition is
    loaded `first` decides what runs on it before the next switch; in later epochs every input of
    inputs_for(k, L) is judged in full, and a value parsed in the previous epoch is judged as a carried-over value.

        on_input(k, L, data, epoch, dump)   the property's predicate on one input (dump=False: reading half only);
                                            returns the parsed object or None
        on_carried(k, L, obj, epoch)        the writing half of the predicate on a value parsed under the other byte order

    -> (session, [view or None per item], [what ran on each definition between its load and the next switch])"""
    ep = epochs(rnd, start)
    sess = impl.Session(endian=ep[0], pointer="uint64")
    load_at = [0] + [rnd.randrange(len(ep)) for _ in items[1:]]
    firsts = [first or rnd.choice(FIRST) for _ in items]
    views = [None] * len(items)
    carried = [None] * len(items)
    for i, e in enumerate(ep):
        if i:
            sess.set_endian(e)
        for k, it in enumerate(items):
            name = f"T{k}"
            fresh = load_at[k] == i
            if fresh:
                try:
                    views[k] = sess.load(it["tree"], name, compiled=it["compiled"], align=it["align"])
                except Exception:  # noqa: BLE001  (rejected definitions are judged by the ordinary probes)
                    sess.steps.pop()
                    continue
            if views[k] is None:
                continue
            L = impl.retarget(views[k], endian=e)
            last = i == len(ep) - 1
            mode = firsts[k] if fresh and not last else "full"
            if mode == "nothing":
                continue
            if mode == "full" and carried[k] is not None and on_carried is not None and rnd.random() < 0.6:
                sess.note(f"d = v{k}.dumps()   # the value parsed under the previous byte order, dumped under cs.endian = {e!r}")
                on_carried(k, L, carried[k], i)
            datas = inputs_for(k, L)
            if mode != "full":
                datas = datas[-1:]
            for data in datas:
                dump = mode != "parse"
                sess.note(f"v{k} = cs.{name}(bytes.fromhex({data.hex()!r}))" + ("; d = v%d.dumps()" % k if dump else "") + f"   # under cs.endian = {e!r}")
                obj = on_input(k, L, data, i, dump)
                if obj is not None:
                    carried[k] = obj
    return sess, views, firsts
