"""Generators for the C09 probes added by s3:

* `union_tree`  top-level UNION types for the offset / input-kind x call-form / preceding-read matrix: fixed-size unions
                whose members have unused bit-field bits, interior or tail padding, different sizes (any of them first), and
                dynamically sized unions (null-terminated, expression-sized and LEB128 members).
* `long_cases`  long runs: arrays of 63..300+ elements (null-terminated, expression-sized, to-end-of-stream; char, wchar,
                integers, odd-width integers, enum, LEB128, all-integer structures) stand-alone, as a member followed by
                further fields, two in one structure; the input is valid by construction.
"""
from __future__ import annotations

import random

from . import defs

S = lambda n: ("sc", n)  # noqa: E731


def F(name, ty, bits=None):
    return {"name": name, "ty": ty, "bits": bits}


# ------------------------------------------------------------------------------------------------ unions

def _member_pool(rnd, nm, dynamic):
    fixed = [
        lambda: S(rnd.choice(["uint8", "uint16", "uint32", "uint64", "int8", "int32", "uint24", "char", "wchar", "int128"])),
        lambda: ("enum", rnd.choice(["E8", "F16", "E32"])),
        # unused bit-field bits
        lambda: ("struct", [F(nm(), S("uint8"), rnd.randint(1, 7))]),
        lambda: ("struct", [F(nm(), S("uint8"), 4), F(nm(), S("uint16"))]),
        lambda: ("struct", [F(nm(), S("uint16"), rnd.randint(1, 9)), F(nm(), S("uint16"), rnd.randint(1, 6)), F(nm(), S("uint8"))]),
        lambda: ("struct", [F(nm(), S("uint32"), rnd.randint(1, 31))]),
        # interior / tail padding when aligned, smaller than the others when packed
        lambda: ("struct", [F(nm(), S("uint8")), F(nm(), S("uint32"))]),
        lambda: ("struct", [F(nm(), S("uint16")), F(nm(), S("uint64")), F(nm(), S("uint8"))]),
        lambda: ("struct", [F(nm(), S("uint32")), F(nm(), S("uint8"))]),
        lambda: ("arr", S(rnd.choice(["uint8", "char", "uint16", "uint24"])), ("fixed", rnd.randint(0, 5))),
        lambda: ("union", [F(nm(), S("uint16")), F(nm(), ("arr", S("uint8"), ("fixed", 3)))]),
    ]
    dyn = [
        lambda: ("arr", S(rnd.choice(["char", "wchar", "uint8", "uint16"])), ("null",)),
        lambda: (lambda kn: ("struct", [F(kn, S("uint8")), F(nm(), ("arr", S(rnd.choice(["uint8", "uint16"])), ("expr", f"{kn} & 3")))]))("k" + nm()),
        lambda: S(rnd.choice(["uleb128", "ileb128"])),
        lambda: ("struct", [F(nm(), S("uint8")), F(nm(), ("arr", S("char"), ("null",))), F(nm(), S("uint16"))]),
    ]
    return fixed, dyn


def union_tree(rnd: random.Random):
    """-> (tree, 'fixed' | 'dynamic')"""
    n = [0]

    def nm():
        n[0] += 1
        return f"m{n[0]}"

    dynamic = rnd.random() < 0.3
    fixed, dyn = _member_pool(rnd, nm, dynamic)
    k = rnd.randint(2, 4)
    members = [rnd.choice(fixed)() for _ in range(k)]
    if dynamic:
        for i in rnd.sample(range(k), rnd.randint(1, 2)):
            members[i] = rnd.choice(dyn)()
    fs = []
    for t in members:
        if t[0] == "struct" and rnd.random() < 0.15 and not dynamic:
            fs.append(F(None, t))  # anonymous structure member
        else:
            fs.append(F(nm(), t))
    return ("union", fs), ("dynamic" if dynamic else "fixed")


# ------------------------------------------------------------------------------------------------ long runs

LENGTHS = [0, 1, 5, 63, 64, 65, 100, 127, 128, 129, 200, 255, 256, 300, 511, 520]
PAIR = ("struct", [F("x", S("uint8")), F("y", S("uint8"))])
ELEMS = {
    "char": S("char"), "wchar": S("wchar"), "uint8": S("uint8"), "int16": S("int16"), "uint16": S("uint16"), "uint32": S("uint32"),
    "uint24": S("uint24"), "int64": S("int64"), "E8": ("enum", "E8"), "uleb128": S("uleb128"), "ileb128": S("ileb128"), "pair": PAIR,
}
STANDALONE = ["char", "wchar", "uint8", "int16", "uint16", "uint32", "uint24", "int64", "E8", "uleb128"]  # cs.<name>[None] / [n]


def enc_elem(rnd, en, endian):
    """one non-zero element"""
    order = "little" if endian == "<" else "big"
    if en == "char":
        return bytes([rnd.choice([0x41, 0x61, 0x7A, 1, 0xFF, 0x80, rnd.randrange(1, 256)])])
    if en == "wchar":
        return rnd.choice([0x41, 0x100, 0xFF, 0x4E2D, 0xD7FF, 0xE000, rnd.randrange(1, 0xD800)]).to_bytes(2, order)
    if en in ("uint8", "E8"):
        return bytes([rnd.randrange(1, 256)])
    if en in ("int16", "uint16", "uint32", "uint24", "int64"):
        size = {"int16": 2, "uint16": 2, "uint32": 4, "uint24": 3, "int64": 8}[en]
        v = rnd.choice([1, 0x80, 0x100, (1 << (8 * size)) - 1, 1 << (8 * size - 1), rnd.randrange(1, 1 << (8 * size))])
        return v.to_bytes(size, order)  # some elements contain zero BYTES without being zero
    if en in ("uleb128", "ileb128"):
        k = rnd.choice([1, 1, 2, 3, 9])
        bs = [0x80 | rnd.randrange(0, 128) for _ in range(k - 1)] + [rnd.randrange(1, 64)]
        if k > 1 and not any(b & 0x7F for b in bs):
            bs[0] |= 1
        return bytes(bs)
    if en == "pair":
        return rnd.choice([bytes([0, rnd.randrange(1, 256)]), bytes([rnd.randrange(1, 256), 0]), bytes([rnd.randrange(1, 256), rnd.randrange(256)])])
    raise ValueError(en)


def zero_elem(en):
    return {"char": 1, "wchar": 2, "uint8": 1, "E8": 1, "int16": 2, "uint16": 2, "uint32": 4, "uint24": 3, "int64": 8, "uleb128": 1, "ileb128": 1, "pair": 2}[en] * b"\x00"


def long_case(rnd: random.Random, lengths=None):
    """-> dict(label, tree, make(endian, align) -> bytes or None, standalone=(elem name, dim) | None)

    shapes:  member   struct { uint16 n; ET a[<form>]; uint32 value; }         (form: null / expr n / EOF without `value`)
             two      struct { ET a[]; ET2 b[]; uint8 tail; }
             nested   struct { uint8 id; struct { ET a[]; uint8 t; } s; uint16 after; }
             alone    the array type cs.<ET>[None] or cs.<ET>[n] itself
    """
    en = rnd.choice(list(ELEMS))
    n = rnd.choice(lengths or LENGTHS)
    shape = rnd.choice(["member", "member", "two", "nested", "alone"])
    form = rnd.choice(["null", "null", "null", "expr", "eof"]) if shape == "member" else "null"
    if shape == "alone":
        if en not in STANDALONE:
            en = rnd.choice(STANDALONE)
        form = rnd.choice(["null", "null", "fixed"]) if en not in ("uleb128",) else "null"
    et = ELEMS[en]

    def run(endian, name=en, count=n):
        return b"".join(enc_elem(rnd, name, endian) for _ in range(count))

    order = lambda endian: "little" if endian == "<" else "big"  # noqa: E731
    if shape == "member":
        ln = {"null": ("null",), "expr": ("expr", "n"), "eof": ("eof",)}[form]
        fs = [F("n", S("uint16")), F("a", ("arr", et, ln))] + ([] if form == "eof" else [F("value", S("uint32"))])
        tree = ("struct", fs)

        def make(endian, align):
            if align:
                return None  # alignment gaps depend on the element type; the packed layout is what is constructed here
            head = n.to_bytes(2, order(endian))
            if form == "null":
                return head + run(endian) + zero_elem(en) + bytes(rnd.randrange(256) for _ in range(4))
            if form == "expr":
                return head + run(endian) + bytes(rnd.randrange(256) for _ in range(4))
            return head + run(endian)
        return {"label": f"member:{form}:{en}:{n}", "tree": tree, "make": make, "standalone": None, "form": form}
    if shape == "two":
        en2 = rnd.choice(["char", "wchar", "uint8", "uint16"])
        n2 = rnd.choice(lengths or LENGTHS)
        tree = ("struct", [F("a", ("arr", et, ("null",))), F("b", ("arr", ELEMS[en2], ("null",))), F("tail", S("uint8"))])

        def make(endian, align):
            if align:
                return None
            return run(endian) + zero_elem(en) + run(endian, en2, n2) + zero_elem(en2) + bytes([rnd.randrange(256)])
        return {"label": f"two:{en}:{n}:{en2}:{n2}", "tree": tree, "make": make, "standalone": None, "form": "null"}
    if shape == "nested":
        tree = ("struct", [F("id", S("uint8")), F("s", ("struct", [F("a", ("arr", et, ("null",))), F("t", S("uint8"))])), F("after", S("uint16"))])

        def make(endian, align):
            if align:
                return None
            return bytes([rnd.randrange(256)]) + run(endian) + zero_elem(en) + bytes(rnd.randrange(256) for _ in range(3))
        return {"label": f"nested:{en}:{n}", "tree": tree, "make": make, "standalone": None, "form": "null"}
    # alone
    ln = ("null",) if form == "null" else ("fixed", n)
    tree = ("arr", et, ln)

    def make(endian, align):
        return run(endian) + (zero_elem(en) if form == "null" else b"")
    return {"label": f"alone:{form}:{en}:{n}", "tree": tree, "make": make, "standalone": (en, None if form == "null" else n), "form": form}
