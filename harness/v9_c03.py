"""C03 probe (v9), family (e): ENDIANNESS SPELLINGS x definition families x ways of configuring x parse entry points.

The property quantifies over endianness; the library accepts more spellings of it than '<' and '>': the struct-module byte
order characters '<', '>', '!', '@', '=' and the words its ENDIANNESS_MAP knows ('network').  The interpreted reader only
ever builds homogeneous struct formats ('<count><char>'), the generated reader packs a whole run of members into ONE mixed
format ('BIHQB'), reads bit-fields through a BitBuffer that is handed the spelling, and decodes Int / wchar members through
tables keyed by the spelling - so each spelling is a path of its own through the generated reader (under '@' the struct
module would apply NATIVE alignment padding and native sizes to a mixed format).

Definitions (all driven by the seeded PRNG):
  directed  runs of scalar members whose sizes differ - increasing (uint8 then uint32, uint16 then uint64, char then double:
            the orders a native-mode format pads), decreasing, zig-zag, random - over every packable scalar, its aliases, enums /
            flags of three widths, floats, fixed arrays of those, interleaved with members that split the packed block (int24 /
            uint48 / int128, wchar, void, bit-field pairs, null-terminated arrays, nested structures and structure arrays made of
            the same runs, pointers of a packable width);
  a/b       a sample of the definitions of families (a) (alphabet sequences) and (b) (random trees) of the check;
  c         a sample of the pointer-bearing definitions of family (c), pointer width drawn from all seven.
Each definition x spelling (directed runs: every spelling each time; samples: quick two of the five characters and sometimes
the words, thorough all of them) x {packed, aligned} x pointer width x the way the spelling reaches the object: constructor keyword, constructor positional,
attribute assigned before load, attribute switched after load (from another spelling; both readers get the same history).

Inputs: random buffers (pointer slots planted with addresses in the byte order the spelling stands for), then every cut point
of one accepted buffer, then the accepted buffer once more through another public entry point: T(bytes), T.reads(bytearray),
T.read(memoryview), T.read(BytesIO), T.read(real file object), cs.T[2] (the class as an array element, the buffer twice) and
struct W { uint8 pre; T t; } loaded next to it with the same flags (the class as a member of another structure).

Oracle (the property): the compiled reader and the interpreted reader loaded from the same text under the same history agree
on layout (size, alignment, offsets), and on every input on value, recorded sizes and consumed bytes; when exactly one raises,
the input is shorter than the structure and the exception is EOFError; on a cut input the only exception is EOFError; a
definition that loads interpreted loads compiled (falling back where the generator cannot handle it).  Every entry point
returns what the stream parse returned.  Independent value: the compiled result is sent to the Lean model of the interpreted
reader under the byte order the spelling stands for (harness table below, not the library's), so a spelling that both readers
would misread the same way shows up as a disagreement.

Word spellings: 'network' is a key of ENDIANNESS_MAP only; the struct-format helper and the wchar table do not know it, so in
the unmodified library every packable member / wchar raises (struct.error / KeyError) in BOTH readers.  That is equal behaviour,
not a difference between the readers: counted as a feature (family-e:word:both-raise), never sent to the model.  A reader that
returns a value where the other raises on a complete input is reported as for any other spelling, with these exclusions:

  EXCLUDED under word spellings only (behaviour of the unmodified library that contradicts the property; reported, decision
  pending): a definition whose generated reader contains a statement `_struct(cls.cs.endian, fmt)` whose format unpacks
  NOTHING (fmt is empty or consists of pad bytes only: "", "16x", "3x16x"), on an input on which the interpreted reader returns
  a value while the generated reader raises struct.error ("bad char in struct format").  The generator emits such a statement
  for a block that holds nothing but `void` members (format "": a void member not merged into a neighbouring block, e.g. next
  to a nested structure) and for a block of arbitrary-width Int members (uint128, int24 x[4]) of 10 bytes or more (format "16x":
  its "nothing to unpack" shortcut only recognises "x" and one-digit counts); the interpreted reader never touches the struct
  module for such a structure:
    cstruct(endian='network').load('struct T { void v; struct { int24 a; } s; };', compiled=True).T(bytes(3))
    cstruct(endian='network').load('struct T { uint128 a; };', compiled=True).T(bytes(16))
        -> struct.error: bad char in struct format        (compiled=False: <T v=<void> s=<a=0x0>> resp. <T a=0x0>)
  Excluded is exactly: word spelling AND interpreted ok AND compiled raises struct.error AND the generated source of T or of a
  class below it has a nothing-to-unpack format statement (feature family-e:word:EXCLUDED-...).  The five byte order characters
  are not affected (Struct("<16x") is valid and unpacks to ()).
  Also under word spellings only: when BOTH readers' pointers raise on dereferencing (a pointee cut off by the end of the buffer:
  the generated reader of the pointee checks the length first and raises EOFError, the interpreted one meets struct.error from
  the unusable spelling first) the exception classes are not compared - no reader returns a value.
"""
from __future__ import annotations

import io
import re
import struct
import sys
import tempfile
import traceback

from . import defs, impl, s2_ptr
from .common import Infra, mkrng
from .structprops import has_eof, rand_bytes, real_parse, small_unit_bits

NATIVE = "<" if sys.byteorder == "little" else ">"
# what each spelling stands for (harness side; the library's own tables are what is under test)
CHARS = {"<": "<", ">": ">", "!": ">", "@": NATIVE, "=": NATIVE}
WORDS = {"network": ">"}

S = lambda n: ("sc", n)  # noqa: E731
BY_SIZE = {
    1: [S("uint8"), S("int8"), S("char"), S("BYTE"), S("u1"), S("signed char"), ("enum", "E8")],
    2: [S("uint16"), S("int16"), S("WORD"), S("short"), S("u2"), S("float16"), ("enum", "F16")],
    4: [S("uint32"), S("int32"), S("DWORD"), S("unsigned int"), S("__u32"), S("float"), ("enum", "E32")],
    8: [S("uint64"), S("int64"), S("QWORD"), S("long long"), S("uint64_t"), S("double")],
}
PACKCHAR = {"uint8": "B", "int8": "b", "char": "s", "BYTE": "B", "u1": "B", "signed char": "b", "E8": "B", "uint16": "H", "int16": "h",
            "WORD": "H", "short": "h", "u2": "H", "float16": "e", "F16": "H", "uint32": "I", "int32": "i", "DWORD": "I", "unsigned int": "I",
            "__u32": "I", "float": "f", "E32": "i", "uint64": "Q", "int64": "q", "QWORD": "Q", "long long": "q", "uint64_t": "Q", "double": "d"}


def spellings():
    """the five byte order characters and every word the library's ENDIANNESS_MAP maps (read from the library, so that a word
    added there is walked as well); -> {spelling: '<' | '>' | None (meaning unknown to the harness)}"""
    out = dict(CHARS)
    out.update(WORDS)
    try:
        impl.dc()
        for k, v in sys.modules["dissect.cstruct.utils"].ENDIANNESS_MAP.items():
            if isinstance(k, str) and k not in out:
                out[k] = {"little": "<", "big": ">"}.get(v)
    except Exception:  # noqa: BLE001 - a library without the table: the fixed list stands
        pass
    return out


# ------------------------------------------------------------------------------------------------ directed definitions

class Directed:
    def __init__(self, rnd):
        self.rnd, self.n = rnd, 0

    def name(self):
        self.n += 1
        return f"g{self.n}"

    def packed(self, size):
        """one member of the given size class: a scalar, or (sometimes) a short fixed array of it"""
        rnd = self.rnd
        t = rnd.choice(BY_SIZE[size])
        if rnd.random() < 0.15:
            t = ("arr", t, ("fixed", rnd.choice([1, 2, 3])))
        return {"name": self.name(), "ty": t, "bits": None}

    def sizes(self, shape):
        rnd = self.rnd
        if shape == "inc":
            k = rnd.choice([2, 2, 3, 3, 4])
            base = sorted(rnd.sample([1, 2, 4, 8], k))
            out = []
            for s in base:
                out += [s] * rnd.choice([1, 1, 1, 2])
            if rnd.random() < 0.4:
                out.append(rnd.choice([1, 2]))  # a small tail member behind the largest one
            return out
        if shape == "dec":
            return sorted(rnd.sample([1, 2, 4, 8], rnd.choice([2, 3, 4])), reverse=True)
        if shape == "zig":
            lo, hi = rnd.choice([(1, 4), (1, 8), (2, 8), (2, 4), (1, 2), (4, 8)])
            return [lo, hi] * rnd.choice([1, 2, 3]) + ([lo] if rnd.random() < 0.5 else [])
        return [rnd.choice([1, 2, 4, 8]) for _ in range(rnd.randint(2, 7))]

    def breaker(self, depth):
        """members the generator cannot put into a struct format (they end the packed block) or reads another way"""
        rnd = self.rnd
        k = rnd.choice(["int", "int", "wchar", "void", "bits", "dyn", "struct", "sarr", "ptr", "carr", "zero"])
        n = self.name()
        if k == "int":
            return [{"name": n, "ty": S(rnd.choice(["int24", "uint24", "uint48", "int48", "int128", "uint128"])), "bits": None}]
        if k == "wchar":
            return [{"name": n, "ty": rnd.choice([S("wchar"), ("arr", S("wchar"), ("fixed", 2))]), "bits": None}]
        if k == "void":
            return [{"name": n, "ty": S("void"), "bits": None}]
        if k == "bits":
            bt, w = rnd.choice([("uint8", 8), ("uint16", 16), ("uint32", 32), ("uint64", 64)])
            a = rnd.randint(1, w - 1)
            return [{"name": n + "a", "ty": S(bt), "bits": a}, {"name": n + "b", "ty": S(bt), "bits": rnd.randint(1, w - a)}]
        if k == "dyn":
            return [{"name": n, "ty": ("arr", S(rnd.choice(["uint8", "uint16", "char"])), ("null",)), "bits": None}]
        if k in ("struct", "sarr") and depth > 0:
            inner = ("struct", self.fields(rnd.choice(["inc", "inc", "zig", "rand"]), depth - 1, p_break=0.15))
            return [{"name": n, "ty": inner if k == "struct" else ("arr", inner, ("fixed", 2)), "bits": None}]
        if k == "ptr":
            return [{"name": n, "ty": ("ptr", S(rnd.choice(["uint8", "uint32", "char"]))), "bits": None}]
        if k == "carr":
            return [{"name": n, "ty": ("arr", S("char"), ("fixed", rnd.choice([1, 3]))), "bits": None}]
        return [{"name": n, "ty": ("arr", S("uint32"), ("fixed", 0)), "bits": None}]

    def fields(self, shape, depth, p_break):
        out = []
        for s in self.sizes(shape):
            if self.rnd.random() < p_break:
                out += self.breaker(depth)
            out.append(self.packed(s))
        if self.rnd.random() < p_break:
            out += self.breaker(depth)
        return out

    def struct(self):
        rnd = self.rnd
        shape = rnd.choice(["inc", "inc", "inc", "dec", "zig", "zig", "rand"])
        p_break = rnd.choice([0.0, 0.0, 0.15, 0.35])
        return shape, ("struct", self.fields(shape, 1, p_break))


def native_padding_differs(tree) -> bool:
    """would a struct format made of the top-level run(s) of packable scalar members be padded in native mode?
    (histogram only: shows that the directed runs reach the layouts on which '@' and '=' differ)"""
    runs, cur = [], ""
    for f in tree[1]:
        t, cnt = f["ty"], 1
        if t[0] == "arr" and t[2][0] == "fixed" and t[1][0] in ("sc", "enum"):
            t, cnt = t[1], t[2][1]
        ch = PACKCHAR.get(t[1]) if t[0] in ("sc", "enum") and not f["bits"] else None
        if ch is None:
            runs.append(cur)
            cur = ""
        else:
            cur += (f"{cnt}s" if ch == "s" else ch * cnt)
    runs.append(cur)
    return any(r and struct.calcsize("@" + r) != struct.calcsize("=" + r) for r in runs)


NOTHING_FMT = re.compile(r'_struct\(cls\.cs\.endian, "(?:\d*x)*"\)')


def builds_empty_format(tree, T) -> bool:
    """does the generated reader of T, or of a structure class below it, build a struct format that unpacks nothing (empty or pad
    bytes only: a block of void members, a block of non-packable members of >= 10 bytes)?"""
    try:
        for _, _, cls in impl.aggregates(tree, T):
            if getattr(cls, "__compiled__", False) and NOTHING_FMT.search(cls._read.__func__.__source__):
                return True
    except Exception:  # noqa: BLE001
        pass
    return False


def blur_errors(o):
    """a dereference outcome with every exception class replaced by '*' (word spellings: which exception is not compared)"""
    if isinstance(o, tuple) and o and o[0] == "err":
        return ("err", "*")
    if isinstance(o, tuple) and len(o) == 3:
        inner = blur_errors(o[2]) if isinstance(o[2], tuple) else [(p, a, blur_errors(x)) for p, a, x in o[2]]
        return (o[0], o[1], inner)
    return o


# ------------------------------------------------------------------------------------------------ loading under a history

MODES = ["ctor-keyword", "ctor-positional", "attr-before-load", "switch-after-load"]
WRAP = "struct W {\n  uint8 pre;\n  T t;\n};\n"


def load_view(tree, spelling, mode, other, align, compiled, ptr):
    """-> (Loaded view, script) ; raises whatever the library raises"""
    m = impl.dc()
    L = object.__new__(impl.Loaded)
    L.tree, L.endian, L.align, L.compiled, L.pointer = tree, spelling, align, compiled, ptr
    L.text = defs.PREAMBLE + "#define K2 2\n#define K0 0\n" + defs.render_struct("T", tree)
    steps = ["from dissect.cstruct import cstruct"]
    if mode == "ctor-keyword":
        steps.append(f"cs = cstruct(endian={spelling!r}, pointer={ptr!r})")
        L.cs = m.cstruct(endian=spelling, pointer=ptr)
    elif mode == "ctor-positional":
        steps.append(f"cs = cstruct({spelling!r}, {ptr!r})")
        L.cs = m.cstruct(spelling, ptr)
    elif mode == "attr-before-load":
        steps.append(f"cs = cstruct(pointer={ptr!r}); cs.endian = {spelling!r}")
        L.cs = m.cstruct(pointer=ptr)
        L.cs.endian = spelling
    else:
        steps.append(f"cs = cstruct(endian={other!r}, pointer={ptr!r})")
        L.cs = m.cstruct(endian=other, pointer=ptr)
    steps.append(f"cs.load({L.text!r}, compiled={compiled}, align={align})")
    L.cs.load(L.text, compiled=compiled, align=align)
    if mode == "switch-after-load":
        steps.append(f"cs.endian = {spelling!r}")
        L.cs.endian = spelling
    L.T = L.cs.T
    steps.append("T = cs.T")
    return L, "\n".join(steps)


class Files:
    """one reusable real file object (a file on disk, not BytesIO)"""

    def __init__(self):
        self.f = None

    def open(self, data):
        if self.f is None:
            self.f = tempfile.TemporaryFile(prefix="v9c03-")
        self.f.seek(0)
        self.f.truncate()
        self.f.write(data)
        self.f.flush()
        self.f.seek(0)
        return self.f

    def close(self):
        if self.f is not None:
            self.f.close()
            self.f = None


ENTRIES = ["call-bytes", "reads-bytearray", "read-memoryview", "read-stream", "read-file", "array-of-2", "member-of-struct"]


def via_entry(L, entry, data, files):
    """parse `data` through another public entry point; -> ('ok', [canon values], [sizes dicts]) | ('err', class, message)"""
    T = L.T
    try:
        if entry == "call-bytes":
            objs = [T(bytes(data))]
        elif entry == "reads-bytearray":
            objs = [T.reads(bytearray(data))]
        elif entry == "read-memoryview":
            objs = [T.read(memoryview(data))]
        elif entry == "read-stream":
            objs = [T.read(io.BytesIO(data))]
        elif entry == "read-file":
            objs = [T.read(files.open(data))]
        elif entry == "array-of-2":
            objs = list(T[2](data + data))
        else:
            if not hasattr(L.cs, "W"):
                L.cs.load(WRAP, compiled=L.compiled, align=L.align)
            w = L.cs.W(b"\x07" + bytes(wrap_gap(L)) + data)
            objs = [w.t]
        return ("ok", [impl.canon(o) for o in objs], [sorted((k, v) for k, v in o._sizes.items() if v) for o in objs])
    except Exception as e:  # noqa: BLE001
        return ("err", impl.err_class(e), str(e)[:120])


def wrap_gap(L):
    """padding between W.pre (one byte) and W.t in aligned mode, computed here (the layout of W is under test as well): the member
    starts at the next multiple of its alignment (the alignment of T was compared between the two readers before)"""
    if not L.align:
        return 0
    a = max(1, int(getattr(L.T, "alignment", 1) or 1))
    return -1 % a


def entry_script(entry, data):
    d = f"bytes.fromhex({data.hex()!r})"
    return {
        "call-bytes": f"T({d})", "reads-bytearray": f"T.reads(bytearray({d}))", "read-memoryview": f"T.read(memoryview({d}))",
        "read-stream": f"import io; T.read(io.BytesIO({d}))", "read-file": f"f = open('/tmp/x.bin', 'w+b'); f.write({d}); f.seek(0); T.read(f)",
        "array-of-2": f"cs.T[2]({d} * 2)", "member-of-struct": f"cs.load({WRAP!r}, compiled=<as T>, align=<as T>); cs.W(b'\\x07' + <padding> + {d}).t",
    }[entry]


# ------------------------------------------------------------------------------------------------ the family

def run(env, res, eng, trees, ptr_kinds):
    """trees: the definitions of families (a)/(b) of the check; ptr_kinds: (pointer field makers, neighbour makers) of family (c)"""
    rnd = mkrng(env["seed"], "c03-v9-spellings")
    tier = env["tier"]
    quick = tier == "quick"
    sp = spellings()
    chars = [s for s in sp if s in CHARS]
    words = [s for s in sp if s not in CHARS]
    widths = s2_ptr.PACKED_PTRS + ["uint64"] + s2_ptr.UNPACKED_PTRS
    files = Files()

    def safe_parse(T, data):
        try:
            return real_parse(T, data)
        except Exception as e:  # noqa: BLE001 - the parse returned something the harness cannot observe (canon / _sizes raise)
            return ("err", "observing the result raises " + type(e).__name__ + ": " + str(e)[:100]), None

    def probe_(tree, spelling, align, ptr, mode, kind):
        other = rnd.choice([s for s in chars if s != spelling] or chars)
        stands = sp[spelling]
        word = spelling not in CHARS
        views = []
        for compiled in (False, True):
            try:
                views.append(load_view(tree, spelling, mode, other, align, compiled, ptr))
            except Exception as e:  # noqa: BLE001
                views.append((None, e))
        (Li, si), (Lc, sc_) = views
        sigs = ["F23"] if (align and small_unit_bits(tree)) else []
        text = defs.render_struct("T", tree)

        def cd_of(L, script, **kw):
            d = eng.case_data(L, **kw)
            d.update(spelling=spelling, stands_for=stands, configured=mode, family="e:" + kind)
            d["repro"] = script
            return d

        if Li is None or Lc is None:
            if Li is None and Lc is not None:
                eng.report(f"endian {spelling!r} ({mode}): the definition loads compiled but not interpreted ({type(si).__name__}: {si})", cd_of(Lc, sc_), sigs)
            elif Lc is None and Li is not None:
                eng.report(f"endian {spelling!r} ({mode}): the definition loads interpreted but fails compiled instead of falling back: "
                           f"{type(sc_).__name__}: {sc_}", cd_of(Li, si), sigs)
            else:
                res.feat("family-e:definition-rejected-by-both")
            return
        Ti, Tc = Li.T, Lc.T
        res.feat("family-e:spelling:" + spelling)
        res.feat("family-e:configured:" + mode)
        res.feat("family-e:definitions:" + kind)
        res.feat("family-e:" + ("aligned" if align else "packed"))
        res.feat("family-e:compiled-flag:" + str(getattr(Tc, "__compiled__", None)))
        if not align and native_padding_differs(tree):
            res.feat("family-e:packed-run-that-native-mode-would-pad")
        cd0 = cd_of(Lc, sc_)
        try:
            lay_i = (Ti.size, Ti.alignment, [f.offset for f in Ti.__fields__])
            lay_c = (Tc.size, Tc.alignment, [f.offset for f in Tc.__fields__])
            if getattr(Ti, "__compiled__", False):
                eng.report(f"endian {spelling!r}: a definition loaded with compiled=False has a generated reader installed", cd_of(Li, si), sigs)
        except Exception as e:  # noqa: BLE001
            eng.report(f"endian {spelling!r}: the layout of the loaded classes cannot be read: {type(e).__name__}: {e}", cd0, sigs)
            return
        if lay_i != lay_c:
            eng.report(f"endian {spelling!r}: compiled and interpreted classes differ in size/alignment/offsets: {lay_c} vs {lay_i}", cd0, sigs)
        for path, cls in s2_ptr.classes_needing_fallback(Tc):
            res.feat("family-e:fallback-required:unpackable-pointer")
            if cls.__compiled__:
                eng.report(f"endian {spelling!r}: {path} has pointer members and the pointer type {ptr} is not struct-packable, but the class did not "
                           f"fall back to the interpreted reader", cd0, sigs)
        size = Ti.size if Ti.size is not None else 40
        bufs = [rand_bytes(rnd, size + rnd.choice([0, 3, 9])) for _ in range(3)]
        slots = s2_ptr.pointer_slots(Ti)
        if slots and stands is not None:
            psz = Ti.cs.pointer.size
            bufs = [s2_ptr.plant(rnd, d + (rand_bytes(rnd, rnd.choice([0, 6, 24])) if len(d) >= size else b""), slots, psz, stands)[0] for d in bufs]
            res.feat("family-e:pointer-slots-planted", len(slots))
        # the model speaks '<' and '>': a view of the compiled class under the byte order the spelling stands for
        Lm = impl.retarget(Lc, endian=stands) if (stands is not None and not word) else None
        accepted = None
        for data in bufs:
            wi, oi = safe_parse(Ti, data)
            wc, oc = safe_parse(Tc, data)
            res.count(("e", text, spelling, mode, align, ptr, data), len(tree[1]) >= 2)
            cd = cd_of(Lc, sc_ + f"\nT(bytes.fromhex({data.hex()!r}))", data=data)
            complete = Ti.size is not None and len(data) >= Ti.size
            if wi[0] == "ok" and wc[0] == "ok":
                if not impl.same_val(wi[1], wc[1]) or wi[2] != wc[2] or wi[3] != wc[3]:
                    eng.report(f"endian {spelling!r} ({mode}): compiled gives {str(wc)[:300]}, interpreted gives {str(wi)[:300]}", cd, sigs)
                else:
                    di, dcm = s2_ptr.deref_observations(oi), s2_ptr.deref_observations(oc)
                    if di or dcm:
                        res.feat("family-e:deref-compared", len(di))
                    if len(di) != len(dcm):
                        eng.report(f"endian {spelling!r}: the compiled result holds {len(dcm)} pointers, the interpreted one {len(di)}", cd, sigs)
                    for (pa, aa, oa), (pb, ab, ob) in zip(di, dcm):
                        if word:
                            oa, ob = blur_errors(oa), blur_errors(ob)
                        if (pa, aa) != (pb, ab) or not s2_ptr.same_outcome(oa, ob):
                            eng.report(f"endian {spelling!r}: dereferencing {pa[1:]} (address {aa}): the compiled reader's pointer gives {s2_ptr.show(ob)}, "
                                       f"the interpreted reader's gives {s2_ptr.show(oa)}", dict(cd, member=pa[1:], address=aa), sigs)
                            break
                accepted = accepted or data
            elif word and wi[0] == "ok" and wc == ("err", "Overflow") and builds_empty_format(tree, Tc):
                # EXCLUDED (reported upstream as behaviour of the unmodified library, see the module docstring): under a word spelling
                # the generated reader raises struct.error from a format that unpacks nothing; the interpreted reader needs no format
                res.feat("family-e:word:EXCLUDED-compiled-raises-struct.error-interpreted-returns")
            elif wi[0] != wc[0]:
                bad = [w for w in (wi, wc) if w[0] == "err" and w[1] != "EOFError"]
                if complete or bad:
                    eng.report(f"endian {spelling!r} ({mode}): compiled gives {str(wc)[:200]}, interpreted gives {str(wi)[:200]} on "
                               f"{'a complete' if complete else 'an'} input of {len(data)} bytes", cd, sigs)
                else:
                    res.feat("family-e:short-input:one-reader-raises")
            else:
                # both raise
                if word and complete:
                    res.feat("family-e:word:both-raise")
                elif complete and wi[1] != wc[1]:
                    eng.report(f"endian {spelling!r} ({mode}): on a complete input the compiled reader raises {wc[1]}, the interpreted one {wi[1]}", cd, sigs)
            if Lm is not None and "F23" not in sigs and wc[0] == wi[0] and (wc[0] == "ok" or wc[1] in impl.ERRMAP.values()):
                eng.model_read(Lm, data, 0, wc, f"endian {spelling!r} (stands for {stands!r}): compiled reader vs model of the interpreted reader", sigs)
        if accepted is None:
            return
        # every cut point of one accepted buffer
        full, _ = safe_parse(Ti, accepted)
        for k in range(min(len(accepted), (full[2] if full[0] == "ok" else 0) + 1)):
            cut = accepted[:k]
            wi, _ = safe_parse(Ti, cut)
            wc, _ = safe_parse(Tc, cut)
            res.count(("e", text, spelling, mode, align, ptr, cut), False)
            cdk = cd_of(Lc, sc_ + f"\nT(bytes.fromhex({cut.hex()!r}))", data=cut)
            if wi[0] == "ok" and wc[0] == "ok" and (not impl.same_val(wi[1], wc[1]) or wi[2] != wc[2] or wi[3] != wc[3]):
                eng.report(f"endian {spelling!r}, cut at {k}: compiled gives {str(wc)[:200]}, interpreted gives {str(wi)[:200]}", cdk, sigs)
            for who, w in (("interpreted", wi), ("compiled", wc)):
                if w[0] == "err" and w[1] != "EOFError" and not has_eof(tree):
                    eng.report(f"endian {spelling!r}, cut at {k}: the {who} reader raises {w[1]} instead of EOFError", cdk, sigs)
        # the accepted buffer once more through another public entry point: the same value from both readers, and the value of the stream parse
        entry = rnd.choice(ENTRIES)
        if entry == "member-of-struct" and (Ti.size is None or has_eof(tree)):
            entry = "array-of-2"
        if entry == "array-of-2" and (Ti.size is None or Ti.size == 0 or has_eof(tree)):
            entry = "call-bytes"
        body = accepted if entry not in ("array-of-2", "member-of-struct") else accepted[:Ti.size]
        base_i, _ = safe_parse(Ti, body)
        base_c, _ = safe_parse(Tc, body)
        ei, ec = via_entry(Li, entry, body, files), via_entry(Lc, entry, body, files)
        res.feat("family-e:entry:" + entry)
        res.count(("e-entry", text, spelling, mode, align, ptr, entry, body), len(tree[1]) >= 2)
        cde = cd_of(Lc, sc_ + "\n" + entry_script(entry, body), data=body, entry=entry)
        if ei[0] != ec[0]:
            eng.report(f"endian {spelling!r}, {entry}: compiled gives {str(ec)[:200]}, interpreted gives {str(ei)[:200]}", cde, sigs)
        elif ei[0] == "ok":
            if len(ei[1]) != len(ec[1]) or not all(impl.same_val(a, b) for a, b in zip(ei[1], ec[1])) or ei[2] != ec[2]:
                eng.report(f"endian {spelling!r}, {entry}: compiled gives {str(ec)[:260]}, interpreted gives {str(ei)[:260]}", cde, sigs)
            for who, base, got in (("interpreted", base_i, ei), ("compiled", base_c, ec)):
                if base[0] == "ok" and not all(impl.same_val(base[1], v) and base[3] == s for v, s in zip(got[1], got[2])):
                    eng.report(f"endian {spelling!r}, {entry}: the {who} reader returns {str(got)[:200]} through this entry point, "
                               f"{str(base)[:200]} from a stream", cde, sigs)
        elif entry in ("call-bytes", "reads-bytearray", "read-memoryview", "read-stream", "read-file") and base_c[0] == "ok":
            eng.report(f"endian {spelling!r}, {entry}: both readers raise ({ec[1]}: {ec[2]}) on a buffer the stream parse accepts", cde, sigs)

    def probe(tree, spelling, align, ptr, mode, kind):
        try:
            probe_(tree, spelling, align, ptr, mode, kind)
        except Infra:
            raise
        except Exception as e:  # noqa: BLE001 - the library handed out something the observation code cannot walk
            eng.report(f"endian {spelling!r} ({mode}): observing the loaded classes / parsed values raised {type(e).__name__}: {str(e)[:200]}",
                       {"definition": defs.render_struct("T", tree), "endian": spelling, "align": align, "pointer": ptr, "configured": mode,
                        "traceback": traceback.format_exc()[-1500:]}, [])

    try:
        # ---- directed runs of differing sizes: every spelling each time
        nd = 26 if quick else 400
        for _ in range(nd):
            shape, tree = Directed(rnd).struct()
            res.feat("family-e:directed-shape:" + shape)
            for spelling in chars + words:
                aligns = [rnd.random() < 0.3] if quick else [False, True]
                for align in aligns:
                    probe(tree, spelling, align, rnd.choice(s2_ptr.PACKED_PTRS + ["uint64"] if rnd.random() < 0.8 else widths), rnd.choice(MODES), "directed")
            if len(eng.lines) > 4000:
                eng.flush()
        # ---- the definitions of families (a)/(b) under the spellings
        pool = rnd.sample(trees, min(len(trees), 70 if quick else 800))
        for tree in pool:
            todo = rnd.sample(chars, 2 if quick else len(chars)) + (words if rnd.random() < (0.15 if quick else 0.5) else [])
            for spelling in todo:
                probe(tree, spelling, rnd.random() < 0.5, rnd.choice(widths), rnd.choice(MODES), "a/b")
            if len(eng.lines) > 4000:
                eng.flush()
        # ---- pointer-bearing definitions of family (c)
        ptrs, near = ptr_kinds
        pk, nk = list(ptrs), list(near)
        for _ in range(16 if quick else 150):
            seq = [ptrs[rnd.choice(pk)]]
            if rnd.random() < 0.7:
                seq.insert(rnd.choice([0, 1]), near[rnd.choice(nk)] if rnd.random() < 0.7 else ptrs[rnd.choice(pk)])
            fields = []
            for i, mk in enumerate(seq):
                fields += mk(f"f{i}")
            tree = ("struct", fields)
            for spelling in (rnd.sample(chars, 2) if quick else chars + words):
                probe(tree, spelling, rnd.random() < 0.5, rnd.choice(list(s2_ptr.ALL_PTRS)), rnd.choice(MODES), "c")
            if len(eng.lines) > 4000:
                eng.flush()
    finally:
        files.close()
    res.sample({"definition": defs.render_struct("T", Directed(mkrng(env["seed"], "c03-v9-sample")).struct()[1]), "endian": "@",
                "note": "family (e): endianness spellings"}, cap=8)
