"""v9: the 'array forms x endianness x entry points' family of C05 (section 9).

"Every integer type of width w decodes ... in the byte order CURRENTLY set on the cstruct instance ... changing the instance's
endianness takes effect for all subsequent reads and writes of all its types": an array is read and written by code of its own
(one struct format for n elements, a loop, a terminator scan, a read to the end of the input), and each ARRAY FORM has its own
branch.  The elements of an array are the standard decodings of the element-size slices of the input under the endianness that
is current at the time of the call - whatever the form, however the type was made, whenever the endianness was set.  Every trial

  1. picks an element type from every scalar family (fixed-width and 3/6/16-byte integers, the built-in synonyms, float16 /
     float / double, char / wchar in all spellings, uleb128 / ileb128, enums and flags over 1..8-byte bases) and an ARRAY FORM:
     x[n] (n = 0..5), x[<expression>] (over an earlier member and / or constants), x[] (null-terminated), x[EOF], and the
     two-dimensional x[a][b];
  2. makes the type through one of the public ways: the API (cs.T[n], cs.T[None], cs.T[Expression(cs, "EOF")], cs.resolve(name)
     [..]), a typedef of the array, a structure member (an optional scalar in front, the count member, the array, an optional
     scalar behind; compiled or interpreted; aligned or packed) or a member declared through a typedef of the array - the
     definition loaded with cs.load, cs.loadfile, the legacy parser (deftype=DEF_LEGACY) or built with cs._make_struct / Field;
  3. sets the endianness at different TIMES: in the constructor, by assignment before the definition is loaded, by assignment
     after it was loaded (and compiled), and flipped between two reads - after a flip the SAME bytes are read again and must
     now give the values of the other byte order (each member re-interpreted; a NaN that appears this way is compared by
     class), then possibly flipped back;
  4. in every phase decodes through two entry points (T(bytes / bytearray / memoryview), T(stream at an offset with bytes
     behind), T.reads, T.read(buffer or stream), cs.read(name, stream), a real file object) and encodes through two (T.dumps(v),
     T(v).dumps() / instance.dumps(), bytes(instance), T.write(stream, v), instance.write(stream), the parsed value put back).

Oracle: the reference encoder of harness/v9_c05.py under the CURRENT endianness - decode gives exactly the values (floats by bit
pattern) and consumes exactly the encoding (terminator included), encode gives exactly the bytes.  A call that must succeed and
raises is a violation.  Violations carry a self-contained script (`case.script`) which props/c05.replay re-executes.

Correspondence: the same types, bytes and values go to the Lean model (`read` / `write`) under the endianness of the phase.

Domain notes (what is deliberately not generated, and why):
  * elements of a null-terminated array are non-zero in BOTH byte orders; float elements of such arrays are not a zero of either
    sign in either order (known finding F75: -0.0 ends a float array);
  * wchar elements are BMP characters whose byte-swapped unit is a character too (surrogates are section 7's subject);
  * the member an array length is computed from is a uint8 (so that it reads the same after a flip);
  * x[EOF] members only in packed structures (aligned: known finding F30); aligned structures only at stream position 0;
    the legacy parser has no align option and is only given single-word type names.
"""
from __future__ import annotations

from . import v9_c05 as core
from .v4_c05 import Script
from .v9_c05 import CONST_EXPRS, COUNT_EXPRS, ENUMS, FCH, HELPERS_SRC, ORDER, PREAMBLE, Probe, Values, encode, int_info, pyexpr, render, tyexpr

PTR = "uint64"
TYPEDEF_NAME = "ARR"


def reinterp(ty, v, of, ot):
    """the value whose encoding in byte order `ot` is the encoding of v in byte order `of`"""
    if of == ot:
        return v
    k = ty[0]
    if k == "int":
        size, signed = int_info(ty[1])
        return int.from_bytes(v.to_bytes(size, of, signed=signed), ot, signed=signed)
    if k == "enum":
        size, signed = int_info(ENUMS[ty[1]][1])
        return int.from_bytes(v.to_bytes(size, of, signed=signed), ot, signed=signed)
    if k == "flt":
        return core.swap_pattern(v, FCH[ty[1]][1])
    if k == "wchar":
        return "".join(chr(((ord(c) & 0xFF) << 8) | (ord(c) >> 8)) for c in v)
    if k in ("char", "leb"):
        return v
    if k == "arr":
        if ty[1][0] in ("char", "wchar"):
            return reinterp(ty[1], v, of, ot)
        return [reinterp(ty[1], x, of, ot) for x in v]
    if k == "sub":
        return {f["name"]: reinterp(f["ty"], v[f["name"]], of, ot) for f in ty[1]}
    raise ValueError(k)


def api_struct_stmt(fields, name, compiled, align):
    fl = ", ".join(f"Field({f['name']!r}, {'cs.' + f['via'] if f.get('via') else tyexpr(f['ty'])})" for f in fields)
    return (f"S_ = cs._make_struct({name!r}, [{fl}], align={align})" + ("; S_ = compiler.compile(S_)" if compiled else "") +
            f"; cs.add_type({name!r}, S_)")


def run(R, rnd, tier):
    """R: the Runner of props/c05 (res, violation, ask, dc)"""
    res, dc = R.res, R.dc
    P = Probe(R, "arrays")
    vg = Values(rnd)
    trials = 300 if tier == "quick" else 5000
    for t in range(trials):
        where = rnd.choice(["api", "api", "typedef", "member", "member", "member", "typedef-member"])
        how = rnd.choice(["load", "load", "loadfile", "legacy", "api"]) if where in ("member", "typedef-member") else "load"
        ety = vg.scalar_ty(identifiers_only=(how == "legacy"), weights=[34, 26, 7, 9, 8, 16])
        form = rnd.choices(["fixed", "expr", "null", "eof", "single"], [26, 18, 20, 28, 8])[0]
        compiled = rnd.random() < 0.5
        align = where in ("member", "typedef-member") and how != "legacy" and form != "eof" and rnd.random() < 0.35
        two_d = form == "fixed" and how != "legacy" and rnd.random() < 0.15

        # ---- the array type and its value
        count_member = None
        if form == "single":   # the scalar itself through the same ways, entry points and flips
            aty, aval = ety, vg.scalar(ety, "any", PTR)
        elif form == "fixed":
            aty = ("arr", ety, ("fixed", rnd.choice([0, 1, 2, 2, 3, 4, 5])))
            if two_d:
                aty = ("arr", ("arr", ety, ("fixed", rnd.randint(1, 3))), ("fixed", rnd.randint(1, 3)))
            aval = vg.array(aty, "any", PTR)
        elif form == "expr":
            if where == "member" and rnd.random() < 0.7:
                cnt = rnd.choice([0, 1, 2, 3, 4])
                while True:
                    tmpl, solve = rnd.choice(COUNT_EXPRS)
                    c = solve(cnt)
                    if c is not None and 0 <= c < 256:
                        break
                count_member = ("cnt", c)
                text = tmpl.format(c="cnt")
            else:
                text, cnt = rnd.choice(CONST_EXPRS)
            aty = ("arr", ety, ("expr", text, cnt))
            aval = vg.array(aty, "any", PTR)
        else:
            aty = ("arr", ety, (form,))
            aval = vg.array(aty, "any", PTR, rnd.choice([0, 1, 1, 2, 3, 4, 5]))

        # ---- how the type comes into being
        stmts, tname = [], None
        if where == "api":
            base = tyexpr(ety) if rnd.random() < 0.6 else f"cs.resolve({ety[1]!r})"
            T = tyexpr(aty).replace(tyexpr(ety), base, 1)
            ty, val, defn = aty, aval, ""
        elif where == "typedef":
            dims, inner = "", aty
            while inner[0] == "arr":
                dims += f"[{core.len_text(inner[2])}]"
                inner = inner[1]
            defn = f"typedef {ety[1]} {TYPEDEF_NAME}{dims};"
            stmts, T, tname = [f"cs.load({defn!r})"], f"cs.{TYPEDEF_NAME}", TYPEDEF_NAME
            ty, val = aty, aval
        else:
            fields, val = [], {}

            def add(name, fty, v, via=None):
                fields.append({"name": name, "ty": fty, "bits": None, "via": via})
                val[name] = v

            if rnd.random() < 0.5:
                lty = vg.scalar_ty(identifiers_only=(how == "legacy"))
                add("lead", lty, vg.scalar(lty, "any", PTR))
            if count_member:
                add("cnt", ("int", "uint8"), count_member[1])
            via = None
            defn = ""
            if where == "typedef-member":
                dims, inner = "", aty
                while inner[0] == "arr":
                    dims += f"[{core.len_text(inner[2])}]"
                    inner = inner[1]
                via = TYPEDEF_NAME
                defn = f"typedef {ety[1]} {TYPEDEF_NAME}{dims};\n"
                stmts.append(f"cs.load({defn!r})")
            add("x", aty, aval, via)
            if form != "eof" and rnd.random() < 0.5:
                tty = vg.scalar_ty(identifiers_only=(how == "legacy"))
                add("trail", tty, vg.scalar(tty, "any", PTR))
            ty = ("sub", fields, "S")
            text = render(fields, "S")
            if how == "api":
                stmts.append(api_struct_stmt(fields, "S", compiled, align))
                defn += text.strip() + "  /* built with cs._make_struct */"
            else:
                stmts.append(core.load_stmt(text, how, compiled, align))
                defn += text
            T, tname = "cs.S", "S"

        # ---- the endianness: constructor / assignment before loading / assignment after loading / flips
        e0 = rnd.choice("<>!")
        early = rnd.random() < 0.25
        phases = [rnd.choice("<>!") if rnd.random() < 0.5 else e0]
        if rnd.random() < 0.7:
            phases.append(rnd.choice("<>!"))
            if rnd.random() < 0.35:
                phases.append(phases[0])
        sc = Script(dc)
        ctx = dict(type=T, definition=defn, made_by=f"{where}/{how}", compiled=compiled, align=align, endian_history=[e0, *phases])
        first = "cs = cstruct(); cs.endian = %r" % e0 if early else f"cs = cstruct(endian={e0!r})"
        if not P.setup(sc, [HELPERS_SRC, f"{first}; cs.load({PREAMBLE!r})", *stmts, f"T = {T}"], ctx):
            continue
        for k in (f"form={'2d' if two_d else form}", f"elem={ety[0]}", f"made-by={where}", *([f"loaded-by={how}"] if ty[0] == "sub" else []),
                  f"compiled={compiled}:align={align}" if ty[0] == "sub" else "standalone", f"endian-set={'before-load' if early else 'constructor'}",
                  f"phases={len(phases)}"):
            res.feat("arrays:" + k)

        cur, o1 = e0, None
        history = f"cstruct(endian={e0!r})" if not early else f"cs.endian = {e0!r} before loading"
        ok = True
        for pi, e in enumerate(phases):
            if e != cur or pi > 0:
                if not P.setup(sc, [f"cs.endian = {e!r}"], ctx):
                    ok = False
                    break
                history += f", cs.endian = {e!r}"
                res.feat(f"arrays:flip={ORDER[cur]}->{ORDER[e]}")
                cur = e
            if o1 is None:
                o1 = ORDER[e]   # the byte order the first phase's bytes are written in
            # the same BYTES in every phase: under another byte order they are the encoding of the re-interpreted values
            v = reinterp(ty, val, o1, ORDER[e])
            note = f" ({history})"
            pctx = {**ctx, "endian": e}
            V = pyexpr(ty, v)
            for kind in ["stream" if rnd.random() < 0.5 else "read-stream"] + rnd.sample([k for k in core.READS if k not in ("stream", "read-stream")], 1 if tier == "quick" else 2):
                ok, got = P.read(sc, rnd, kind, T, tname, ty, v, e, PTR, align, pctx, note)
                if not ok:
                    break
                if kind in ("stream", "read-stream"):
                    sc.do("parsed = got")
            if not ok:
                break
            wkinds = ["dumps", "write", "inst", "redump"] + (["bytes", "inst-write"] if ty[0] == "sub" else [])
            for kind in rnd.sample(wkinds, 2 if tier == "quick" else 3):
                if kind == "redump":
                    b1 = encode(ty, v, ORDER[e], PTR, align)
                    ok = P.write(sc, rnd, "inst" if ty[0] == "sub" else "dumps", T, ty, v, "parsed", e, PTR, align, {**pctx, "value": "parsed from the reference bytes"},
                                 note, vdesc=f"<the value parsed from {(b1[0] + b1[1]).hex() or '-'}>")
                else:
                    ok = P.write(sc, rnd, kind, T, ty, v, V, e, PTR, align, {**pctx, "value": V}, note)
                if not ok:
                    break
            if not ok:
                break
            P.ask_write(ty, v, e, PTR, align, pctx, V)
    res.sample({"arrays": "struct S { uint16 x[EOF]; }", "endian": "cstruct(endian='<'), then cs.endian = '>'", "bytes": "0001fffe1234",
                "elements": [1, 65534, 4660], "after cs.endian = '<'": [256, 65279, 13330]})
